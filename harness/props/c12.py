"""C12 — tokens are deterministic and distinct values get distinct tokens.

Model:    lean/DaskModel/Model/NormalForm.lean (normalize_token dispatch on plain data + Python repr of the
          nested tuples = the exact string fed to md5)
Theorems: lean/DaskModel/Props/C12.lean
Tie:      `pre`   function level: md5(model pre-image) == tokenize(...) on generated plain values / arrays
          `pair`  property oracle: tokenize(a) == tokenize(b)  <=>  obs_eq(a, b) (independent structural oracle)
          `trip`  determinism: deep copy, pickle round trip, rebuilt equal value
          `fresh` determinism in fresh interpreters with other hash seeds
          `opq`   oracle only: pandas objects, dataclasses, partials, callables, memmaps (not modelled)
          `rec`   recursive containers (`__seen`): exact pre-image against Model/NormalFormRec.lean, determinism under
                  rebuild / deepcopy / pickle, different structures -> different tokens
          `ppx`   exact pre-image against Model/NormalFormPandasX.lean: MultiIndex, Categorical, nullable arrays, tz-aware /
                  period / timedelta / interval values, pandas scalars; `pxpair` near misses of that universe (other category
                  order, other level order, NA vs the fill value, hidden data under the mask, other tz / unit / closedness)
          `cat`   oracle only: a catalogue of further classes (numpy scalars / dtypes / ufuncs, bound methods, builtins,
                  Compose / curry / partial, literal, OrderedDict, MappingProxyType, frozenset, types, range, UUID,
                  pandas scalars / offsets / extension arrays / dtypes, recursive containers, masked / record / object /
                  string / datetime arrays): equal <=> same token, stable under deepcopy / pickle
"""
from __future__ import annotations

import copy
import hashlib
import json
import os
import pickle
import subprocess
import sys

from sexp import Sym
from props import _token_util as U
from props import _token_pandasx as PX

PROP = "C12"
READY = True
DRIVER = "dm_token"
LEAN_MODULES = ["DaskModel.Props.C12", "DaskModel.Props.C12Pandas", "DaskModel.Props.C12xPandas", "DaskModel.Props.C12Registry", "DaskModel.Props.C12Pickle"]
TABLES = ["TokenDispatch", "TokenRegistry"]
CASE_TIMEOUT_S = 240   # the `fresh` case starts new interpreters (slow imports on a loaded machine); nothing else comes close
LEVEL_TEXT = ("Lean proof over the modelled normaliser (ints, bools, floats, str, bytes, None, nested list/tuple/dict/"
              "set, 0-d / strided n-d numeric arrays, object arrays of str): norm is injective up to the structural "
              "equality ObsEq (norm_injective: distinct values -> distinct normal forms) and, for well-formed values, "
              "constant on ObsEq classes (norm_deterministic: no dependence on insertion / iteration order, hash seed or "
              "memory layout; the stable sort by (str, type name) is canonical on distinct keys); the strided-array token "
              "is a function of (dtype, shape, logical elements) and determines them; joined text + lengths of object "
              "arrays determine the elements; Python repr of str / bytes / ints is self-delimiting and repr of the nested "
              "token tuples is uniquely readable, so for plain data equal md5 pre-images imply observably equal values "
              "(preimage_injective). NumPy-backed pandas objects (Index, RangeIndex, Series, DataFrame column by column, "
              "Categorical): pnorm a = pnorm b <-> the objects agree in class, names, dtypes and, up to memory layout, values "
              "(ptoken_iff; collision freedom also across the classes, determinism independent of views / block layout). "
              "Extended pandas universe (MultiIndex, Categorical as array / index / categories of anything, nullable Integer / "
              "Floating / Boolean arrays, tz-aware / period / timedelta / interval values, Timestamp / Timedelta / NaT / NA): "
              "xnormVals_injective / xnormIdx_injective (mutual induction over values and indexes: equal normal forms -> same "
              "dtype name incl. tz / unit / freq, same NA positions and non-missing values, same categories in the same order, "
              "ordered flag, codes, levels in their order with their names, interval sides and closedness) and the converses "
              "xnormVals_deterministic / xnormIdx_deterministic / xnorm_deterministic (layout and what is stored underneath a "
              "missing value do not matter); objects: xnorm_injective_partial (two objects of ONE class; across classes only "
              "scalar_separated, series_ne_multi, classed_index_ne_list are proved). "
              "The dispatch table extracted from dask/tokenize.py is accounted for class by class (registry_complete, "
              "modelled_registered, one_normaliser_per_class) and compared with the table of the running interpreter. The "
              "retry loop of the pickle fallback is transliterated (pickle_stable, pickle_unstable_flagged, "
              "pickle_token_is_an_attempt) and run on scripted pickles (all 64 scripts). The models' pre-image strings "
              "(plain data, recursive containers, pandas objects) are compared with the real tokenize() bit for bit on every run.")
LEVEL_NOTE = ("md5 and hash_buffer_hex are assumed injective on the values compared (trusted); CPython repr of float, dtype "
              "and type objects are atoms (the printed-form injectivity theorem covers ints, bools, None, str, bytes and "
              "containers of them); rnorm_eq_norm proves that the __seen bookkeeping is invisible on acyclic values, genuine "
              "cycles are validated by exact pre-image only; Timestamp / Timedelta reach the token through repr() (carried as "
              "atoms: two known findings, resolution unit of the scalars and fixed-offset zones that share a name); Arrow-backed and "
              "sparse arrays, string arrays that hold NA, Interval / Period scalars (pickle path), the pickle bytes themselves "
              "(callables, arbitrary objects), "
              "dataclasses and partials are validated by the oracle-only sections (near-miss pairs, copy / deepcopy / "
              "pickle round trips, fresh interpreters with another hash seed).")
TECHNIQUE = "Lean 4 proof (structural induction over a nested value type) + differential correspondence on the md5 pre-image"
ASSUMPTIONS = ["hashlib.md5 and dask.hashing.hash_buffer_hex are injective on the inputs compared",
               "CPython repr(float), repr(numpy.dtype), repr(type) are injective (carried as atoms)",
               "str code points >= 0x80 that are generated are printable (repr leaves them unescaped)",
               "utf-8 encoding is injective",
               "pickle.dumps / cloudpickle.dumps of equal objects give equal bytes where the pickle fallback is used (validated)"]
TRUSTED = ["harness/props/_token_util.py: encoding of Python values as Lean `Val`, interning of array elements, digest placeholders",
           "harness/props/c12.py enc_pandas: reading name / dtype / values / index off pandas objects through their public attributes (and ._values)",
           "harness/props/_token_pandasx.py enc_obj: the same for the extended universe (plus ._data / ._mask of nullable arrays); obs: the observation oracle"]


# ----------------------------------------------------------------------------------------------
# cases
# ----------------------------------------------------------------------------------------------

def _tokenize(*a, **k):
    from dask.tokenize import tokenize
    return tokenize(*a, **k)


def _classes(ctx, spec, pref=""):
    t = spec[0]
    if t in ("dict", "set"):
        ctx.branch(pref + t)
        items = spec[1] if t == "set" else [k for k, _ in spec[1]]
        strs = [str(U.build(k)) for k in items]
        if len(set(strs)) < len(strs):
            ctx.branch(pref + t + "-keys-share-str")
    elif t == "nd":
        x = U.build(spec)
        if x.ndim == 0:
            ctx.branch(pref + "nd-0d")
        elif x.flags.c_contiguous and x.flags.f_contiguous:
            ctx.branch(pref + "nd-1d-contig")
        elif x.flags.c_contiguous:
            ctx.branch(pref + "nd-C")
        elif x.flags.f_contiguous:
            ctx.branch(pref + "nd-F")
        elif any(s < 0 for s in x.strides):
            ctx.branch(pref + "nd-negative-stride")
        elif any(s == 0 for s in x.strides):
            ctx.branch(pref + "nd-broadcast")
        else:
            ctx.branch(pref + "nd-strided")
    elif t == "obj":
        ctx.branch(pref + "objarr")
    if t in ("list", "tuple", "set"):
        for s in spec[1]:
            _classes(ctx, s, pref)
    elif t == "dict":
        for k, v in spec[1]:
            _classes(ctx, v, pref)


def case_pre(ctx, inp):
    vals = [U.build(s) for s in inp["vals"]]
    kw = {k: U.build(s) for k, s in inp.get("kw", {}).items()}
    real = _tokenize(*vals, **kw)
    try:
        tok, pre = U.model_token(ctx, vals, kw)
    except U.Unsupported:
        ctx.note("unsupported")
        return
    if tok != real:
        from dask.tokenize import _normalize_seq_func
        ctx.disagree("tokenize pre-image", pre, str(_normalize_seq_func(vals)))
    for s in inp["vals"]:
        _classes(ctx, s)
    if kw:
        ctx.branch("kwargs")


def case_pair(ctx, inp):
    a, b = U.build(inp["a"]), U.build(inp["b"])
    ta, tb = _tokenize(a), _tokenize(b)
    same = U.obs_eq(a, b)
    label = inp.get("label", "?")
    ctx.branch(("equal:" if same else "differ:") + label.split(":")[0 if not label.startswith("same:") else 1])
    try:
        ma, pa = U.model_token(ctx, [a])
        mb, pb = U.model_token(ctx, [b])
        ctx.eq("token equality pattern (model vs tokenize)", ma == mb, ta == tb)
    except U.Unsupported:
        ctx.note("unsupported")
    if same and ta != tb:
        ctx.fail("equal values get different tokens (non-deterministic token)", sig=_sig("nondet", inp),
                 observed=[ta, tb], expected="equal tokens")
    if not same and ta == tb:
        ctx.fail("observably different values get the same token (collision)", sig=_sig("collision", inp),
                 observed=ta, expected="different tokens")


def _sig(kind, inp):
    """Signature = symptom + value classes involved (so a different violation is still reported)."""
    def cls(s):
        if s[0] == "nd":
            return "nd"
        if s[0] in ("list", "tuple", "set"):
            inner = sorted({cls(e) for e in s[1]})
            return s[0] + ("<" + ",".join(inner) + ">" if inner else "")
        if s[0] == "dict":
            return "dict"
        return s[0]
    if "a" in inp:
        return f"{kind}:{cls(inp['a'])}|{cls(inp['b'])}:{inp.get('label', '')}"
    return f"{kind}:{cls(inp['v'])}"


def case_trip(ctx, inp):
    v = U.build(inp["v"])
    t0 = _tokenize(v)
    for name, w in (("again", v), ("deepcopy", copy.deepcopy(v)), ("pickle", pickle.loads(pickle.dumps(v))),
                    ("pickle5", pickle.loads(pickle.dumps(v, protocol=5))), ("rebuilt", U.build(inp["v"]))):
        if not U.obs_eq(v, w):
            ctx.note("roundtrip-not-equal-" + name)   # e.g. set -> not for plain data; never expected
            continue
        t = _tokenize(w)
        if t != t0:
            ctx.fail(f"token changes after {name}", sig=_sig("nondet-" + name, inp), observed=[t0, t], expected="equal")
    _classes(ctx, inp["v"], "trip-")
    ctx.branch("trip")


_FRESH = r"""
import sys, json
sys.path.insert(0, {repo!r}); sys.path.insert(0, {harness!r})
import warnings; warnings.filterwarnings("ignore")
from props import _token_util as U
from dask.tokenize import tokenize
specs = json.load(sys.stdin)
print(json.dumps([tokenize(U.build(s)) for s in specs]))
"""


def case_fresh(ctx, inp):
    from core import REPO, HERE
    specs = inp["vals"]
    here = [_tokenize(U.build(s)) for s in specs]
    env = dict(os.environ)
    for seed in inp["seeds"]:
        env["PYTHONHASHSEED"] = str(seed)
        p = subprocess.run([sys.executable, "-c", _FRESH.format(repo=REPO, harness=HERE)], input=json.dumps(specs),
                           capture_output=True, text=True, env=env, timeout=200)
        if p.returncode != 0:
            raise RuntimeError("fresh interpreter failed: " + p.stderr[-400:])
        there = json.loads(p.stdout.strip().splitlines()[-1])
        for s, t0, t1 in zip(specs, here, there):
            if t0 != t1:
                ctx.fail("token of plain data differs in a fresh interpreter with another hash seed",
                         sig=_sig("nondet-fresh", {"v": s}), observed=[t0, t1], expected="equal", inp={"vals": [s], "seeds": [seed]})
    ctx.branch("fresh-interpreter")


# ---- oracle-only universe ----------------------------------------------------------------------

def _build_opq(spec):
    """Values outside the Lean model; spec -> (value, canonical description used as equality oracle)."""
    import dataclasses
    import functools
    import numpy as np
    k = spec[0]
    if k == "series":
        import pandas as pd
        _, vals, name, dtype, index = spec
        return pd.Series(vals, name=name, dtype=dtype, index=index)
    if k == "index":
        import pandas as pd
        _, vals, name, dtype = spec
        return pd.Index(vals, name=name, dtype=dtype)
    if k == "range":
        import pandas as pd
        _, start, stop, step, name = spec
        return pd.RangeIndex(start, stop, step, name=name)
    if k == "multi":
        import pandas as pd
        _, tuples, names = spec
        return pd.MultiIndex.from_tuples([tuple(t) for t in tuples], names=names)
    if k == "cat":
        import pandas as pd
        _, vals, cats, ordered = spec
        return pd.Categorical(vals, categories=cats, ordered=ordered)
    if k == "frame":
        import pandas as pd
        _, cols, index = spec
        return pd.DataFrame({c: pd.Series(v, dtype=dt, index=index) for c, v, dt in cols}, index=index)
    if k == "dc":
        _, cname, fields, frozen = spec
        return _dataclass(cname, tuple(f for f, _ in fields), frozen)(*[U.build(v) for _, v in fields])
    if k == "partial":
        _, fname, args, kwargs = spec
        return functools.partial(_FUNCS[fname], *[U.build(a) for a in args], **{k2: U.build(v) for k2, v in kwargs})
    if k == "func":
        return _FUNCS[spec[1]]
    if k == "lambda":
        return _lambda(spec[1])
    if k == "memmap":
        _, data, dtype, shape, offset = spec
        path = _memmap_file(bytes(data))
        return np.memmap(path, dtype=dtype, mode="r", shape=tuple(shape), offset=offset)
    if k == "plain":
        return U.build(spec[1])
    raise ValueError(spec)


_DC = {}


def _dataclass(name, fields, frozen):
    import dataclasses
    key = (name, fields, frozen)
    if key not in _DC:
        _DC[key] = dataclasses.make_dataclass(name, list(fields), frozen=frozen)
        _DC[key].__module__ = __name__
        globals()[f"{name}"] = _DC[key]
    return _DC[key]


def _f_add(x, y=0):
    return x + y


def _f_mul(x, y=1):
    return x * y


_FUNCS = {"add": _f_add, "mul": _f_mul, "len": len, "sum": sum, "sorted": sorted}
_LAMBDAS = {}


def _lambda(c):
    if c not in _LAMBDAS:
        _LAMBDAS[c] = eval(f"lambda x: x + {int(c)}")
    return _LAMBDAS[c]


_MM = {}


def _memmap_file(data: bytes):
    import tempfile
    if data not in _MM:
        f = tempfile.NamedTemporaryFile(prefix="c12mm", delete=False)
        f.write(data)
        f.close()
        _MM[data] = f.name
        import atexit
        atexit.register(lambda p=f.name: os.path.exists(p) and os.remove(p))
    return _MM[data]


def _opq_eq(sa, sb, a, b):
    """Equality oracle for the oracle-only universe: pandas `.equals` + names/dtypes; structural for the rest."""
    import numpy as np
    if type(a) is not type(b):
        return False
    k = sa[0]
    if k in ("series",):
        return a.name == b.name and a.dtype == b.dtype and a.index.equals(b.index) and a.index.dtype == b.index.dtype \
            and a.index.names == b.index.names and a.equals(b)
    if k in ("index", "range"):
        return a.equals(b) and a.dtype == b.dtype and a.names == b.names and (k != "range" or (a.start, a.stop, a.step) == (b.start, b.stop, b.step))
    if k == "multi":
        return a.equals(b) and a.names == b.names
    if k == "cat":
        # the order of the categories is observable (a.categories), also for unordered categoricals
        return list(a.categories) == list(b.categories) and a.ordered == b.ordered and list(a.codes) == list(b.codes)
    if k == "frame":
        return list(a.columns) == list(b.columns) and list(a.dtypes) == list(b.dtypes) and a.index.equals(b.index) \
            and a.index.dtype == b.index.dtype and a.equals(b)
    if k == "memmap":
        return a.dtype == b.dtype and a.shape == b.shape and a.tobytes() == b.tobytes()
    if k == "plain":
        return U.obs_eq(a, b)
    if k == "dc":
        return (sa[1], sa[3], [f for f, _ in sa[2]]) == (sb[1], sb[3], [f for f, _ in sb[2]]) and \
            all(U.obs_eq(U.build(x), U.build(y)) for (_, x), (_, y) in zip(sa[2], sb[2]))
    if k == "partial":
        return sa[1] == sb[1] and len(sa[2]) == len(sb[2]) and all(U.obs_eq(U.build(x), U.build(y)) for x, y in zip(sa[2], sb[2])) \
            and [n for n, _ in sa[3]] == [n for n, _ in sb[3]] and all(U.obs_eq(U.build(x), U.build(y)) for (_, x), (_, y) in zip(sa[3], sb[3]))
    return sa == sb   # func / lambda: equal iff same construction


# catalogue of further value classes (oracle only): source expression -> equality key; two entries denote observably
# equal values iff their keys are equal. Every expression is evaluated afresh for each use.
CATALOG = [
    ("np.int64(5)", "np.int64:5"), ("np.int32(5)", "np.int32:5"), ("np.int64(6)", "np.int64:6"), ("np.float64(5)", "np.float64:5"),
    ("np.int64(2) + np.int64(3)", "np.int64:5"), ("np.bool_(True)", "np.bool:1"), ("np.float32(1.5)", "np.float32:1.5"),
    ("np.dtype('i8')", "dtype:<i8"), ("np.dtype('int64')", "dtype:<i8"), ("np.dtype('>i8')", "dtype:>i8"), ("np.dtype('f8')", "dtype:<f8"),
    ("np.dtype([('a', 'i4'), ('b', 'f8')])", "dtype:struct-ab"), ("np.dtype([('a', 'i4'), ('c', 'f8')])", "dtype:struct-ac"),
    ("np.sin", "ufunc:sin"), ("np.cos", "ufunc:cos"), ("np.add", "ufunc:add"),
    ("[1, 2].append", "bm:list12.append"), ("[1, 2].pop", "bm:list12.pop"), ("[1, 3].append", "bm:list13.append"),
    ("'abc'.upper", "bm:abc.upper"), ("'abd'.upper", "bm:abd.upper"), ("'abc'.lower", "bm:abc.lower"),
    ("len", "builtin:len"), ("sum", "builtin:sum"), ("operator.add", "builtin:operator.add"), ("operator.sub", "builtin:operator.sub"),
    ("toolz.compose(len, str)", "compose:len,str"), ("toolz.compose(str, len)", "compose:str,len"), ("toolz.compose(len, repr)", "compose:len,repr"),
    ("toolz.curry(operator.add, 1)", "curry:add,1"), ("toolz.curry(operator.add, 2)", "curry:add,2"), ("toolz.curry(operator.sub, 1)", "curry:sub,1"),
    ("functools.partial(operator.add, 1)", "partial:add,1"), ("functools.partial(operator.add, 1, 2)", "partial:add,1,2"),
    ("dask.core.literal((1, 2))", "literal:(1,2)"), ("dask.core.literal((2, 1))", "literal:(2,1)"), ("dask.core.literal([1, 2])", "literal:[1,2]"),
    ("collections.OrderedDict([('a', 1), ('b', 2)])", "od:a1b2"), ("collections.OrderedDict([('b', 2), ('a', 1)])", "od:b2a1"),
    ("collections.OrderedDict([('a', 1), ('b', 3)])", "od:a1b3"), ("{'a': 1, 'b': 2}", "dict:a1b2"), ("{'b': 2, 'a': 1}", "dict:a1b2"),
    # a mappingproxy is a read-only view that compares == to the dict it wraps; dask registers both for one normaliser
    # on purpose (class __dict__s): same items <=> same token, for either class
    ("types.MappingProxyType({'a': 1, 'b': 2})", "dict:a1b2"), ("types.MappingProxyType({'b': 2, 'a': 1})", "dict:a1b2"),
    ("types.MappingProxyType({'a': 1})", "dict:a1"),
    ("frozenset([1, 2])", "fs:12"), ("frozenset([2, 1])", "fs:12"), ("frozenset([1, 3])", "fs:13"), ("{1, 2}", "set:12"),
    ("int", "type:int"), ("float", "type:float"), ("list", "type:list"), ("dict", "type:dict"),
    ("range(3)", "range:0,3,1"), ("range(0, 3)", "range:0,3,1"), ("range(0, 3, 2)", "range:0,3,2"), ("range(4)", "range:0,4,1"),
    ("uuid.UUID(int=5)", "uuid:5"), ("uuid.UUID(int=6)", "uuid:6"),
    ("pd.Timestamp('2000-01-01')", "ts:2000-01-01"), ("pd.Timestamp('2000-01-02')", "ts:2000-01-02"),
    ("pd.Timestamp('2000-01-01', tz='UTC')", "ts:2000-01-01utc"), ("pd.Timedelta('1D')", "td:1d"), ("pd.Timedelta('2D')", "td:2d"),
    ("pd.NA", "pd.NA"), ("pd.NaT", "pd.NaT"), ("pd.offsets.Day(1)", "off:D1"), ("pd.offsets.Day(2)", "off:D2"), ("pd.offsets.Hour(1)", "off:H1"),
    ("pd.Interval(0, 1)", "iv:0,1,right"), ("pd.Interval(0, 1, closed='left')", "iv:0,1,left"), ("pd.Interval(0, 2)", "iv:0,2,right"),
    ("pd.Period('2000-01', 'M')", "per:2000-01M"), ("pd.Period('2000-02', 'M')", "per:2000-02M"),
    ("pd.array([1, 2, None], dtype='Int64')", "arr:Int64:1,2,NA"), ("pd.array([1, 2, 3], dtype='Int64')", "arr:Int64:1,2,3"),
    ("pd.array([1, 2, None], dtype='Float64')", "arr:Float64:1,2,NA"),
    ("pd.arrays.IntervalArray.from_breaks([0, 1, 2])", "iva:012r"), ("pd.arrays.IntervalArray.from_breaks([0, 1, 2], closed='left')", "iva:012l"),
    ("pd.arrays.IntervalArray.from_breaks([0, 1, 3])", "iva:013r"),
    ("pd.period_range('2000-01', periods=3, freq='M').array", "pa:2000-01x3M"), ("pd.period_range('2000-01', periods=3, freq='D').array", "pa:2000-01x3D"),
    ("pd.date_range('2000-01-01', periods=3).array", "dta:2000x3"), ("pd.date_range('2000-01-01', periods=3, tz='UTC').array", "dta:2000x3utc"),
    ("pd.date_range('2000-01-02', periods=3).array", "dta:2000-2x3"), ("pd.timedelta_range('1D', periods=3).array", "tda:1dx3"),
    ("pd.timedelta_range('2D', periods=3).array", "tda:2dx3"),
    ("pd.CategoricalDtype(['a', 'b'])", "cdt:ab-u"), ("pd.CategoricalDtype(['a', 'b'], ordered=True)", "cdt:ab-o"),
    ("pd.CategoricalDtype(['b', 'a'])", "cdt:ba-u"),
    ("_rec_list(1)", "rec:list1"), ("_rec_list(2)", "rec:list2"), ("_rec_dict(1)", "rec:dict1"), ("_rec_dict(2)", "rec:dict2"),
    ("_rec_tuple_list(1)", "rec:tl1"),
    ("np.ma.masked_array([1, 2, 3], mask=[0, 1, 0])", "ma:123:010"), ("np.ma.masked_array([1, 2, 3], mask=[0, 0, 1])", "ma:123:001"),
    ("np.ma.masked_array([1, 9, 3], mask=[0, 1, 0])", "ma:193:010"),
    ("np.array([1, 'a', None], dtype=object)", "obj:1,a,None"), ("np.array([1, 'a', 0], dtype=object)", "obj:1,a,0"),
    ("np.array([b'a-b', b'c'], dtype=object)", "objb:a-b,c"), ("np.array([b'a', b'b-c'], dtype=object)", "objb:a,b-c"),
    ("np.array(['ab', 'c'])", "U:ab,c"), ("np.array(['a', 'bc'])", "U:a,bc"), ("np.array([b'ab', b'c'])", "S:ab,c"),
    ("np.array(['2000-01-01', '2000-01-02'], dtype='M8[D]')", "M8D:1,2"), ("np.array(['2000-01-01', '2000-01-02'], dtype='M8[ns]')", "M8ns:1,2"),
    ("np.rec.fromarrays([[1, 2], [3., 4.]], names='a,b')", "rec:ab"), ("np.rec.fromarrays([[1, 2], [3., 4.]], names='a,c')", "rec:ac"),
    # aligned records: the bytes between the fields are not part of the value
    ("_padded_rec(0, [0, 0, 0])", "recpad:000"), ("_padded_rec(0xAB, [0, 0, 0])", "recpad:000"), ("_padded_rec(0xAB, [0, 5, 0])", "recpad:050"),
    ("_padded_rec(0, [0, 5, 0])", "recpad:050"), ("_padded_rec(0x11, [0, 0, 0], nested=True)", "recpad-n:000"),
    ("_padded_rec(0xEE, [0, 0, 0], nested=True)", "recpad-n:000"), ("_padded_rec(0xEE, [1, 0, 0], nested=True)", "recpad-n:100"),
    # pandas objects reached by different construction routes: the internal layout (blocks, views, strides, memory order)
    # differs, the observable frame / series / index does not
    ("pd.DataFrame({'a': [1, 2], 'b': [3, 4], 'c': [5, 6]})", "frame:abc"), ("_df_setitem()", "frame:abc"), ("_df_setitem().copy()", "frame:abc"),
    ("pd.concat([pd.DataFrame({'a': [1, 2]}), pd.DataFrame({'b': [3, 4], 'c': [5, 6]})], axis=1)", "frame:abc"),
    ("pd.DataFrame(np.array([[1, 3, 5], [2, 4, 6]]), columns=list('abc'))", "frame:abc"),
    ("pd.DataFrame(np.asfortranarray(np.array([[1, 3, 5], [2, 4, 6]])), columns=list('abc'))", "frame:abc"),
    ("pd.DataFrame({'a': [1, 2, 9], 'b': [3, 4, 9], 'c': [5, 6, 9]}).iloc[:2]", "frame:abc"),
    ("pd.DataFrame({'c': [5, 6], 'b': [3, 4], 'a': [1, 2]})[['a', 'b', 'c']]", "frame:abc"),
    ("pd.DataFrame({'a': [1, 2], 'b': [3, 4], 'c': [5, 6]}).T.T", "frame:abc"),
    ("pd.DataFrame({'a': [1, 2], 'b': [3, 4], 'c': [5, 7]})", "frame:abc7"), ("pd.DataFrame({'a': [1, 2], 'c': [3, 4], 'b': [5, 6]})", "frame:acb"),
    ("pd.DataFrame({'a': [1, 2], 'b': [3, 4], 'c': [5., 6.]})", "frame:abc-f"), ("_df_mixed_setitem()", "frame:abc-f"),
    ("pd.DataFrame({'a': [1, 2], 'b': [3, 4], 'c': [5, 6]}, index=[1, 2])", "frame:abc-i12"),
    ("pd.DataFrame({'a': [1, 2], 'x': ['u', 'v'], 'b': [3, 4]})", "frame:axb"), ("_df_axb_setitem()", "frame:axb"),
    ("pd.Series([1, 2, 3])", "ser:123"), ("pd.Series(np.array([1, 2, 3]))", "ser:123"), ("pd.Series([1, 2, 3, 4]).iloc[:3]", "ser:123"),
    ("pd.Series([3, 2, 1]).iloc[::-1].reset_index(drop=True)", "ser:123"), ("pd.DataFrame({'a': [1, 2, 3], 'b': [4, 5, 6]})['a'].rename(None)", "ser:123"),
    ("pd.Series([1, 2, 3], name='a')", "ser:123-a"), ("pd.DataFrame({'a': [1, 2, 3], 'b': [4, 5, 6]})['a']", "ser:123-a"),
    ("pd.DataFrame(np.array([[1, 4], [2, 5], [3, 6]]), columns=['a', 'b'])['a']", "ser:123-a"),
    ("pd.Series([1, 2, 3], index=[0, 1, 2])", "ser:123-i"), ("pd.Series([1., 2., 3.])", "ser:123f"),
    ("pd.Series(['a', 'b'], dtype=object)", "ser:ab-o"), ("pd.Series(['a', 'b', 'c'], dtype=object).iloc[:2]", "ser:ab-o"),
    ("pd.Series(['a', 'b'])", "ser:ab-str"), ("pd.Series(['a', 'b', 'c']).iloc[:2]", "ser:ab-str"), ("pd.Series(['a', 'c'])", "ser:ac-str"),
    ("pd.Index(['a', 'b'])", "idx:ab-str"), ("pd.Index(['b', 'a'])[::-1]", "idx:ab-str"),
    ("pd.Index([1, 2, 3])", "idx:123"), ("pd.Index(np.array([3, 2, 1]))[::-1]", "idx:123"), ("pd.Index([1, 2, 3, 4])[:3]", "idx:123"),
    ("pd.Index([0, 1, 2])", "idx:012"), ("pd.RangeIndex(3)", "ridx:0,3,1"), ("pd.RangeIndex(0, 3, 1)", "ridx:0,3,1"),
    ("pd.Index(['a', 'b'], dtype=object)", "idx:ab-o"), ("pd.Index(['b', 'a'], dtype=object)[::-1]", "idx:ab-o"),
    ("pd.MultiIndex.from_tuples([(1, 'a'), (2, 'b')])", "mi:1a2b"), ("pd.MultiIndex.from_arrays([[1, 2], ['a', 'b']])", "mi:1a2b"),
    ("pd.MultiIndex.from_tuples([(1, 'a'), (2, 'b'), (3, 'c')])[:2]", "mi:1a2b-unused-level"),
    ("pd.MultiIndex.from_tuples([(1, 'a'), (2, 'a')])", "mi:1a2a"),
    ("pd.Categorical(['a', 'b', 'a'])", "cat:aba"), ("pd.Categorical(['a', 'b', 'a', 'b'])[:3]", "cat:aba"),
    ("pd.Categorical.from_codes([0, 1, 0], ['a', 'b'])", "cat:aba"), ("pd.Categorical(['a', 'b', 'b'])", "cat:abb"),
]


def _padded_rec(fill, bs, nested=False):
    """an aligned record array over a buffer pre-filled with `fill`: field a = 0, field b = bs (padding keeps `fill`)"""
    import numpy as np
    dt = np.dtype([("a", "u1"), ("b", "i4")], align=True)
    if nested:
        dt = np.dtype([("p", dt), ("q", "f8", (2,))])
    x = np.full(len(bs) * dt.itemsize, fill, dtype="u1").view(dt).copy()
    if nested:
        x["p"]["a"] = 0
        x["p"]["b"] = bs
        x["q"] = 0
    else:
        x["a"] = 0
        x["b"] = bs
    return x


def _df_setitem():
    import pandas as pd
    df = pd.DataFrame({"a": [1, 2], "b": [3, 4]})
    df["c"] = [5, 6]
    return df


def _df_mixed_setitem():
    import pandas as pd
    df = pd.DataFrame({"a": [1, 2]})
    df["b"] = [3, 4]
    df["c"] = [5.0, 6.0]
    return df


def _df_axb_setitem():
    import pandas as pd
    df = pd.DataFrame({"a": [1, 2], "b": [3, 4]})
    df.insert(1, "x", ["u", "v"])
    return df
_CATKEY = dict(CATALOG)


def _rec_list(k):
    x = [k]
    x.append(x)
    return x


def _rec_dict(k):
    d = {"k": k}
    d["self"] = d
    return d


def _rec_tuple_list(k):
    x = [k]
    t = (x, k)
    x.append(t)
    return t


def _cat_value(src):
    import collections
    import functools
    import operator
    import types
    import uuid
    import numpy as np
    import pandas as pd
    import dask
    import tlz as toolz
    ns = dict(np=np, pd=pd, dask=dask, toolz=toolz, operator=operator, functools=functools, collections=collections,
              types=types, uuid=uuid, _rec_list=_rec_list, _rec_dict=_rec_dict, _rec_tuple_list=_rec_tuple_list,
              _df_setitem=_df_setitem, _df_mixed_setitem=_df_mixed_setitem, _df_axb_setitem=_df_axb_setitem, _padded_rec=_padded_rec)
    return eval(src, ns)


def case_cat(ctx, inp):
    """oracle only: a pair of catalogue entries (built afresh): equal keys <=> equal tokens; stable under copy / pickle"""
    sa, sb = inp["a"], inp["b"]
    a, b = _cat_value(sa), _cat_value(sb)
    ta, tb = _tokenize(a), _tokenize(b)
    same = _CATKEY[sa] == _CATKEY[sb]
    fam = _CATKEY[sa].split(":")[0]
    ctx.branch(("equal:" if same else "differ:") + "cat-" + fam)
    if same and ta != tb:
        ctx.fail("equal values get different tokens", sig=f"nondet:catalog:{fam}", observed=[sa, sb, ta, tb])
    if not same and ta == tb:
        ctx.fail("observably different values get the same token (collision)", sig=f"collision:catalog:{fam}", observed=[sa, sb, ta])
    if _tokenize(a) != ta:
        ctx.fail("token changes when asked again", sig=f"nondet-again:catalog:{fam}", observed=sa)
    if not fam.startswith(("rec", "bm")):
        for name, mk in (("deepcopy", copy.deepcopy), ("pickle", lambda v: pickle.loads(pickle.dumps(v)))):
            try:
                w = mk(a)
            except Exception:
                ctx.note("cat-copy-failed")
                continue
            if _tokenize(w) != ta:
                ctx.fail(f"token changes after {name}", sig=f"nondet-{name}:catalog:{fam}", observed=sa)


def case_rec(ctx, inp):
    """recursive containers: the `__seen` bookkeeping; exact pre-image, determinism under deepcopy / pickle / rebuild"""
    import hashlib
    specs = inp["vals"]
    try:
        vals = [U.build_rec(s) for s in specs]
    except ValueError:
        return
    try:
        real = _tokenize(*vals)
    except RecursionError:
        ctx.fail("tokenize of a recursive container does not terminate (RecursionError)", sig=None, observed="RecursionError")
        return
    table = U.Table()
    pre = ctx.lean(Sym("tokprerec"), *[U.enc_rec(s, table) for s in specs])
    pre = U.resolve(str(pre), table)
    if hashlib.md5(pre.encode(), usedforsecurity=False).hexdigest() != real:
        from dask.tokenize import _normalize_seq_func
        try:
            impl = str(_normalize_seq_func(tuple(vals)))
        except RecursionError:
            impl = "RecursionError"
        ctx.disagree("tokenize pre-image of recursive values", pre, impl)
    again = [U.build_rec(s) for s in specs]
    if _tokenize(*again) != real:
        ctx.fail("recursive structure built twice gets different tokens", sig="nondet-rec-rebuilt", observed=real)
    for name, mk in (("deepcopy", copy.deepcopy), ("pickle", lambda v: pickle.loads(pickle.dumps(v)))):
        if _tokenize(*mk(vals)) != real:
            ctx.fail(f"token of a recursive structure changes after {name}", sig="nondet-rec-" + name, observed=real)
    if any(U.has_back(s) for s in specs):
        ctx.branch("rec-with-back-reference")
        if any(s[0] == "rdict" or (s[0] != "v" and "rdict" in json.dumps(s)) for s in specs):
            ctx.branch("rec-through-dict")
    else:
        ctx.branch("rec-plain")
    if "other" in inp:
        try:
            ov = [U.build_rec(s) for s in inp["other"]]
        except ValueError:
            return
        if inp["other"] != specs and _tokenize(*ov) == real:
            ctx.fail("structurally different recursive containers get the same token", sig="collision-rec",
                     observed=real, expected="different tokens")
        ctx.branch("rec-pair")


def case_opq(ctx, inp):
    sa, sb = inp["a"], inp["b"]
    a, b = _build_opq(sa), _build_opq(sb)
    ta, tb = _tokenize(a), _tokenize(b)
    same = _opq_eq(sa, sb, a, b)
    ctx.branch(("equal:" if same else "differ:") + sa[0] + ("" if sa[0] == sb[0] else "/" + sb[0]))
    sig = f"{sa[0]}|{sb[0]}:{inp.get('label', '')}"
    if same and ta != tb:
        ctx.fail("equal values get different tokens", sig="nondet:" + sig, observed=[ta, tb])
    if not same and ta == tb:
        ctx.fail("observably different values get the same token (collision)", sig="collision:" + sig, observed=ta)
    # determinism under copy / pickle
    for name, mk in (("deepcopy", copy.deepcopy), ("pickle", lambda v: pickle.loads(pickle.dumps(v)))):
        if sa[0] in ("lambda", "memmap") or (sa[0] == "dc"):
            break
        try:
            w = mk(a)
        except Exception:
            ctx.note("opq-copy-failed")
            continue
        if _tokenize(w) != ta:
            ctx.fail(f"token changes after {name}", sig=f"nondet-{name}:{sa[0]}", observed=[ta, _tokenize(w)])


# ----------------------------------------------------------------------------------------------
# pandas objects: exact pre-image (Model/NormalFormPandas.lean)
# ----------------------------------------------------------------------------------------------

def _enc_pvals(arr, table):
    import numpy as np
    if type(arr) is np.ndarray:
        return [Sym("np"), U.enc(arr, table)]
    if type(arr).__name__ in ("NumpyExtensionArray", "StringArray"):
        return [Sym("ea"), U.enc(np.asarray(arr), table), arr.dtype.name]
    raise U.Unsupported(f"values of class {type(arr).__name__}")


def _enc_pidx(ind, table):
    import pandas as pd
    if type(ind) is pd.RangeIndex:
        return [Sym("prange"), repr(type(ind)), int(ind.start), int(ind.stop), int(ind.step), repr(ind.dtype), U.enc(ind.name, table)]
    if type(ind) is pd.Index:
        return [Sym("pplain"), repr(type(ind)), U.enc(ind.name, table), _enc_pvals(ind.array, table)]
    raise U.Unsupported(f"index of class {type(ind).__name__}")


def enc_pandas(o, table):
    import pandas as pd
    if isinstance(o, pd.Index):
        return [Sym("pindex"), _enc_pidx(o, table)]
    if type(o) is pd.Series:
        return [Sym("pseries"), U.enc(o.name, table), repr(o.dtype), _enc_pvals(o._values, table), _enc_pidx(o.index, table)]
    if type(o) is pd.DataFrame:
        return [Sym("pframe"), [_enc_pvals(o.iloc[:, i]._values, table) for i in range(o.shape[1])],
                _enc_pidx(o.columns, table), _enc_pidx(o.index, table)]
    if type(o) is pd.Categorical:
        return [Sym("pcat"), U.enc(o.codes, table), _enc_pidx(o.dtype.categories, table), bool(o.dtype.ordered)]
    raise U.Unsupported(f"{type(o).__name__}")


def case_ppre(ctx, inp):
    """function level: md5(model pre-image) == tokenize(obj) for NumPy-backed pandas objects"""
    o = _cat_value(inp["src"]) if "src" in inp else _build_opq(inp["spec"])
    table = U.Table()
    try:
        e = enc_pandas(o, table)
    except U.Unsupported:
        ctx.note("ppre-unsupported")
        return
    pre = ctx.lean(Sym("ptokpre"), e)
    if not isinstance(pre, str) or isinstance(pre, Sym):
        ctx.disagree("model answered", repr(pre), None)
        return
    model = hashlib.md5(U.resolve(pre, table).encode(), usedforsecurity=False).hexdigest()
    ctx.eq("tokenize(pandas object)", model, _tokenize(o))
    ctx.branch("ppre-" + type(o).__name__)
    vals = o._values if hasattr(o, "_values") and not hasattr(o, "columns") else None
    if vals is not None and type(vals).__name__ in ("NumpyExtensionArray", "StringArray"):
        ctx.branch("ppre-extension-array-values")


# ----------------------------------------------------------------------------------------------
# extended pandas universe (Model/NormalFormPandasX.lean, harness/props/_token_pandasx.py)
# ----------------------------------------------------------------------------------------------

def _px_classes(ctx, o, pref="ppx-"):
    """measure the generator: which normalisers a case reaches"""
    import numpy as np
    import pandas as pd

    def vals(a):
        n = type(a).__name__
        if n in ("IntegerArray", "FloatingArray", "BooleanArray"):
            ctx.branch(pref + "masked")
            if a._mask.any():
                ctx.branch(pref + "masked-with-NA")
        elif n == "Categorical":
            ctx.branch(pref + "categorical")
            idx(a.categories)
        elif n == "IntervalArray":
            ctx.branch(pref + "interval")
        elif n == "DatetimeArray":
            ctx.branch(pref + ("datetime-tz" if a.tz is not None else "datetime-naive"))
        elif n in ("PeriodArray", "TimedeltaArray"):
            ctx.branch(pref + n)

    def idx(i):
        if type(i) is pd.MultiIndex:
            ctx.branch(pref + "MultiIndex")
            for l in i.levels:
                idx(l)
        elif type(i) is not pd.RangeIndex:
            vals(i.array)
    if isinstance(o, pd.Index):
        idx(o)
    elif type(o) is pd.Series:
        vals(o._values), idx(o.index)
    elif type(o) is pd.DataFrame:
        [vals(o.iloc[:, j]._values) for j in range(o.shape[1])], idx(o.columns), idx(o.index)
    elif isinstance(o, (pd.api.extensions.ExtensionArray, np.ndarray)):
        vals(o)
    else:
        ctx.branch(pref + "scalar-" + type(o).__name__)


def case_ppx(ctx, inp):
    """function level: md5(model pre-image) == tokenize(obj) for the extended pandas universe; the class of a scalar as
    told by its repr == its real class; determinism under copy / deepcopy / pickle"""
    o = PX.build(inp["spec"])
    real = _tokenize(o)
    table = U.Table()
    try:
        e = PX.enc_obj(o, table)
    except U.Unsupported:
        ctx.note("ppx-unsupported")
        e = None
    if e is not None:
        pre = ctx.lean(Sym("xtokpre"), e)
        if not isinstance(pre, str) or isinstance(pre, Sym):
            ctx.disagree("model answered", repr(pre), None)
            return
        model = hashlib.md5(U.resolve(pre, table).encode(), usedforsecurity=False).hexdigest()
        if model != real:
            from dask.tokenize import _normalize_seq_func
            ctx.disagree("tokenize(pandas object, extended universe): pre-image", U.resolve(pre, table), str(_normalize_seq_func((o,))))
        if e[0] == Sym("pscalar"):
            ctx.eq("class of a pandas scalar told by its repr", ctx.lean(Sym("scls"), repr(o)), type(o).__name__)
        _px_classes(ctx, o)
        ctx.branch("ppx-" + type(o).__name__)
    for name, mk in (("again", lambda v: v), ("rebuilt", lambda v: PX.build(inp["spec"])), ("deepcopy", copy.deepcopy),
                     ("pickle", lambda v: pickle.loads(pickle.dumps(v)))):
        w = mk(o)
        if PX.obs(w) != PX.obs(o):
            ctx.note("ppx-roundtrip-not-equal-" + name)
            continue
        if _tokenize(w) != real:
            ctx.fail(f"token of a pandas object changes after {name}", sig=f"nondet-{name}:px:{inp['spec'][0]}", observed=[real, _tokenize(w)])


_PX_WRAPPERS = ("series", "series-index", "frame-index", "frame-column", "index", "multi-level")


def _px_sig(a, b, label):
    """class of the pair, computed from the two objects where a known class of collision is concerned (so that another
    collision is reported under another signature), otherwise from the generator's label without its wrappers"""
    import pandas as pd
    oa, ob = PX.obs(a), PX.obs(b)
    for cls in (pd.Timestamp, pd.Timedelta):
        if isinstance(a, cls) and isinstance(b, cls) and a == b and repr(a) == repr(b) and oa[2] != ob[2] \
                and [x for i, x in enumerate(oa) if i not in (1, 2)] == [x for i, x in enumerate(ob) if i not in (1, 2)]:
            return "scalar-unit:" + cls.__name__

    def blank(o):
        if isinstance(o, list):
            if o and o[0] == "DatetimeArray" and len(o) == 4:
                return o[:3]
            return [blank(x) for x in o]
        return o
    if oa != ob and blank(oa) == blank(ob):
        return "tz-same-name-other-offset"
    parts = label.replace("same:", "").split(":")
    while len(parts) > 1 and parts[0] in _PX_WRAPPERS:
        parts = parts[1:]
    return ":".join(parts)


def case_pxpair(ctx, inp):
    """property oracle on near misses of the extended pandas universe: same token <=> observably equal (names, dtypes,
    NA positions, categories / levels in their order, codes, tz, unit, closedness — read through the public interface)"""
    a, b = PX.build(inp["a"]), PX.build(inp["b"])
    ta, tb = _tokenize(a), _tokenize(b)
    same = PX.obs(a) == PX.obs(b)
    label = inp.get("label", "?")
    short = label.replace("same:", "").split(":")
    ctx.branch(("equal:" if same else "differ:") + "px-" + short[-1 if short[0].startswith(("series", "frame", "index", "multi-level")) else 0])
    if label.startswith("same:") and not same:
        ctx.note("pxpair-same-label-but-observably-different")
    sig = "px:" + _px_sig(a, b, label)
    if same and ta != tb:
        ctx.fail("observably equal pandas objects get different tokens", sig="nondet:" + sig, observed=[ta, tb], expected="equal tokens")
    if not same and ta == tb:
        ctx.fail("observably different pandas objects get the same token (collision)", sig="collision:" + sig, observed=ta,
                 expected="different tokens")
    # the model agrees on the pattern (it is compared bit for bit in `ppx`; here: through its own pre-images)
    try:
        t1, t2 = U.Table(), U.Table()
        pa = U.resolve(ctx.lean(Sym("xtokpre"), PX.enc_obj(a, t1)), t1)
        pb = U.resolve(ctx.lean(Sym("xtokpre"), PX.enc_obj(b, t2)), t2)
        ctx.eq("token equality pattern (model vs tokenize), extended pandas universe", pa == pb, ta == tb)
    except U.Unsupported:
        ctx.note("pxpair-unsupported")


class _Scripted:
    """an object whose pickle is scripted: the i-th call of __reduce__ gives the i-th entry (None: raise)"""

    def __init__(self, script):
        self.script = list(script)
        self.calls = 0

    def __reduce__(self):
        i = self.calls
        self.calls += 1
        v = self.script[min(i, len(self.script) - 1)]
        if v is None:
            raise RuntimeError("this pass does not pickle")
        return (_scripted_value, (v,))


def _scripted_value(v):
    return ("scripted", v)


def case_pickle(ctx, inp):
    """_normalize_pickle on an object whose successive pickles are scripted: which digest becomes the token, and whether
    non-determinism is reported, vs Model/PickleLoop.lean"""
    from dask.hashing import hash_buffer_hex
    from dask.tokenize import TokenizationError, tokenize
    attempts = inp["attempts"]
    script = []
    for a in attempts:
        script += [None, None] if a is None else [a]      # a failing pass asks twice (pickle, then cloudpickle)
    m = ctx.lean(Sym("pickleloop"), attempts)
    kind = str(m[0])
    try:
        strict = ["token", tokenize(_Scripted(script), ensure_deterministic=True)]
    except TokenizationError:
        strict = ["raised"]
    import dask
    with dask.config.set({"tokenize.ensure-deterministic": False}):
        lax = [tokenize(_Scripted(script)), tokenize(_Scripted(script))]
    if kind == "digest":
        pik = hash_buffer_hex(pickle.dumps(_Scripted([m[1]]), protocol=5))
        want = hashlib.md5(str(((pik, []),)).encode(), usedforsecurity=False).hexdigest()
        ctx.eq("token without ensure_deterministic", [want, want], lax)
        ctx.eq("tokenize(..., ensure_deterministic=True)", ["raised"] if m[2] else ["token", want], strict)
        ctx.branch("pickle-flagged" if m[2] else "pickle-digest")
    else:
        ctx.eq("tokenize(..., ensure_deterministic=True)", ["raised"], strict)
        if lax[0] == lax[1]:
            ctx.disagree("an object that cannot be pickled gets a random token", "two different tokens", lax)
        ctx.branch("pickle-random")


def case_registry(ctx, inp):
    """the extracted dispatch table (Generated/TokenRegistry.lean) vs the table the running interpreter holds: every
    normaliser dask/tokenize.py registered at run time is in the extracted list under the same function name, and
    every extracted registration (for the importable modules) is really installed"""
    import re
    import numpy as np
    import pandas as pd
    import types as _types
    from collections import OrderedDict
    from functools import partial
    from tlz import curry
    from tlz.functoolz import Compose
    import dask.tokenize as T
    from dask.core import literal
    T.tokenize(np.zeros(1)), T.tokenize(pd.Series([1]))      # run the lazy registrations
    gen = os.path.join(os.path.dirname(os.path.dirname(os.path.dirname(os.path.abspath(__file__)))),
                       "lean", "DaskModel", "Generated", "TokenRegistry.lean")
    with open(gen) as f:
        src = f.read()
    entries = re.findall(r'\("((?:[^"\\]|\\.)*)", "((?:[^"\\]|\\.)*)", "((?:[^"\\]|\\.)*)"\)', src)
    ns = dict(np=np, pd=pd, types=_types, OrderedDict=OrderedDict, partial=partial, curry=curry, Compose=Compose,
              literal=literal, _IDENTITY_DISPATCH=T._IDENTITY_DISPATCH, object=object)
    expected = {}
    for expr, fn, lazy in entries:
        if lazy in ("numba", "pyarrow"):
            continue
        classes = eval(expr, ns)
        for c in (classes if isinstance(classes, tuple) else (classes,)):
            expected[c] = fn
    lookup = dict(T.normalize_token._lookup)
    for c, fn in expected.items():
        got = lookup.get(c)
        if got is None or getattr(got, "__name__", "") != fn:
            ctx.disagree("registered normaliser of " + repr(c), fn, getattr(got, "__name__", repr(got)))
    for c, got in lookup.items():
        if c in expected or getattr(got, "__module__", "") != "dask.tokenize":
            continue
        # `Dispatch` caches the result of an MRO walk under the subclass: it must be what the extracted table gives
        base = next((k for k in c.__mro__ if k in expected), None)
        if base is None or expected[base] != got.__name__:
            ctx.disagree("a normaliser of dask/tokenize.py the extractor does not account for", None if base is None else expected[base],
                         [repr(c), got.__name__])
    ctx.note("registry-classes", len(expected))
    ctx.branch("registry")


CASES = {"ppx": case_ppx, "pxpair": case_pxpair, "pickle": case_pickle, "registry": case_registry, "ppre": case_ppre, "pre": case_pre, "pair": case_pair, "trip": case_trip, "fresh": case_fresh, "opq": case_opq, "cat": case_cat, "rec": case_rec}


# ----------------------------------------------------------------------------------------------
# generators
# ----------------------------------------------------------------------------------------------

EXPLICIT_PAIRS = [
    # DESIGN.md 6 #4, #5 and the determinism defects found while building (all repaired by fix: commits)
    (["nd", "<i8", [0, 1, 2, 3, 4, 5], [["reshape", [2, 3]]]], ["nd", "<i8", [0, 1, 2, 3, 4, 5], [["reshape", [3, 2]], ["T"]]], "nd-memory-alias"),
    (["obj", [2], ["a-b", "c"]], ["obj", [2], ["a", "b-c"]], "obj-resplit"),
    (["dict", [[["int", 1], ["str", "x"]], [["str", "1"], ["str", "y"]]]], ["dict", [[["str", "1"], ["str", "y"]], [["int", 1], ["str", "x"]]]], "same:dict-reorder"),
    (["set", [["int", 1], ["str", "1"]]], ["set", [["str", "1"], ["int", 1]]], "same:set-reorder"),
    (["nd", "<i8", list(range(12)), [["reshape", [3, 4]], ["slice", [[None, None, None], [None, None, 2]]], ["T"]]],
     ["nd", "<i8", list(range(12)), [["reshape", [3, 4]], ["slice", [[None, None, None], [None, None, 2]]], ["T"], ["copy", "C"]]], "same:nd-copy"),
    (["list", [["str", "a', 'b"]]], ["list", [["str", "a"], ["str", "b"]]], "unquote-split"),
    (["tuple", [["str", "list"], ["tuple", [["int", 1]]]]], ["list", [["int", 1]]], "spoof-tag"),
    (["int", 1], ["bool", True], "int->bool"), (["int", 1], ["float", "1.0"], "int->float"),
    (["float", "0.0"], ["float", "-0.0"], "negate"), (["float", "nan"], ["float", "nan"], "same:nan"),
    (["bytes", [97]], ["str", "b'a'"], "bytes->repr"),
    (["nd", "<i8", [5], [["reshape", []]]], ["tuple", [["int", 5], ["str", "<i8"]]], "0d-vs-tuple"),
    (["nd", "<i8", [0, 1, 2], [["reshape", [3]]]], ["nd", "<f8", [0, 1, 2], [["reshape", [3]]]], "nd-dtype"),
    (["nd", "<i8", [], [["reshape", [0, 3]]]], ["nd", "<i8", [], [["reshape", [3, 0]]]], "nd-empty-shape"),
]


EXPLICIT_REC = [
    {"vals": [["rlist", [["v", ["int", 1]], ["back", 0]]]], "other": [["rlist", [["v", ["int", 1]], ["rlist", [["v", ["int", 1]], ["back", 1]]]]]]},
    {"vals": [["rdict", [[["str", "k"], ["v", ["int", 1]]], [["str", "self"], ["back", 0]]]]]},
    {"vals": [["rtuple", [["rlist", [["v", ["int", 1]], ["back", 0]]], ["v", ["int", 2]]]]]},
    {"vals": [["rlist", [["rdict", [[["int", 1], ["back", 1]], [["str", "1"], ["back", 0]]]], ["rtuple", [["back", 1]]]]]],
     "other": [["rlist", [["rdict", [[["int", 1], ["back", 0]], [["str", "1"], ["back", 1]]]], ["rtuple", [["back", 1]]]]]]},
    {"vals": [["rlist", [["back", 0]]], ["rlist", [["back", 0]]]]},
]


def _pair_stream(ctx, n):
    rng = ctx.rng
    for _ in range(n):
        a = U.gen_value(rng)
        r = rng.random()
        if r < 0.7:
            b, label = U.mutate(rng, a)
        elif r < 0.8:
            b, label = a, "same:identity"
        else:
            b, label = U.gen_value(rng), "independent"
        yield "pair", {"a": a, "b": b, "label": label}


def _opq_specs(rng):
    """A pair of oracle-only specs (mostly near misses)."""
    vals = [rng.randint(0, 3) for _ in range(rng.randint(1, 4))]
    n = len(vals)
    idx = list(range(n))
    k = rng.randrange(9)
    if k == 0:
        a = ["series", vals, rng.choice(["s", None]), rng.choice(["int64", "float64"]), idx]
        b = list(a)
        c = rng.randrange(5)
        if c == 0:
            b[2] = "other"
        elif c == 1:
            b[3] = "int32"
        elif c == 2:
            b[4] = [i + 1 for i in idx]
        elif c == 3:
            b[1] = vals[::-1]
        return a, b, f"series-{c}"
    if k == 1:
        a = ["index", vals, rng.choice(["i", None]), rng.choice(["int64", "float64", "object"])]
        b = list(a)
        c = rng.randrange(4)
        if c == 0:
            b[2] = "j"
        elif c == 1:
            b[3] = "int32" if a[3] != "object" else "int64"
        elif c == 2:
            b[1] = vals + [9]
        return a, b, f"index-{c}"
    if k == 2:
        a = ["range", 0, n, 1, None]
        b = rng.choice([["range", 0, n, 1, "r"], ["range", 0, n + 1, 1, None], ["range", 0, 2 * n, 2, None], ["index", list(range(n)), None, "int64"], list(a)])
        return a, b, "range"
    if k == 3:
        tu = [[rng.choice("ab"), rng.randint(0, 2)] for _ in range(n)]
        a = ["multi", tu, ["x", "y"]]
        b = rng.choice([["multi", tu, ["x", "z"]], ["multi", tu[::-1], ["x", "y"]], ["multi", [[t[0], t[1] + 1] for t in tu], ["x", "y"]], list(a)])
        return a, b, "multi"
    if k == 4:
        cats = ["a", "b", "c"]
        cv = [rng.choice(cats) for _ in range(n)]
        a = ["cat", cv, cats, False]
        b = rng.choice([["cat", cv, cats, True], ["cat", cv, cats[::-1], False], ["cat", cv, cats + ["d"], False], ["cat", cv[::-1], cats, False], list(a)])
        return a, b, "cat"
    if k == 5:
        a = ["frame", [["p", vals, "int64"], ["q", [v * 2 for v in vals], "float64"]], idx]
        c = rng.randrange(6)
        b = json.loads(json.dumps(a))
        if c == 0:
            b[1][0][0] = "r"
        elif c == 1:
            b[1] = b[1][::-1]
        elif c == 2:
            b[1][1][2] = "int64"
        elif c == 3:
            b[2] = [i + 10 for i in idx]
        elif c == 4:
            b[1][0][1] = [v + 1 for v in vals]
        return a, b, f"frame-{c}"
    if k == 6:
        f = [["p", ["int", vals[0]]], ["q", U.gen_value(rng, 2, arrays=False)]]
        a = ["dc", "DC1", f, False]
        b = rng.choice([["dc", "DC2", f, False], ["dc", "DC1", [f[0], ["q", U.mutate(rng, f[1][1])[0]]], False],
                        ["dc", "DC1", f, True], ["dc", "DC1", [["q", f[0][1]], ["p", f[1][1]]], False], list(a)])
        return a, b, "dataclass"
    if k == 7:
        a = ["partial", rng.choice(["add", "mul"]), [["int", vals[0]]], [["y", ["int", 1]]]]
        b = rng.choice([["partial", "add" if a[1] == "mul" else "mul", a[2], a[3]], ["partial", a[1], [["int", vals[0] + 1]], a[3]],
                        ["partial", a[1], a[2], [["y", ["int", 2]]]], ["partial", a[1], a[2] + a[2], a[3]], ["func", a[1]], list(a)])
        return a, b, "partial"
    a = rng.choice([["func", "add"], ["func", "len"], ["lambda", 1]])
    b = rng.choice([["func", "mul"], ["func", "sum"], ["lambda", 2], ["lambda", 1], ["func", "add"]])
    return a, b, "callable"


MEMMAP_PAIRS = [
    (["memmap", list(range(16)), "|u1", [16], 0], ["memmap", list(range(16)), "<i8", [2], 0], "memmap-dtype"),
    (["memmap", list(range(16)), "|u1", [16], 0], ["memmap", list(range(16)), "|u1", [4, 4], 0], "memmap-shape"),
    (["memmap", list(range(16)), "|u1", [8], 0], ["memmap", list(range(16)), "|u1", [8], 8], "memmap-offset"),
    (["memmap", list(range(16)), "|u1", [8], 0], ["memmap", list(range(16)), "|u1", [8], 0], "memmap-same"),
]


def generate(ctx):
    rng = ctx.rng
    for a, b, label in EXPLICIT_PAIRS:
        yield "pair", {"a": a, "b": b, "label": label}
        yield "pre", {"vals": [a, b]}
        yield "trip", {"v": a}
    # function level: the md5 pre-image
    for _ in range(ctx.n(550, 7000)):
        vals = [U.gen_value(rng) for _ in range(rng.choice([1, 1, 1, 2, 3]))]
        kw = {}
        if rng.random() < 0.15:
            kw = {k: U.gen_value(rng, 1) for k in rng.sample(["a", "b", "z", "A", "_x", "ab"], rng.randint(1, 3))}
        yield "pre", {"vals": vals, "kw": kw}
    yield from _pair_stream(ctx, ctx.n(700, 9000))
    for _ in range(ctx.n(150, 1500)):
        yield "trip", {"v": U.gen_value(rng)}
    for a, b, label in MEMMAP_PAIRS:
        yield "opq", {"a": a, "b": b, "label": label}
    for _ in range(ctx.n(150, 1500)):
        a, b, label = _opq_specs(rng)
        yield "opq", {"a": a, "b": b, "label": label}
    # recursive containers
    for e in EXPLICIT_REC:
        yield "rec", e
    for _ in range(ctx.n(150, 1500)):
        a = U.gen_rec(rng)
        e = {"vals": [a]}
        if rng.random() < 0.5:
            e["other"] = [U.gen_rec(rng)]
        yield "rec", e
    yield "registry", {}
    import itertools
    for att in itertools.product([1, 2, 3, None], repeat=3):       # every script of three passes over three digests
        yield "pickle", {"attempts": list(att)}
    # pandas objects: exact pre-image
    for src, key in CATALOG:
        if key.split(":")[0] in ("frame", "ser", "idx", "ridx", "cat"):
            yield "ppre", {"src": src}
    for _ in range(ctx.n(120, 1500)):
        a_, b_, lab = _opq_specs(rng)
        for sp in (a_, b_):
            if sp[0] in ("series", "index", "range", "cat", "frame"):
                yield "ppre", {"spec": sp}
    # extended pandas universe: exact pre-image + near-miss pairs
    for a_, b_, lab in PX.EXPLICIT:
        yield "pxpair", {"a": a_, "b": b_, "label": lab}
        yield "ppx", {"spec": a_}
        yield "ppx", {"spec": b_}
    for _ in range(ctx.n(220, 2500)):
        yield "ppx", {"spec": PX.gen_obj(rng)}
    for _ in range(ctx.n(260, 3000)):
        a_ = PX.gen_obj(rng)
        r_ = rng.random()
        if r_ < 0.8:
            b_, lab = PX.mutate(rng, a_)
        elif r_ < 0.88:
            b_, lab = a_, "same:identity"
        else:
            b_, lab = PX.gen_obj(rng), "independent"
        yield "pxpair", {"a": a_, "b": b_, "label": lab}
    # catalogue: every entry against itself (built twice) and against the entries of its family; random cross pairs
    srcs = [s for s, _ in CATALOG]
    fams = {}
    for s_, k_ in CATALOG:
        fams.setdefault(k_.split(":")[0], []).append(s_)
    for s_ in srcs:
        yield "cat", {"a": s_, "b": s_}
    for fam, members in fams.items():
        for i in range(len(members)):
            for j in range(i):
                yield "cat", {"a": members[i], "b": members[j]}
    for _ in range(ctx.n(60, 1500)):
        yield "cat", {"a": rng.choice(srcs), "b": rng.choice(srcs)}
    nseeds = 1 if not ctx.thorough() else 4
    batch = [U.gen_value(rng) for _ in range(ctx.n(120, 600))] + [a for a, _, _ in EXPLICIT_PAIRS] + [b for _, b, _ in EXPLICIT_PAIRS]
    yield "fresh", {"vals": batch, "seeds": [rng.randint(1, 10 ** 6) for _ in range(nseeds)]}


def search(ctx):
    yield from generate(ctx)
