"""C38 sweep: run one generator stream of c38.py outside the harness and tabulate the failure signatures.

  python _dfpart_sweep38.py <misc|keys|cum|spec> <seed> [scale] [-v] [-b]     (DASK_REPO=... for a scratch worktree)

Failures without a signature (None), CRASH and DISAGREE lines are printed with their smallest inputs; -v prints inputs for
every signature, -b the branch histogram. The Lean model is not consulted (agg_model needs the driver: use ./check)."""
import sys, random, collections, json, warnings, time
sys.path.insert(0,'/verif/harness')
import core; core.setup_repo_path()
warnings.filterwarnings('ignore')
dd=core.import_dd()
from props import c38
class Ctx:
    def __init__(s, seed): s.rng=random.Random(seed); s.fails=[]; s.tier='quick'; s.br=collections.Counter(); s.scale=float(sys.argv[3]) if len(sys.argv)>3 else 1.0
    def n(s,q,t=None): return max(1,int(q*s.scale))
    def thorough(s): return False
    def branch(s,n): s.br[n]+=1
    def note(s,k,v=1): pass
    def fail(s,what,sig=None,**kw): s.fails.append((sig,what[:300]))
    def eq(s,*a): return True
    def disagree(s,*a): s.fails.append(('DISAGREE',str(a)[:200]))
    def lean(s,*a): raise RuntimeError
which=sys.argv[1]; seed=int(sys.argv[2])
ctx=Ctx(seed)
gen={'misc':c38._gen_misc,'keys':c38._gen_agg_keys,'cum':c38._gen_cumulative,'spec':c38._gen_agg_spec}[which](ctx)
seen=collections.Counter(); ex={}; n=0; t0=time.process_time()
for sec,inp in gen:
    n+=1
    n0=len(ctx.fails)
    try: c38.CASES[sec](ctx,inp)
    except Exception as e:
        import traceback
        ctx.fails.append(('CRASH',traceback.format_exc()[-400:]))
    for sg,w in ctx.fails[n0:]:
        seen[sg]+=1
        L=ex.setdefault(sg,[])
        if len(L)<3 or len(inp['c'])<max(len(x[0]['c']) for x in L):
            L.append((inp,w)); L.sort(key=lambda x:len(x[0]['c'])); del L[3:]
print('cases',n,'cpu',time.process_time()-t0)
for k,v in sorted(seen.items(), key=lambda x:str(x)):
    print(v,k)
    if k is None or k in ('CRASH','DISAGREE') or '-v' in sys.argv:
        for inp,w in ex[k]: print('    ',json.dumps(inp)); print('      ',w)
print({k:v for k,v in sorted(ctx.br.items())} if '-b' in sys.argv else '')
