import sys, random, collections, json
sys.path.insert(0,'/verif/harness')
import core; core.setup_repo_path()
import warnings; warnings.filterwarnings('ignore')
dd=core.import_dd()
from props import c38
class Ctx:
    def __init__(s): s.rng=random.Random(int(sys.argv[2]) if len(sys.argv)>2 else 12345); s.fails=[]; s.tier='quick'
    def n(s,q,t=None): return q
    def thorough(s): return False
    def branch(s,n): pass
    def note(s,k,v=1): pass
    def fail(s,what,sig=None,**kw): s.fails.append((sig,what[:80]))
    def eq(s,*a): return True
    def disagree(s,*a): pass
    def lean(s,*a): raise RuntimeError
ctx=Ctx()
rng=ctx.rng
ops=["nunique","idxmin","idxmax","std","cov","corr","value_counts","cumsum","cumprod","cumcount","transform","shift","ffill","bfill","apply","apply_first","median"]
seen=collections.Counter()
for it in range(int(sys.argv[1])):
    kk=rng.choice(['cat','nakey'])
    inp=c38._rand_frame(rng,kk); inp['op']=rng.choice(ops); c38._rand_cfg(rng,inp)
    if kk=='cat': inp['observed']=False
    else: inp['dropna']=rng.choice([True,None])
    inp['periods']=rng.choice([1,2,-1])
    n0=len(ctx.fails)
    try: c38.case_misc(ctx,inp)
    except Exception as e: ctx.fails.append(('CRASH',repr(e)[:80]))
    for sg,w in ctx.fails[n0:]: seen[(sg,)]+=1
for k,v in sorted(seen.items(), key=lambda x:str(x)): print(v,k)
