"""C37 — DataFrame reductions and aggregations equal pandas.

Model:    lean/DaskModel/Model/TreeReduce.lean (toolz.partition_all, TreeReduce.split_every, the `while` loop of
          TreeReduce._layer, ApplyConcatApply → TreeReduce(Chunk), Reduction chunk/combine/aggregate for
          sum/prod/max/min/count/mean; pandas kernels as specification functions)
Theorems: lean/DaskModel/Props/C37.lean (split_every_irrelevant, split_every_agree, sum/max/count/mean_eq_pandas,
          var_monoid, max_noskip_refuted)
Tie:      function level — the tree SHAPE (batches per level) of the real TreeReduce._layer vs the model, the
          split_every validation; partition level — Series reductions on arbitrary partitionings (empty / all-NaN
          partitions) vs the model and vs pandas; API level — DataFrame/Series reductions (sum … sem, any/all, idxmin/max,
          nunique, value_counts, mode, nlargest/nsmallest, describe, cov/corr, len; both axes; skipna, numeric_only;
          split_every in {2,3,False,None}) vs pandas within rounding tolerance.
Extension round: lean/DaskModel/Model/CoMoment.lean + Props/C37xStats.lean (cov/corr, var/sem, nunique, describe over exact
          rationals), sections `covcorr` / `stats` in harness/props/_c37x.py.
"""
from __future__ import annotations

import math

from sexp import Sym

from props import _dfrows_util as U
from props import _c37x as X

U.warm()

PROP = "C37"
READY = True
DRIVER = "dm_dfrows"
LEAN_MODULES = ["DaskModel.Props.C37", "DaskModel.Props.C37xStats"]
CASE_TIMEOUT_S = 60
LEVEL_TEXT = (
    "Proved in Lean (every partitioning, empty and all-NA partitions included; every split_every: False, None->8, any int >= 2; "
    "termination of the TreeReduce._layer loop inside a proved fuel bound): split_every_irrelevant — chunk/combine/aggregate "
    "that factor through a monoid homomorphism give the reduction of the CONCATENATED column; tree_eq_single_partition — the "
    "tree equals the same chunk/aggregate run on ONE partition holding everything. Instances: sum/prod (skipna both ways), "
    "count, mean as the exact pair (sum, count), max/min for skipna=True AND skipna=False (full since /repo fix 20e3626: an empty "
    "partition contributes no partial result; the former refutation max_noskip_refuted is gone), any/all, Series.idxmax/idxmin "
    "(first-best-row monoid; ValueError exactly when pandas raises), value_counts (count of every key; NaN is a key iff "
    "dropna=False), nlargest/nsmallest (top-n tables under merge), (n, sum, sum of squares) as a homomorphic image (exact "
    "content of var/std/sem). Extension round (Props/C37xStats.lean, exact rationals): split_every_irrelevant_inv (the tree "
    "theorem for merges that are homomorphic on well-formed partial results only); cov_eq_pandas and corr_unnormalised_eq_pandas "
    "/ corr_sq_eq_pandas — _cov_corr_chunk/_combine/_agg per ordered pair of columns, pairwise-complete observations, the "
    "cumulative Chan merge is the sum in the monoid (n, Sx, Sy, Sxy, Sxx, Syy) (cov_corr_combine_exact), NaN exactly where pandas "
    "gives NaN (min_periods, single complete row; corr as the pair (C, m_x*m_y) under the square root, hence corr^2 and its sign); "
    "var_eq_pandas (moment_chunk/combine/agg as Var calls them, skipna=True, any ddof), sem_eq_pandas (sem^2 = var/count), "
    "nunique_eq_pandas (tree path split_out=1, dropna both ways; dedup_value_set), describe_exact_eq_pandas (count, mean pair, "
    "std^2, min, max together). Validated by correspondence only: float rounding, min_count, dtypes, DataFrame idxmin/idxmax, "
    "mode, the default shuffle path of nunique (split_out=True), the percentiles of describe, var/sem with skipna=False, axis=1, "
    "len (incl. len of selected partitions), value_counts ordering/normalize.")
LEVEL_NOTE = ("Trusted: Lean kernel; integer-cell encoding of columns (labels = positions); pandas as reference for the "
              "per-partition kernels (every Lean kernel — sumK/prodK/maxK/minK/countK/anyK/allK/idxK/countKey/topK — is diffed "
              "against pandas every run); floats compared within rtol 1e-9. Known findings (2): DataFrame.idxmax/idxmin with an "
              "all-NA column inside one partition, and with a string column under skipna=False.")
TECHNIQUE = "Lean 4 proof (monoid-homomorphism tree-reduction theorem with termination, 12 instances; invariant version with the exact Chan merges of cov/corr and var over Rat, nunique, describe) + differential correspondence (tree shape, chunk/combine/aggregate functions, partition level, API level)"
ASSUMPTIONS = ["pandas Series.sum/prod/max/min/count/any/all/idxmax/idxmin/value_counts/nlargest/nsmallest on one block = the Lean kernels (validated: reducespec / reduce2spec vs pandas)",
               "idxmaxmin_chunk/_combine/_agg, Max.chunk/Max.combine, M.value_counts/value_counts_combine on real partial results = idxChunk/idxCombine/idxAgg, mmChunk/mmCombine, vcChunk/vcCombine (validated: idxfn / mmfn / vcfn)",
               "float arithmetic is outside the theorems (exact integers / rationals in the model)",
               "_cov_corr_chunk/_combine/_agg, Var.reduction_chunk/_combine/_aggregate, DropDuplicates.chunk/combine/aggregate on real (nested) partial results = pairChunk/pairCombine/covAgg/corrAgg, dfVarChunk/momCombine/momAgg, dedup/flatten (validated: covfn / varfn / statspec dedup; counts and sums exactly, moments within 1e-9)",
               "pandas DataFrame.cov/corr(min_periods), Series.var/sem(ddof)/nunique(dropna)/describe on one block = covK/corrK/varK/semSqK/nuniqueK/describeK (validated: covspec / statspec)"]

HOWS = ["sum", "prod", "max", "min", "count", "mean"]


def _se_py(se):
    return {"none": None, "false": False}.get(se, se)


def _se_sexp(se):
    return Sym(se) if isinstance(se, str) else se


# ------------------------------------------------------------------------------------------------
# tree shape (function level)
# ------------------------------------------------------------------------------------------------

def case_shape(ctx, inp):
    import pandas as pd
    U.dd()
    from dask.dataframe.dask_expr._reductions import TreeReduce
    n, se = inp["n"], inp["se"]
    s = pd.Series(range(max(n, 1)), dtype="float64")
    d = U.from_parts(s, [1] * n if n else [0])
    model = ctx.lean(Sym("treeshape"), n if n else 1, _se_sexp(se))
    try:
        r = d.sum(split_every=_se_py(se))
        low = r.expr.lower_completely()
        trees = [e for e in low.walk() if isinstance(e, TreeReduce)]
        if not trees:
            ctx.disagree("no TreeReduce in the lowered expression", model, "none")
            return
        layer = trees[0]._layer()
        levels = {}
        for key, task in layer.items():
            if len(key) == 3:
                # (combine, batch)  or  (apply, combine, [batch], kwargs)
                batch = task[2][0] if getattr(task[0], "__name__", "") == "apply" else task[1]
                levels.setdefault(key[1], {})[key[2]] = len(batch)
        impl = [Sym("ok")] + [[levels[j][i] for i in sorted(levels[j])] for j in sorted(levels)]
        val = r.compute(scheduler="sync")
        if n and float(val) != float(sum(range(n))):
            ctx.fail("sum over the tree is wrong", observed=float(val), expected=float(sum(range(n))))
    except ValueError as e:
        impl = [Sym("raised")]
        if "split_every" not in str(e):
            ctx.fail("unexpected ValueError", observed=str(e)[:200])
    ctx.eq("TreeReduce._layer batches per level", model, impl)
    if impl[0] == "raised":
        ctx.branch("shape-invalid-split_every")
    elif len(impl) > 2:
        ctx.branch("shape-%d-levels" % (len(impl) - 1))
    elif len(impl) == 2:
        ctx.branch("shape-1-level")
    else:
        ctx.branch("shape-no-tree")


# ------------------------------------------------------------------------------------------------
# Series reductions on arbitrary partitionings
# ------------------------------------------------------------------------------------------------

def _scalar(v):
    return U.cell_of(v)


def case_reduce(ctx, inp):
    cells, lens, how, skipna, se = inp["cells"], inp["lens"], inp["how"], inp["skipna"], inp["se"]
    dtype = inp.get("dtype", "float64")
    s = U.mk_series(cells, dtype)
    parts = U.split(cells, lens)
    kw = {} if how == "count" else {"skipna": skipna}
    expected = getattr(s, how)(**kw)
    if how != "mean":
        spec = ctx.lean(Sym("reducespec"), Sym(how), skipna, U.cells_to_sexp(cells))
        ctx.eq("pandas kernel vs Lean spec (%s)" % how, spec, _scalar(expected))
    model = ctx.lean(Sym("reduce"), Sym(how), skipna, _se_sexp(se), U.parts_to_sexp(parts))
    d = U.from_parts(s, lens, known=inp.get("known", True))
    try:
        got = getattr(d, how)(split_every=_se_py(se), **kw).compute(scheduler="sync")
    except Exception as e:
        ctx.fail(f"Series.{how}(skipna={skipna}, split_every={se}) raised {type(e).__name__}",
                 observed=f"{type(e).__name__}: {e}"[:300], expected=_scalar(expected))
        return
    g = _scalar(got)
    if how in ("max", "min"):
        # function level: Max.chunk / Max.combine on the real partitions (an empty partition contributes NO element)
        from dask.dataframe.dask_expr._reductions import Max, Min
        cls = Max if how == "max" else Min
        b = U.bounds_of(lens)
        partials = []
        for i, p in enumerate(parts):
            pr = cls.chunk(s.iloc[b[i]:b[i + 1]], skipna=skipna)
            partials.append(pr)
            ctx.eq("%s.chunk" % cls.__name__, ctx.lean(Sym("mmfn"), Sym("chunk"), Sym(how), skipna, U.cells_to_sexp(p)),
                   U.series_cells(pr))
        batch = partials[:3]
        comb = cls.combine(batch, skipna=skipna, axis=0)
        ctx.eq("%s.combine" % cls.__name__,
               ctx.lean(Sym("mmfn"), Sym("combine"), Sym(how), skipna, [U.cells_to_sexp(U.series_cells(x)) for x in batch]),
               U.series_cells(comb))
    if how == "mean":
        m = model[1:] if model[0] == "ok" else None
        mval = None if (m is None or m[0] is None or m[1] == 0) else m[0] / m[1]
        ok_model = (mval is None and g is None) or (mval is not None and g is not None and math.isclose(mval, float(g), rel_tol=1e-9, abs_tol=1e-12))
        if not ok_model:
            ctx.disagree("mean: model (sum, count) vs dask", model, g)
        e = _scalar(expected)
        same = (e is None and g is None) or (e is not None and g is not None and math.isclose(float(e), float(g), rel_tol=1e-9, abs_tol=1e-12))
    else:
        ctx.eq("Series.%s over the tree" % how, model, [Sym("ok"), g])
        same = g == _scalar(expected)
    if not same:
        ctx.fail(f"Series.{how}(skipna={skipna}, split_every={se}) differs from pandas", observed=g,
                 expected=_scalar(expected))
    if any(n == 0 for n in lens):
        ctx.branch("reduce-empty-partition")
    if any(p and all(c is None for c in p) for p in parts):
        ctx.branch("reduce-allna-partition")
    k = {"none": 8, "false": 10 ** 9}.get(se, se)
    if len(lens) > k:
        ctx.branch("reduce-tree-combine-level")
        if len(lens) > k * k:
            ctx.branch("reduce-tree-two-combine-levels")
    if not skipna and None in cells:
        ctx.branch("reduce-noskip-nan")


# ------------------------------------------------------------------------------------------------
# reductions with non-scalar partial results: idxmax/idxmin, any/all, value_counts, nlargest/nsmallest
# ------------------------------------------------------------------------------------------------

def _vc_canon(t):
    """value-count table -> sorted list of [key or None, count]"""
    return sorted(([None if (k is None or k == "none") else int(k), int(n)] for k, n in t), key=lambda e: (e[0] is None, e[0] or 0))


def _vc_of_series(vc):
    import math as _m
    out = []
    for k, n in vc.items():
        key = None if (k is None or (isinstance(k, float) and _m.isnan(k))) else int(k)
        out.append([key, int(n)])
    return _vc_canon(out)


def _idx_rows(df):
    """rows of an idxmaxmin partial frame as [[idx, value]…]"""
    return [[int(i), int(v)] for i, v in zip(df["idx"].tolist(), df["value"].tolist())]


def case_reduce2(ctx, inp):
    import numpy as np
    import pandas as pd
    from dask.dataframe import methods
    from dask.dataframe.core import idxmaxmin_agg, idxmaxmin_chunk, idxmaxmin_combine
    how, cells, lens, se = inp["how"], inp["cells"], inp["lens"], inp["se"]
    parts = U.split(cells, lens)
    b = U.bounds_of(lens)
    kpy = {"none": 8, "false": 10 ** 9}.get(se, se)

    def run(f):
        try:
            return ["ok", f()]
        except ValueError as e:
            return ["valueerror", str(e)[:80]]

    if how in ("idxmax", "idxmin"):
        s = U.mk_series(cells, "float64")
        d = U.from_parts(s, lens, known=inp.get("known", True))
        spec = ctx.lean(Sym("reduce2spec"), Sym(how), U.cells_to_sexp(cells))
        exp = run(lambda: int(getattr(s, how)()))
        ctx.eq("pandas %s vs Lean spec" % how, spec, exp[1] if exp[0] == "ok" else Sym("valueerror"))
        model = ctx.lean(Sym("reduce2"), Sym(how), _se_sexp(se), U.parts_to_sexp(parts))
        got = run(lambda: int(getattr(d, how)(split_every=_se_py(se)).compute(scheduler="sync")))
        ctx.eq("Series.%s over the tree" % how, model, [Sym("ok"), got[1]] if got[0] == "ok" else [Sym("valueerror")])
        if got[0] != exp[0] or (got[0] == "ok" and got[1] != exp[1]):
            ctx.fail(f"Series.{how}(split_every={se}) differs from pandas", observed=got, expected=exp)
        # function level: chunk / combine / agg on the real partial frames
        chunks = []
        for i, p in enumerate(parts):
            fr = idxmaxmin_chunk(s.iloc[b[i]:b[i + 1]], fn=how, skipna=True)
            chunks.append(fr)
            ctx.eq("idxmaxmin_chunk", ctx.lean(Sym("idxfn"), Sym("chunk"), Sym(how), b[i], U.cells_to_sexp(p)), _idx_rows(fr))
        batch = chunks[:max(2, min(len(chunks), 4))]
        if batch:
            cat = pd.concat(batch)
            comb = idxmaxmin_combine(cat, fn=how, skipna=True)
            rows = [_idx_rows(c) for c in batch]
            ctx.eq("idxmaxmin_combine", ctx.lean(Sym("idxfn"), Sym("combine"), Sym(how), rows), _idx_rows(comb))
            agg = run(lambda: int(idxmaxmin_agg(cat, fn=how, skipna=True, scalar=True)))
            ctx.eq("idxmaxmin_agg", ctx.lean(Sym("idxfn"), Sym("agg"), Sym(how), rows),
                   agg[1] if agg[0] == "ok" else Sym("valueerror"))
        ctx.branch("reduce2-" + how)
        if exp[0] != "ok":
            ctx.branch("reduce2-idx-valueerror")
        if len(set(c for c in cells if c is not None)) < len([c for c in cells if c is not None]):
            ctx.branch("reduce2-idx-ties")
    elif how in ("any", "all"):
        bools = [bool(c) for c in cells]
        s = pd.Series(bools, dtype="bool", index=range(len(bools)), name="x")
        d = U.from_parts(s, lens, known=inp.get("known", True))
        spec = ctx.lean(Sym("reduce2spec"), Sym(how), bools)
        exp = bool(getattr(s, how)())
        ctx.eq("pandas %s vs Lean spec" % how, spec, exp)
        model = ctx.lean(Sym("reduce2"), Sym(how), _se_sexp(se), [[bool(c) for c in p] for p in parts])
        got = bool(getattr(d, how)(split_every=_se_py(se)).compute(scheduler="sync"))
        ctx.eq("Series.%s over the tree" % how, model, [Sym("ok"), got])
        if got != exp:
            ctx.fail(f"Series.{how}(split_every={se}) differs from pandas", observed=got, expected=exp)
        ctx.branch("reduce2-" + how)
    elif how == "value_counts":
        dropna = inp["dropna"]
        s = U.mk_series(cells, "float64")
        d = U.from_parts(s, lens, known=inp.get("known", True))
        spec = ctx.lean(Sym("reduce2spec"), Sym(how), U.cells_to_sexp(cells), dropna)
        exp = _vc_of_series(s.value_counts(dropna=dropna))
        ctx.eq("pandas value_counts vs Lean spec", _vc_canon(spec), exp)
        model = ctx.lean(Sym("reduce2"), Sym(how), _se_sexp(se), U.parts_to_sexp(parts), dropna)
        got = _vc_of_series(d.value_counts(dropna=dropna, split_every=_se_py(se)).compute(scheduler="sync"))
        ctx.eq("Series.value_counts over the tree", _vc_canon(model[1]) if model[0] == "ok" else model, got)
        if got != exp:
            ctx.fail(f"Series.value_counts(dropna={dropna}, split_every={se}) differs from pandas", observed=got, expected=exp)
        chunks = [s.iloc[b[i]:b[i + 1]].value_counts(dropna=dropna) for i in range(len(lens))]
        for p, c in zip(parts, chunks):
            ctx.eq("M.value_counts (chunk)", _vc_canon(ctx.lean(Sym("vcfn"), Sym("chunk"), dropna, U.cells_to_sexp(p))), _vc_of_series(c))
        batch = [c for c in chunks[:4]]
        if batch:
            comb = methods.value_counts_combine(pd.concat(batch), dropna=dropna)
            rows = [[[Sym("none") if k is None else k, n] for k, n in _vc_of_series(c)] for c in batch]
            ctx.eq("value_counts_combine", _vc_canon(ctx.lean(Sym("vcfn"), Sym("combine"), dropna, rows)), _vc_of_series(comb))
        ctx.branch("reduce2-value_counts")
        if not dropna and None in cells:
            ctx.branch("reduce2-value_counts-nan-key")
    else:  # nlargest / nsmallest
        n = inp["n"]
        vals = [0 if c is None else c for c in cells]
        s = pd.Series(vals, dtype="int64", index=range(len(vals)), name="x")
        d = U.from_parts(s, lens, known=inp.get("known", True))
        spec = ctx.lean(Sym("reduce2spec"), Sym(how), vals, n)
        exp = [int(v) for v in getattr(s, how)(n).tolist()]
        ctx.eq("pandas %s vs Lean spec" % how, spec, exp)
        model = ctx.lean(Sym("reduce2"), Sym(how), _se_sexp(se), U.split(vals, lens), n)
        r = getattr(d, how)(n, split_every=_se_py(se)).compute(scheduler="sync")
        got = [int(v) for v in r.tolist()]
        ctx.eq("Series.%s over the tree" % how, model, [Sym("ok"), got])
        if got != exp:
            ctx.fail(f"Series.{how}({n}, split_every={se}) differs from pandas", observed=got, expected=exp)
        ctx.branch("reduce2-" + how)
        if n < len(vals):
            ctx.branch("reduce2-topk-truncates")
    if any(x == 0 for x in lens):
        ctx.branch("reduce2-empty-partition")
    if len(lens) > kpy:
        ctx.branch("reduce2-tree-combine-level")


# ------------------------------------------------------------------------------------------------
# API level
# ------------------------------------------------------------------------------------------------

def _api_frame(inp):
    import numpy as np
    import pandas as pd
    n = len(inp["a"])
    df = pd.DataFrame({
        "a": pd.Series(inp["a"], dtype="int64"),
        "b": pd.Series([np.nan if v is None else v for v in inp["b"]], dtype="float64"),
        "c": pd.Series([np.nan if v is None else v for v in inp["c"]], dtype="float64"),
        "g": pd.Series(inp["g"], dtype="bool"),
    })
    if inp.get("with_str"):
        df["s"] = pd.Series(inp["s"])
    df.index = pd.Index(inp["index"])
    return df


def _numkind(v):
    import numpy as np
    if isinstance(v, (bool, np.bool_)):
        return "b"
    if isinstance(v, (int, np.integer)):
        return "i"
    if isinstance(v, (float, np.floating)):
        return "f"
    return type(v).__name__


def _close(a, b, tol=1e-9, dtypes=True):
    import numpy as np
    import pandas as pd
    if isinstance(b, pd.DataFrame):
        pd.testing.assert_frame_equal(a, b, check_exact=False, rtol=tol, atol=1e-12, check_dtype=dtypes)
    elif isinstance(b, pd.Series):
        pd.testing.assert_series_equal(a, b, check_exact=False, rtol=tol, atol=1e-12, check_dtype=dtypes)
    else:
        fa, fb = a, b
        if dtypes:
            assert _numkind(fa) == _numkind(fb), ("scalar kind differs", type(fa).__name__, type(fb).__name__)
        if isinstance(fb, (float, np.floating)) and math.isnan(fb):
            assert isinstance(fa, (float, np.floating)) and math.isnan(fa), (fa, fb)
        elif isinstance(fb, (int, float, np.integer, np.floating, bool, np.bool_)):
            assert math.isclose(float(fa), float(fb), rel_tol=tol, abs_tol=1e-12), (fa, fb)
        else:
            assert fa == fb, (fa, fb)


def api_call(obj, inp):
    k, p = inp["kind"], inp["params"]
    se = {} if obj.__class__.__module__.startswith("pandas") else {"split_every": _se_py(inp["se"])}
    col = inp.get("column")
    tgt = obj[col] if col else obj
    if k in ("sum", "prod", "min", "max", "mean", "var", "std", "sem"):
        kw = {"skipna": p["skipna"]}
        if not col:
            kw["numeric_only"] = p.get("numeric_only", True)
            kw["axis"] = p.get("axis", 0)
        if k in ("var", "std", "sem"):
            kw["ddof"] = p.get("ddof", 1)
        if kw.get("axis") == 1:
            se = {}
        return getattr(tgt, k)(**kw, **se)
    if k == "count":
        return tgt.count(**se)
    if k in ("any", "all"):
        t = obj[["g", "a"]] if not col else (obj["g"] if p.get("boolcol") else tgt)
        return getattr(t, k)(**se)
    if k in ("idxmin", "idxmax"):
        return getattr(tgt, k)(skipna=p["skipna"], **se)
    if k == "nunique":
        return obj[col or "a"].nunique(**se)
    if k == "value_counts":
        kw = {}
        if "dropna" in p:
            kw["dropna"] = p["dropna"]
        if p.get("normalize"):
            kw["normalize"] = True
        if "sort" in p:
            kw["sort"] = p["sort"]
        if p.get("split_out") and se:
            se = dict(se, split_out=p["split_out"])
        return obj[col or "a"].value_counts(**kw, **se)
    if k == "mode":
        return obj[col or "a"].mode()
    if k in ("nlargest", "nsmallest"):
        if col:
            return getattr(tgt, k)(p["n"], **se)
        return getattr(obj, k)(p["n"], columns=p["columns"], **se)
    if k == "describe":
        return obj[["a", "b"]].describe() if not col else tgt.describe()
    if k in ("cov", "corr"):
        return getattr(obj[["a", "b", "c"]], k)(**se)
    if k == "len":
        return len(tgt)
    raise KeyError(k)


def _has_allna_column_partition(df, lens):
    b = U.bounds_of(lens)
    for i in range(len(lens)):
        p = df.iloc[b[i]:b[i + 1]]
        if len(p) and bool(p.select_dtypes("number").isna().all().any()):
            return True
    return False


def case_api(ctx, inp):
    import pandas as pd
    df = _api_frame(inp)
    d = U.from_parts(df, inp["lens"], known=inp.get("known", True))
    k, p = inp["kind"], inp["params"]
    try:
        exp = api_call(df, inp)
    except Exception as e:
        ctx.note("pandas_rejected:" + type(e).__name__)
        return
    try:
        r = api_call(d, inp)
        got = r.compute(scheduler="sync") if hasattr(r, "compute") else r
    except Exception as e:
        sig = None
        if (k in ("idxmin", "idxmax") and not inp.get("column") and p["skipna"] and isinstance(e, ValueError)
                and "all NA" in str(e) and _has_allna_column_partition(df, inp["lens"])):
            sig = "api:idxminmax:dataframe:allna-column-partition:ValueError"
        if (k in ("idxmin", "idxmax") and not inp.get("column") and not p["skipna"] and inp.get("with_str")
                and isinstance(e, ValueError) and "NA value with skipna=False" in str(e)):
            sig = "api:idxminmax:dataframe:string-column:skipna=False:ValueError"
        ctx.fail(f"{k}({p}) raised {type(e).__name__}", sig=sig, observed=f"{type(e).__name__}: {e}"[:300])
        return
    try:
        if k == "value_counts":
            # ties are ordered arbitrarily by pandas: compare as (sorted by value) series
            got, exp = got.sort_index(), exp.sort_index()
        if k == "describe":
            keep = ["count", "mean", "std", "min", "max"]
            got, exp = got.loc[keep], exp.loc[keep]
        if k in ("nlargest", "nsmallest") and not isinstance(exp, pd.Series):
            pass
        _close(got, exp, dtypes=False)
    except AssertionError as e:
        ctx.fail(f"{k}({p}, split_every={inp['se']}) differs from pandas", observed=str(e)[:300])
        return
    # values agree; now the dtypes / scalar kinds (statement: "computed scalars/series vs pandas")
    try:
        _close(got, exp, dtypes=True)
    except AssertionError as e:
        ctx.fail(f"{k}({p}, split_every={inp['se']}): values equal pandas but dtypes differ", observed=str(e)[:300])
        return
    ctx.branch("api-" + k)
    if any(n == 0 for n in inp["lens"]):
        ctx.branch("api-empty-partition")
    if p.get("axis") == 1:
        ctx.branch("api-axis1")


def case_lenparts(ctx, inp):
    """len() of a from_pandas collection and of selections of its partitions (FromPandas answers Len from memoised
    partition lengths: the memo of the whole collection must not leak into `.partitions[...]`)"""
    import pandas as pd
    dd = U.dd()
    n = inp["n"]
    df = pd.DataFrame({"a": list(range(n)), "b": [float(i % 3) for i in range(n)]}, index=pd.Index(inp["index"], name="k"))
    d = dd.from_pandas(df, npartitions=inp["npartitions"], sort=True)
    obj_d, obj_p = (d, df) if inp["what"] == "frame" else (d["a"], df["a"]) if inp["what"] == "column" else (None, None)
    if inp["what"] == "series":
        obj_p = df["a"].copy()
        obj_d = dd.from_pandas(obj_p, npartitions=inp["npartitions"], sort=True)
    if inp["len_first"]:
        got = len(obj_d)
        if got != len(obj_p):
            ctx.fail("len(collection) differs from pandas", observed=got, expected=len(obj_p))
    nparts = obj_d.npartitions
    for sel in inp["selections"]:
        sel = [i % nparts for i in sel] if isinstance(sel, list) else sel % nparts
        part = obj_d.partitions[sel]
        expected = len(part.compute(scheduler="sync"))
        got = len(part)
        if got != expected:
            ctx.fail(f"len(x.partitions[{sel}]) differs from the computed length (len taken first: {inp['len_first']})",
                     observed=got, expected=expected)
            return
    total = sum(len(obj_d.partitions[i]) for i in range(nparts))
    if total != len(obj_p) or len(obj_d) != len(obj_p):
        ctx.fail("partition lengths do not add up to the length of the collection", observed=[total, len(obj_d)], expected=len(obj_p))
    ctx.branch("lenparts-" + inp["what"])
    if inp["len_first"]:
        ctx.branch("lenparts-len-taken-first")
    if nparts > 1:
        ctx.branch("lenparts-multipartition")


CASES = {"shape": case_shape, "reduce": case_reduce, "reduce2": case_reduce2, "api": case_api, "lenparts": case_lenparts}
CASES.update(X.CASES)      # extension round: covcorr, stats (harness/props/_c37x.py)


# ------------------------------------------------------------------------------------------------
# generators
# ------------------------------------------------------------------------------------------------

SES = ["none", "false", 2, 3, 2, 3, 4]


KINDS = ["sum", "prod", "min", "max", "mean", "var", "std", "sem", "count", "any", "all", "idxmin", "idxmax",
         "nunique", "value_counts", "mode", "nlargest", "nsmallest", "describe", "cov", "corr", "len"]


def gen_api(rng):
    kinds = KINDS
    n = rng.randint(1, 14)
    kind = rng.choice(kinds)
    uniq = kind in ("idxmin", "idxmax", "nlargest", "nsmallest") or rng.random() < 0.5
    inp = {
        "a": [rng.randint(-2, 4) for _ in range(n)],
        "b": [None if rng.random() < 0.25 else rng.choice([1.5, -2.0, 0.0, 3.25, 2.0, 0.5]) for _ in range(n)],
        "c": [None if rng.random() < 0.2 else float(rng.randint(-3, 3)) for _ in range(n)],
        "g": [rng.random() < 0.6 for _ in range(n)],
        "s": [rng.choice(["x", "y", "zz"]) for _ in range(n)],
        "index": sorted(rng.sample(range(40), n)) if uniq else sorted(rng.randint(0, 6) for _ in range(n)),
        "kind": kind, "se": rng.choice(SES), "lens": U.gen_lens(rng, n, rng.choice([4, 4, 9])),
        "known": rng.random() < 0.7,
        "column": rng.choice([None, "a", "b"]) if kind not in ("cov", "corr", "describe") else rng.choice([None, "b"]) if kind == "describe" else None,
        "params": {"skipna": rng.random() < 0.75, "axis": 1 if rng.random() < 0.15 else 0, "ddof": rng.choice([1, 1, 0]),
                   "numeric_only": True, "n": rng.randint(1, 4), "columns": rng.choice([["a"], ["b"], ["a", "b"]]),
                   "boolcol": rng.random() < 0.5},
        "with_str": rng.random() < 0.2,
    }
    if kind in ("idxmin", "idxmax") and inp["column"] is None and rng.random() < 0.6:
        inp["column"] = rng.choice(["a", "b"])
    if kind == "prod":
        inp["a"] = [max(-2, min(2, v)) for v in inp["a"]]
    return inp


def gen_value_counts(rng):
    """value_counts(dropna=False) with NaN in the data, on the tree path with MORE partitions than split_every"""
    se, nparts = rng.choice([(2, 3), (2, 4), (2, 5), (3, 4), (3, 7), ("none", 9), ("none", 10), (2, 9)])
    n = rng.randint(nparts, nparts + 8)
    inp = gen_api(rng)
    while len(inp["a"]) != n:
        inp = gen_api(rng)
        n = len(inp["a"]) if len(inp["a"]) >= nparts else n
    n = len(inp["a"])
    cuts = sorted(rng.sample(range(1, n), nparts - 1)) if n > nparts else list(range(1, n))
    lens = [b - a for a, b in zip([0] + cuts, cuts + [n])]
    vals = [None if rng.random() < 0.35 else float(rng.randint(0, 3)) for _ in range(n)]
    if None not in vals:
        vals[rng.randrange(n)] = None
    inp.update({"kind": "value_counts", "column": "c", "c": vals, "se": se, "lens": lens, "known": True})
    inp["params"] = dict(inp["params"], dropna=False, normalize=rng.random() < 0.4, sort=rng.random() < 0.7,
                         split_out=rng.choice([None, 1]))
    return inp


def gen_reduce2(rng):
    how = rng.choice(["idxmax", "idxmin", "any", "all", "value_counts", "value_counts", "nlargest", "nsmallest"])
    n = rng.randint(0, 14) if how not in ("idxmax", "idxmin") or rng.random() < 0.9 else 0
    if how in ("any", "all"):
        p = rng.choice([0.1, 0.5, 0.9])
        cells = [1 if rng.random() < p else 0 for _ in range(n)]
    else:
        cells = U.gen_cells(rng, n, lo=-2, hi=3)
    lens = U.gen_lens(rng, n, 5) if rng.random() < 0.6 else U.gen_lens(rng, n, 12)
    return {"how": how, "cells": cells, "lens": lens, "se": rng.choice(SES), "known": rng.random() < 0.7,
            "dropna": rng.random() < 0.5, "n": rng.randint(0, 5)}


def generate(ctx):
    rng = ctx.rng
    for _ in range(ctx.n(30, 400)):
        yield "api", gen_value_counts(rng)
    for se in [1, 0, -2, "none", "false", 2, 3, 5, 8]:
        for n in ([1, 2, 3, 5, 9, 10, 17, 28] if not ctx.thorough() else list(range(1, 70))):
            if isinstance(se, int) and se < 2 and n > 3:
                continue
            yield "shape", {"n": n, "se": se}
    for _ in range(ctx.n(220, 5000)):
        n = rng.randint(0, 14)
        how = rng.choice(HOWS)
        cells = U.gen_cells(rng, n)
        dtype = "float64"
        if rng.random() < 0.2:
            cells = [1 if c is None else c for c in cells]
            dtype = "int64"
        if how == "prod":
            cells = [None if c is None else max(-2, min(2, c)) for c in cells]
        t = rng.random()
        lens = U.gen_lens(rng, n, 5) if t < 0.6 else U.gen_lens(rng, n, 12)
        yield "reduce", {"cells": cells, "lens": lens, "how": how, "skipna": rng.random() < 0.7,
                         "se": rng.choice(SES), "dtype": dtype, "known": rng.random() < 0.7}
    for _ in range(ctx.n(90, 2500)):
        yield "reduce2", gen_reduce2(rng)
    for _ in range(ctx.n(24, 300)):
        n = rng.randint(1, 14)
        yield "lenparts", {"n": n, "index": sorted(rng.sample(range(40), n)), "npartitions": rng.randint(1, 4),
                           "what": rng.choice(["frame", "column", "series"]), "len_first": rng.random() < 0.7,
                           "selections": [rng.choice([rng.randint(0, 3), [rng.randint(0, 3), rng.randint(0, 3)]]) for _ in range(3)]}
    for _ in range(ctx.n(190, 4000)):
        yield "api", gen_api(rng)
    yield from X.generate(ctx)      # appended last: the streams of the sections above are unchanged


def search(ctx):
    yield from generate(ctx)
