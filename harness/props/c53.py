"""C53 — serializable locks keep their identity across pickling.

Model:    lean/DaskModel/Model/LockReg.lean (token -> lock registry with weak entries, as a history model)
Theorems: lean/DaskModel/Props/C53.lean
Tie:      histories of real constructions (explicit / default / falsy tokens), pickle / copy / deepcopy round trips,
          loads of pickles whose original is dead, `del` + gc, non-blocking acquire/release on the real class; after
          every history the partition of the live objects by `a.lock is b.lock`, the registry membership of every
          token and every acquire outcome are compared with the model (CPython timing = `runEager`);
          API level: real threads — a holder thread owns the lock through one object while the main thread tries
          every other live object with a timeout (must time out iff same token), and a lost-update stress test where
          several threads increment a shared counter through different unpickled copies.
"""
from __future__ import annotations

import copy
import gc
import itertools
import pickle
import threading
import time

from sexp import Sym

PROP = "C53"
READY = True
DRIVER = "dm_stores"
LEAN_MODULES = ["DaskModel.Props.C53"]
CASE_TIMEOUT_S = 20
LEVEL_TEXT = (
    "PROVED for all histories (Lean 4 invariant proof over the SerializableLock registry: construct with explicit or "
    "fresh token, pickle/copy round trip, load of an old pickle, object death, weak-entry clearing at ANY permitted "
    "moment, acquire/release): copies_share_lock, separate_locks_distinct, copy_shares_with_original, "
    "load_shares_with_live, late_copy_after_first_instance_died (the first instance registered for a token dies, "
    "copies survive, any permitted clearing happens, a pickle is loaded: the late copy holds the survivors' lock), "
    "default_tokens_fresh / default_lock_separate, holding_blocks_copies / holding_does_not_block_others, gc_safe; "
    "instance_registry_breaks_sharing (what-if model: a weak registry that keeps the first INSTANCE instead of the "
    "lock loses the entry with that instance and hands out a second lock — why the referent must be the lock). "
    "VALIDATED: the model is tied to the real class by replaying random, directed and (thorough tier) all valid "
    "histories of <= 5 steps (identity partition by `a.lock is b.lock`, registry membership per token, acquire "
    "outcomes, locked()), by real thread contention with timeouts, and by a lost-update stress test through "
    "unpickled copies. TRUSTED: threading.Lock's mutual exclusion, uuid4 uniqueness, CPython weak-reference "
    "semantics (the model's gc guard: an entry may vanish only when no live SerializableLock holds that lock); "
    "concurrent *creation* of locks is documented as not thread-safe and is excluded (locks are created from one thread).")
LEVEL_NOTE = ("Trusted: Lean kernel + standard axioms; threading.Lock; uuid4 never repeats; WeakValueDictionary drops "
              "an entry only when the Lock has no strong reference; the correspondence harness.")
TECHNIQUE = "Lean 4 proof (state invariant over event histories) + history replay and real-thread contention on the real class"
ASSUMPTIONS = ["uuid.uuid4() never returns a token already in use",
               "threading.Lock provides mutual exclusion per lock object",
               "locks are created from a single thread (documented restriction)"]
TRUSTED = ["threading.Lock", "weakref.WeakValueDictionary", "pickle / copy protocol dispatch to __getstate__/__setstate__"]

_uniq = itertools.count()


def _tok_wire(t):
    return [Sym("e"), t[1]] if t[0] == "e" else [Sym("u"), t[1]]


class _Replay:
    """runs a history on the real class, producing the model events alongside"""

    def __init__(self):
        from dask.utils import SerializableLock
        self.cls = SerializableLock
        self.num = next(_uniq)
        self.prefix = f"c53-{self.num}-"
        self.objs = []        # index = model object id; None once dropped
        self.tokens = []      # abstract token of every object ever created: ("e", n) | ("u", k)
        self.uuid_real = []   # k -> real uuid string
        self.slots = []       # (bytes, abstract token)
        self.events = []
        self.acquire_results = []   # (event index, real outcome)
        self.with_locked = []

    def real_token(self, t):
        """explicit tokens of several hashable types (str, int, tuple, bytes), unique to this case"""
        if t[0] != "e":
            return self.uuid_real[t[1]]
        n = t[1]
        kind = n % 4
        if kind == 0:
            return self.prefix + str(n)
        if kind == 1:
            return 10 ** 9 + (self.num + 1) * 16 + n
        if kind == 2:
            return (self.prefix, n)
        return (self.prefix + str(n)).encode()

    def add(self, obj, t):
        self.objs.append(obj)
        self.tokens.append(t)

    def do(self, op):
        kind = op[0]
        if kind == "new":
            n = op[1]
            if n is None or n == "falsy":
                falsy = ["", 0, (), b"", None, False][op[2] % 6] if len(op) > 2 else ""
                o = self.cls(falsy) if n == "falsy" else self.cls()
                t = ("u", len(self.uuid_real))
                self.uuid_real.append(o.token)
                self.events.append([Sym("new"), None])
            else:
                o = self.cls(self.real_token(("e", n)))
                t = ("e", n)
                self.events.append([Sym("new"), n])
            self.add(o, t)
        elif kind == "with":
            o = self.objs[op[1]]
            with o:
                self.with_locked.append(bool(o.locked()))
            self.acquire_results.append(True)
            self.events.append([Sym("acquire"), op[1]])
            self.events.append([Sym("release"), op[1]])
        elif kind == "copy":
            i, how = op[1], op[2]
            src = self.objs[i]
            if how == "pickle":
                o = pickle.loads(pickle.dumps(src))
            elif how == "pickle2":
                o = pickle.loads(pickle.dumps(src, protocol=2))
            elif how == "copy":
                o = copy.copy(src)
            else:
                o = copy.deepcopy(src)
            self.add(o, self.tokens[i])
            self.events.append([Sym("copy"), i])
            del src
        elif kind == "dumps":
            self.slots.append((pickle.dumps(self.objs[op[1]]), self.tokens[op[1]]))
        elif kind == "loads":
            b, t = self.slots[op[1]]
            self.add(pickle.loads(b), t)
            self.events.append([Sym("load"), _tok_wire(t)])
        elif kind == "drop":
            self.objs[op[1]] = None
            self.events.append([Sym("drop"), op[1]])
        elif kind == "gccollect":
            gc.collect()
        elif kind == "acquire":
            r = self.objs[op[1]].acquire(False)
            self.acquire_results.append(bool(r))
            self.events.append([Sym("acquire"), op[1]])
        elif kind == "release":
            self.objs[op[1]].release()
            self.events.append([Sym("release"), op[1]])
        else:
            raise ValueError(op)

    def live(self):
        return [i for i, o in enumerate(self.objs) if o is not None]

    def all_tokens(self):
        seen = []
        for t in self.tokens:
            if t not in seen:
                seen.append(t)
        return seen

    def cleanup(self):
        for i in self.live():
            o = self.objs[i]
            if o.locked():
                try:
                    o.release()
                except RuntimeError:
                    pass
        self.objs = []
        self.slots = []


def _partition(ids, same):
    """canonical partition of ids under the relation same(i, j)"""
    classes = []
    for i in ids:
        for c in classes:
            if same(c[0], i):
                c.append(i)
                break
        else:
            classes.append([i])
    return sorted(sorted(c) for c in classes)


def case_history(ctx, inp):
    rp = _Replay()
    try:
        for op in inp["ops"]:
            rp.do(op)
        live = rp.live()
        toks = rp.all_tokens()
        model = ctx.lean(Sym("lock-run"), rp.events, [_tok_wire(t) for t in toks])
        # model: ((id lock)...) (canAcquire-before-each-acquire...) (token-in-registry...)
        m_objs = {i: l for i, l in model[0]}
        ctx.eq("live object ids", sorted(m_objs), live)
        real_part = _partition(live, lambda i, j: rp.objs[i].lock is rp.objs[j].lock)
        model_part = _partition(sorted(m_objs), lambda i, j: m_objs[i] == m_objs[j])
        ctx.eq("partition of live objects by shared lock", model_part, real_part)
        ctx.eq("non-blocking acquire outcomes", model[1], rp.acquire_results)
        real_reg = [rp.real_token(t) in rp.cls._locks for t in toks]
        ctx.eq("token present in SerializableLock._locks", model[2], real_reg)
        ctx.eq("locked() of every live object", [m_objs[i] in model[3] for i in sorted(m_objs)],
               [bool(rp.objs[i].locked()) for i in live])
        if not all(rp.with_locked):
            ctx.fail("inside `with lock:` the lock does not report locked()", observed=rp.with_locked)
        if rp.with_locked:
            ctx.branch("context-manager")
        if any(t[0] == "e" and t[1] % 4 != 0 for t in rp.tokens):
            ctx.branch("non-string-token")
        # property oracle on the real objects: same lock object <=> same token
        for a, b in itertools.combinations(live, 2):
            same_tok = rp.objs[a].token == rp.objs[b].token
            same_lock = rp.objs[a].lock is rp.objs[b].lock
            if same_tok and not same_lock:
                ctx.fail("two live SerializableLocks with the same token hold different locks",
                         observed=[a, b, str(rp.objs[a].token)])
            if not same_tok and same_lock:
                ctx.fail("two SerializableLocks with different tokens share a lock", observed=[a, b])
        if len(real_part) < len(live):
            ctx.branch("shared-class")
        if any(op[0] == "loads" for op in inp["ops"]):
            ctx.branch("load-old-pickle")
        if any(r is False for r in rp.acquire_results):
            ctx.branch("acquire-blocked-by-copy")
        if any(not x for x in real_reg):
            ctx.branch("weak-entry-cleared")
        if any(op[0] == "new" and op[1] == "falsy" for op in inp["ops"]):
            ctx.branch("falsy-token")
        if _first_died_then_new_copy(inp["ops"]):
            ctx.branch("first-instance-dead-copies-alive-then-new-copy")
    finally:
        rp.cleanup()


def _first_died_then_new_copy(ops):
    """does the history contain: the FIRST instance of some token dies while another instance with that token is alive,
    and later a further instance with that token is created (copy / loads / explicit token)?"""
    tokens, alive, slots = [], [], []
    first = {}            # token -> id of the first instance currently registered for it (None once it died while copies live)
    armed = set()         # tokens whose first instance died while a copy was alive
    nu = 0
    for op in ops:
        k = op[0]
        t = None
        if k == "new":
            if op[1] is None or op[1] == "falsy":
                t = ("u", nu)
                nu += 1
            else:
                t = ("e", op[1])
        elif k == "copy":
            t = tokens[op[1]]
        elif k == "loads":
            t = slots[op[1]]
        elif k == "dumps":
            slots.append(tokens[op[1]])
        elif k == "drop":
            i = op[1]
            alive[i] = False
            ti = tokens[i]
            if first.get(ti) == i:
                if any(a and tokens[j] == ti for j, a in enumerate(alive)):
                    armed.add(ti)
                first.pop(ti)
        if t is not None:
            if t in armed and any(a and tokens[j] == t for j, a in enumerate(alive)):
                return True
            tokens.append(t)
            alive.append(True)
            if not any(a and tokens[j] == t for j, a in enumerate(alive[:-1])):
                armed.discard(t)
                first[t] = len(tokens) - 1
            first.setdefault(t, len(tokens) - 1)
    return False


def case_contend(ctx, inp):
    """API level: a holder thread owns the lock through object `holder`; the main thread tries every other live
    object with a timeout."""
    rp = _Replay()
    try:
        for op in inp["ops"]:
            rp.do(op)
        live = rp.live()
        if len(live) < 2:
            return
        h = inp["holder"] % len(live)
        holder = live[h]
        others = [i for i in live if i != holder][: inp.get("max_others", 3)]
        model = ctx.lean(Sym("lock-run"), rp.events + [[Sym("acquire"), holder]] + [[Sym("acquire"), i] for i in others], [])
        # model[1] = outcomes of [holder] + others  (each successful acquire keeps the lock: mirror that below)
        got_it = threading.Event()
        let_go = threading.Event()
        hold_obj = rp.objs[holder]
        state = {}

        def hold():
            state["ok"] = hold_obj.acquire(timeout=5)
            got_it.set()
            let_go.wait(10)
            if state["ok"]:
                hold_obj.release()

        t = threading.Thread(target=hold, daemon=True)
        t.start()
        if not got_it.wait(10) or not state.get("ok"):
            let_go.set()
            ctx.fail("holder thread could not acquire a free lock", observed=holder)
            return
        real = [True]
        acquired = []
        for i in others:
            same = rp.tokens[i] == rp.tokens[holder] or any(rp.tokens[i] == rp.tokens[j] for j in acquired)
            t0 = time.monotonic()
            r = rp.objs[i].acquire(timeout=0.03 if same else 2.0)
            real.append(bool(r))
            if r:
                acquired.append(i)
            if same and r:
                ctx.fail("holding the lock through one object did not block a copy with the same token",
                         observed=[holder, i])
            if not same and not r:
                ctx.fail("a separately created lock was blocked by an unrelated one", observed=[holder, i])
        ctx.eq("acquire outcomes under a real holder thread", model[1], real)
        let_go.set()
        t.join(10)
        for i in acquired:
            rp.objs[i].release()
        # after the holder released, a copy must be acquirable again
        for i in others:
            if rp.tokens[i] == rp.tokens[holder]:
                if not rp.objs[i].acquire(timeout=2.0):
                    ctx.fail("copy still blocked after the holder released", observed=[holder, i])
                else:
                    rp.objs[i].release()
                ctx.branch("copy-blocked-then-free")
                break
        else:
            ctx.branch("only-unrelated-locks")
    finally:
        rp.cleanup()


def case_stress(ctx, inp):
    """API level: lost-update test. `nthreads` threads increment a shared counter (read, yield, write) `iters` times,
    each through its own unpickled copy of one lock: no update may be lost."""
    from dask.utils import SerializableLock
    base = SerializableLock(None if inp.get("default") else f"c53-stress-{next(_uniq)}")
    n, iters = inp["nthreads"], inp["iters"]
    hows = inp["hows"]
    copies = []
    for k in range(n):
        how = hows[k % len(hows)]
        copies.append(pickle.loads(pickle.dumps(base)) if how == "pickle" else
                      copy.deepcopy(base) if how == "deepcopy" else
                      pickle.loads(pickle.dumps(copies[-1])) if (how == "chain" and copies) else base)
    box = {"v": 0}

    def work(lk):
        for _ in range(iters):
            with lk:
                v = box["v"]
                time.sleep(0)
                box["v"] = v + 1

    ts = [threading.Thread(target=work, args=(c,), daemon=True) for c in copies]
    for t in ts:
        t.start()
    for t in ts:
        t.join(15)
    if any(t.is_alive() for t in ts):
        ctx.fail("threads contending on copies of one lock did not finish (deadlock)", sig=None)
        return
    if box["v"] != n * iters:
        ctx.fail("updates were lost although every thread held a copy of the same SerializableLock",
                 observed=box["v"], expected=n * iters)
    ctx.branch("stress-" + "+".join(sorted(set(hows))))


CASES = {"history": case_history, "contend": case_contend, "stress": case_stress}


def _gen_ops(rng, n, allow_acquire=True):
    """random history; simulates tokens so that every op is valid (no op on a dead object, release only what is held)"""
    ops, tokens, alive, slots, held = [], [], [], [], {}
    nuuid = 0
    for _ in range(n):
        r = rng.random()
        live = [i for i, a in enumerate(alive) if a]
        if r < 0.22 or not live:
            c = rng.random()
            if c < 0.45:
                ops.append(["new", None]); tokens.append(("u", nuuid)); nuuid += 1
            elif c < 0.55:
                ops.append(["new", "falsy", rng.randint(0, 5)]); tokens.append(("u", nuuid)); nuuid += 1
            else:
                k = rng.randint(1, 5)
                ops.append(["new", k]); tokens.append(("e", k))
            alive.append(True)
        elif r < 0.5:
            i = rng.choice(live)
            ops.append(["copy", i, rng.choice(["pickle", "pickle2", "copy", "deepcopy"])])
            tokens.append(tokens[i]); alive.append(True)
        elif r < 0.58:
            i = rng.choice(live)
            ops.append(["dumps", i]); slots.append(tokens[i])
        elif r < 0.68 and slots:
            s = rng.randrange(len(slots))
            ops.append(["loads", s]); tokens.append(slots[s]); alive.append(True)
        elif r < 0.82:
            i = rng.choice(live)
            # never drop the object through which a lock is currently held (it could not be released any more)
            if held.get(tokens[i]) == i:
                continue
            ops.append(["drop", i]); alive[i] = False
        elif r < 0.86:
            ops.append(["gccollect"])
        elif allow_acquire and r < 0.89:
            i = rng.choice(live)
            if tokens[i] not in held:       # `with lock:` blocks when the lock is taken: only on a free one
                ops.append(["with", i])
        elif allow_acquire and r < 0.95:
            i = rng.choice(live)
            ops.append(["acquire", i])
            if tokens[i] not in held:
                held[tokens[i]] = i
        elif allow_acquire and held:
            t = rng.choice(sorted(held))
            i = held.pop(t)
            ops.append(["release", i])
    for t, i in sorted(held.items()):
        ops.append(["release", i])
    return ops


def _exhaustive_histories(maxlen=5):
    """every valid history of <= maxlen steps over one explicit token and one default lock: constructions, copies,
    dumps/loads, deaths, collections (no acquire: the final partition by shared lock is what is compared)"""
    alphabet = [["new", 1], ["new", None], ["copy", 0, "pickle"], ["copy", 1, "copy"], ["copy", 2, "pickle"],
                ["dumps", 0], ["dumps", 1], ["loads", 0], ["loads", 1], ["drop", 0], ["drop", 1], ["drop", 2], ["gccollect"]]

    def valid(ops):
        alive, nslots = [], 0
        for op in ops:
            k = op[0]
            if k in ("copy", "dumps", "drop"):
                if op[1] >= len(alive) or not alive[op[1]]:
                    return False
            if k == "loads" and op[1] >= nslots:
                return False
            if k in ("new", "copy", "loads"):
                alive.append(True)
            elif k == "dumps":
                nslots += 1
            elif k == "drop":
                alive[op[1]] = False
        return True

    def rec(prefix):
        if prefix:
            yield "history", {"ops": [list(o) for o in prefix]}
        if len(prefix) == maxlen:
            return
        for op in alphabet:
            nxt = prefix + [op]
            if valid(nxt) and not (op[0] == "gccollect" and prefix and prefix[-1][0] == "gccollect"):
                yield from rec(nxt)
    yield from rec([])


def generate(ctx):
    from props._stores_util import ensure_budget
    ensure_budget(ctx, quick_scale=1.5)
    rng = ctx.rng
    # the documented example and its neighbours
    yield "history", {"ops": [["new", None], ["copy", 0, "pickle"], ["copy", 0, "pickle"], ["acquire", 1], ["acquire", 2],
                              ["release", 1]]}
    yield "history", {"ops": [["new", None], ["new", None], ["acquire", 0], ["acquire", 1], ["release", 0], ["release", 1]]}
    yield "history", {"ops": [["new", 1], ["dumps", 0], ["drop", 0], ["gccollect"], ["loads", 0], ["loads", 0], ["new", 1]]}
    yield "history", {"ops": [["new", "falsy"], ["new", "falsy"], ["copy", 1, "deepcopy"]]}
    # the first instance registered for a token dies, copies survive, then a further copy appears (pickle of the dead
    # original, pickle of a survivor, explicit token again, copy of a survivor) — with and without a collection between
    for late in (["loads", 0], ["copy", 1, "pickle"], ["new", 3], ["copy", 1, "deepcopy"]):
        for gc_between in (False, True):
            for tok in (3, None):
                if late[0] == "new" and tok is None:
                    continue
                ops = [["new", tok], ["dumps", 0], ["copy", 0, "pickle"], ["drop", 0]] + ([["gccollect"]] if gc_between else [])
                ops += [late, ["acquire", 1], ["acquire", 2], ["release", 1]]
                yield "history", {"ops": ops}
    yield "history", {"ops": [["new", 2], ["copy", 0, "copy"], ["copy", 1, "pickle"], ["drop", 0], ["drop", 1], ["gccollect"],
                              ["copy", 2, "pickle"], ["new", 2], ["acquire", 2], ["acquire", 3], ["acquire", 4], ["release", 2]]}
    for _ in range(ctx.n(600, 8000)):
        yield "history", {"ops": _gen_ops(rng, rng.randint(2, 14))}
    if ctx.thorough():
        yield from _exhaustive_histories()
    for _ in range(ctx.n(60, 600)):
        yield "contend", {"ops": _gen_ops(rng, rng.randint(3, 10), allow_acquire=False), "holder": rng.randint(0, 20),
                          "max_others": 3}
    for _ in range(ctx.n(8, 60)):
        yield "stress", {"nthreads": rng.randint(2, 4), "iters": rng.randint(20, 80), "default": rng.random() < 0.5,
                         "hows": [rng.choice(["pickle", "deepcopy", "chain", "same"]) for _ in range(rng.randint(1, 3))]}
