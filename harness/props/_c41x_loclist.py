"""C41 extension — `.loc[[labels]]` (LocList) and `.loc[scalar]` (LocElement) on frames with known divisions.

Model:    lean/DaskModel/Model/LocList.lean (`routeItems`/`routeLoop` = `_partitions_of_index_values`, `locListDivs`,
          `pandasLocList`, `locListParts`, `locListLowerSel`/`locListLowered` = `LocList._lower`, `locElement`,
          `locElementParts`, `locElementLowerSel`); handlers in Model/LocListIO.lean
Theorems: lean/DaskModel/Props/C41xLocList.lean
Sections (merged into c41.py):
  loclist_route  function level, nothing computed: `_partitions_of_index_values`, `LocList._divisions`, `LocList._lower`
                 and the routing table (label -> ORIGINAL partition) read off the lowered LocList graph, vs the model
  loclist_api    `d.loc[labels]` computed: divisions, partitions (row ids, order), KeyError iff the model raises; oracles
                 on the real output (truthful, every present label found with all its rows, order as the code defines it)
  locelem        `d.loc[x]`: KeyError guard, chosen partition (from the lowered graph), divisions (x, x), rows, oracles
"""
from __future__ import annotations

from sexp import Sym

from props import _dfpart_util as U


def _items_py(items):
    return [[int(p), [int(v) for v in ls]] for p, ls in items]


def _orig_partition(frame_expr, j):
    """partition number of the ORIGINAL frame behind partition j of the (lowered) frame of a Loc expression"""
    from dask.dataframe.dask_expr._expr import Partitions
    if isinstance(frame_expr, Partitions):
        return _orig_partition(frame_expr.frame, frame_expr.partitions[j])
    sel = getattr(frame_expr, "_partitions", None) if "_partitions" in getattr(frame_expr, "_parameters", []) else None
    if sel is not None and frame_expr.operand("_partitions") is not None:
        return int(list(sel)[j])
    return int(j)


def _layer_table(low):
    """[(input partition number of low.frame, labels)] per output partition of a LocList/LocElement expression"""
    lay = low._layer()
    out = []
    for i in range(len(lay)):
        t = lay[(low._name, i)]
        ref, indexer = t.args[0], t.args[1]
        assert ref.key[0] == low.frame._name, (ref.key, low.frame._name)
        out.append((int(ref.key[1]), indexer))
    return out


def _classify(ctx, divs, labels, pre):
    n = len(divs) - 1
    if len(divs) >= 3 and divs[-1] == divs[-2]:
        ctx.branch(pre + ":duplicated-last-division")
    if any(v in divs[1:-1] for v in labels):
        ctx.branch(pre + ":label-at-interior-division")
    if any(v == divs[-1] for v in labels):
        ctx.branch(pre + ":label-at-last-division")
    if any(v < divs[0] for v in labels):
        ctx.branch(pre + ":label-below-range")
    if any(v > divs[-1] for v in labels):
        ctx.branch(pre + ":label-above-range")
    if len(set(labels)) < len(labels):
        ctx.branch(pre + ":duplicated-labels")
    if list(labels) != sorted(labels):
        ctx.branch(pre + ":labels-not-sorted")
    del n


def case_loclist_route(ctx, inp):
    U.dd()
    from dask.dataframe.dask_expr._indexing import LocList
    from dask.dataframe.indexing import _partitions_of_index_values
    divs, labels = inp["divs"], inp["labels"]
    n = len(divs) - 1
    model = ctx.lean(Sym("loclist-plan"), divs, labels)
    m_items, m_loop, m_divs, m_low = model
    # (1) the routing function itself
    real = _partitions_of_index_values(tuple(divs), list(labels))
    r_items = _items_py(sorted(real.items()))
    ctx.eq("sorted(_partitions_of_index_values.items()) vs routeItems", _items_py(m_items), r_items)
    ctx.eq("routeLoop (the loop) vs routeItems (closed form)", _items_py(m_loop), _items_py(m_items))
    _classify(ctx, divs, labels, "route")
    # clause oracle on the real table: interior division -> right-hand partition, last division / beyond -> last
    # partition, below -> partition 0, otherwise the partition whose interval holds the label
    for p, ls in r_items:
        for v in ls:
            exp = (0 if v < divs[0] else n - 1 if v >= divs[-1]
                   else max(i for i in range(n) if divs[i] <= v))
            if p != exp:
                ctx.fail("_partitions_of_index_values routes a label to the wrong partition", observed=[divs, v, p], expected=exp)
    if sorted(v for _, ls in r_items for v in ls) != sorted(labels):
        ctx.fail("_partitions_of_index_values drops or invents labels", observed=[divs, labels, r_items])
    # (2) LocList on a frame with these divisions: reported divisions, lowering
    frame = U.frame_from_parts([[] for _ in range(n)], divisions=divs)
    e = LocList(frame.expr, list(labels), None)
    try:
        _route_expr(ctx, inp, e, frame, model, r_items)
    except (IndexError, KeyError, ValueError) as ex:
        ctx.fail("LocList._divisions / _lower / _layer raised: " + U.exc_name(ex), observed=[divs, labels, U.exc_name(ex)])


def _route_expr(ctx, inp, e, frame, model, r_items):
    from dask.dataframe.dask_expr._expr import Partitions
    divs, labels = inp["divs"], inp["labels"]
    n = len(divs) - 1
    m_items, _m_loop, m_divs, m_low = model
    rd = list(e._divisions())
    if rd[0] is None:
        ctx.eq("LocList._divisions (no label: unknown)", m_divs, [Sym("unknown")])
        ctx.branch("route:no-labels")
    else:
        ctx.eq("LocList._divisions", m_divs, [Sym("known"), [int(x) for x in rd]])
    low = e._lower()
    if low is None:
        ctx.eq("LocList._lower (all partitions used: not lowered)", m_low, [Sym("same")])
        ctx.branch("route:not-lowered")
        low, sel = e, list(range(n))
    else:
        assert isinstance(low.frame, Partitions)
        sel = [int(x) for x in low.frame.partitions]
        ld = [int(x) for x in low.frame.divisions]
        ctx.branch("route:lowered")
        if len(m_low) == 4:
            ctx.eq("LocList._lower: Partitions selection", [int(x) for x in m_low[1]], sel)
            ctx.eq("LocList._lower: divisions of the selected frame", [int(x) for x in m_low[2]], ld)
        else:
            ctx.disagree("LocList._lower lowers, the model does not", m_low, [sel, ld])
        ctx.eq("LocList._divisions unchanged by lowering", [int(x) for x in low._divisions()] if labels else None,
               [int(x) for x in rd] if labels else None)
    if labels:
        # (3) the routing table of the LOWERED graph, traced back to the original partitions
        tab = _layer_table(low)
        real_tab = [[_orig_partition(low.frame, j), [int(v) for v in ix]] for j, ix in tab]
        ctx.eq("routing table of the lowered LocList graph (label -> original partition)", _items_py(m_items), real_tab)
        if len(m_low) == 4:
            ctx.eq("items of the lowered LocList (routed by the divisions of Partitions)", _items_py(m_low[3]),
                   [[j, [int(v) for v in ix]] for j, ix in tab])
            # lowering must not re-route: position j of the selection holds what the unlowered graph sends to sel[j]
            if [[sel[j], [int(v) for v in ix]] for j, ix in tab] != r_items:
                ctx.fail("LocList._lower re-routes labels", observed=[divs, labels, sel, tab], expected=r_items)


def _mk(inp):
    keys = inp["parts"]
    d = U.frame_from_parts(keys, divisions=inp["divs"])
    rows, pos = [], 0
    for ks in keys:
        rows.append([[int(k), pos + i] for i, k in enumerate(ks)])
        pos += len(ks)
    return d, rows


def _labels_arg(labels, kind):
    import numpy as np
    import pandas as pd
    if kind == "ndarray":
        return np.array(labels, dtype="int64")
    if kind == "series":
        return pd.Series(labels, dtype="int64")
    return list(labels)


def case_loclist_api(ctx, inp):
    import dask
    dd = U.dd()
    del dd
    divs, labels = inp["divs"], inp["labels"]
    d, rows = _mk(inp)
    flat = [r for p in rows for r in p]
    present = {k for k, _ in flat}
    m_items, _m_loop, m_divs, _m_low = ctx.lean(Sym("loclist-plan"), divs, labels)
    m_parts = ctx.lean(Sym("loclist-parts"), divs, labels, rows)
    _classify(ctx, divs, labels, "loclist")
    if any(len(set(p)) < len(p) for p in inp["parts"]):
        ctx.branch("loclist:duplicated-index-values")
    with dask.config.set(scheduler="sync"):
        try:
            r = d.loc[_labels_arg(labels, inp.get("kind", "list"))]
            rd = list(r.divisions)
            npart = r.npartitions
        except Exception as e:  # noqa: BLE001
            ctx.fail("building .loc[labels] raised: " + U.exc_name(e), observed=[divs, labels, U.exc_name(e)])
            return
        ctx.eq("LocList divisions (collection)", m_divs, [Sym("known"), [int(x) for x in rd]])
        if len(rd) != npart + 1:
            ctx.fail(".loc[labels]: npartitions != len(divisions) - 1", observed=[npart, rd])
        try:
            parts = U.partitions(r)
        except KeyError:
            # pandas refuses a list with a label that is not in the partition it was routed to
            ctx.eq(".loc[labels] raises KeyError at compute time iff the model does", m_parts, [Sym("raised")])
            ctx.branch("loclist:compute-KeyError")
            if all(v in present for v in labels):
                ctx.fail(".loc[labels]: every label is in the frame, yet the label is not found in the partition it is routed to",
                         observed=[divs, inp["parts"], labels])
            return
        except Exception as e:  # noqa: BLE001
            ctx.fail(".loc[labels] compute raised: " + U.exc_name(e), observed=[divs, labels, U.exc_name(e)])
            return
        got = [[int(v) for v in p.v] for p in parts]
        ctx.eq(".loc[labels] partitions (row ids, in order)", m_parts, [Sym("ok"), got])
        ctx.branch("loclist:computed-%d-of-%d-partitions" % (min(len(parts), 4), min(len(divs) - 1, 4)))
        # ---- oracles on the real output
        if not all(v in present for v in labels):
            ctx.fail(".loc[labels] with a label that is not in the frame did not raise", observed=[divs, inp["parts"], labels])
        why = U.truthful(rd, parts)
        if why:
            ctx.fail(".loc[labels]: reported divisions not truthful: " + why, observed=[rd, [list(p.index) for p in parts]])
        # row order as the code defines it: partitions in increasing order; inside one, label by label in the order
        # given (duplicates repeat), all rows of the FRAME with that label in frame order
        exp = [[i for v in ls for k, i in flat if k == v] for _p, ls in _items_py(m_items)]
        if got != exp:
            ctx.fail(".loc[labels]: rows / order differ from 'every label fetches all rows of the frame carrying it'",
                     observed=got, expected=exp)
        # and as a multiset it is what pandas selects on the whole frame
        import pandas as pd
        pdf = pd.DataFrame({"v": [i for _, i in flat]}, index=pd.Index([k for k, _ in flat], dtype="int64"))
        if sorted(int(x) for x in pdf.loc[list(labels)].v) != sorted(i for p in got for i in p):
            ctx.fail(".loc[labels]: rows differ from pandas .loc[labels] on the whole frame (as a multiset)", observed=got)
        for i in sorted({ctx.rng.randrange(npart)}) if npart else []:
            gp = r.get_partition(i)
            gi = [int(v) for v in gp.compute().v]
            if gi != got[i]:
                ctx.fail("get_partition(i) of .loc[labels] is not partition i of the graph", observed=[i, gi, got[i]])
            w2 = U.truthful(list(gp.divisions), [gp.compute()])
            if w2:
                ctx.fail("get_partition(i) of .loc[labels]: divisions not truthful: " + w2, observed=[i, list(gp.divisions)])


def case_locelem(ctx, inp):
    import dask
    U.dd()
    from dask.dataframe.dask_expr._indexing import LocElement
    divs, x = inp["divs"], inp["x"]
    d, rows = _mk(inp)
    flat = [r for p in rows for r in p]
    n = len(divs) - 1
    model = ctx.lean(Sym("locelem"), divs, x, rows)
    pre = "locelem"
    _classify(ctx, divs, [x], pre)
    with dask.config.set(scheduler="sync"):
        try:
            r = d.loc[x]
        except KeyError:
            ctx.eq(".loc[x] raises KeyError outside [divisions[0], divisions[-1]]", model, [Sym("raised")])
            ctx.branch("locelem:KeyError-outside-range")
            if divs[0] <= x <= divs[-1]:
                ctx.fail(".loc[x] refused a label inside the division range", observed=[divs, x])
            return
        except Exception as e:  # noqa: BLE001
            ctx.fail(".loc[x] raised: " + U.exc_name(e), observed=[divs, x, U.exc_name(e)])
            return
        if model[0] != "ok":
            ctx.disagree(".loc[x] accepted, the model raises", model, [divs, x])
            return
        _ok, m_part, m_divs, m_ids, m_sel = model
        e = r.expr
        if not isinstance(e, LocElement):
            ctx.fail(".loc[x] on known divisions is not a LocElement", observed=type(e).__name__)
            return
        ctx.eq("LocElement._divisions", [int(v) for v in m_divs], [int(v) for v in e._divisions()])
        low = e._lower()
        if low is None:
            ctx.eq("LocElement._lower (single partition: not lowered)", m_sel, None)
            ctx.branch("locelem:not-lowered")
            low = e
        else:
            ctx.eq("LocElement._lower: Partitions selection", [int(v) for v in m_sel], [int(v) for v in low.frame.partitions])
            ctx.eq("LocElement._divisions unchanged by lowering", [int(v) for v in low._divisions()], [int(v) for v in e._divisions()])
            ctx.branch("locelem:lowered")
        tab = _layer_table(low)
        ctx.eq("LocElement: partition read (lowered graph, traced back)", int(m_part), _orig_partition(low.frame, tab[0][0]))
        sl = tab[0][1]
        if not (isinstance(sl, slice) and sl.start == x and sl.stop == x):
            ctx.fail("LocElement task does not slice [x:x]", observed=repr(sl))
        try:
            parts = U.partitions(r)
        except Exception as ex:  # noqa: BLE001
            ctx.fail(".loc[x] compute raised: " + U.exc_name(ex), observed=[divs, inp["parts"], x, U.exc_name(ex)])
            return
        got = [[int(v) for v in p.v] for p in parts]
        ctx.eq(".loc[x] partition (row ids, in order)", [[int(v) for v in m_ids]], got)
        ctx.branch("locelem:" + ("found" if got and got[0] else "absent-label-empty-result"))
        rd = list(r.divisions)
        if rd != [x, x] or len(parts) != 1:
            ctx.fail(".loc[x]: divisions are not (x, x) / not one partition", observed=[rd, len(parts)])
        why = U.truthful(rd, parts)
        if why:
            ctx.fail(".loc[x]: reported divisions not truthful: " + why, observed=[rd, [list(p.index) for p in parts]])
        exp = [i for k, i in flat if k == x]
        if got != [exp]:
            ctx.fail(".loc[x]: not all rows of the frame with that label (in order)", observed=got, expected=exp)
    del n


CASES = {"loclist_route": case_loclist_route, "loclist_api": case_loclist_api, "locelem": case_locelem}


def _rand_divs(rng):
    nparts = rng.randint(1, 6)
    return U.rand_divisions(rng, nparts, rng.choice([0, 0, 3]), rng.choice([8, 14, 30]),
                            single_last=(nparts >= 2 and rng.random() < 0.3))


def _rand_labels(rng, divs, present, p_present):
    k = rng.choice([1, 1, 2, 2, 3, 4, 6])
    out = []
    for _ in range(k):
        t = rng.random()
        if present and t < p_present:
            out.append(rng.choice(present))
        elif t < p_present + (1 - p_present) * 0.35:
            out.append(rng.choice(divs))                      # a division itself (interior / first / last)
        elif t < p_present + (1 - p_present) * 0.55:
            out.append(rng.choice([max(0, divs[0] - rng.randint(1, 3)), divs[-1] + rng.randint(1, 3)]))   # outside the range
        else:
            out.append(rng.randint(max(0, divs[0] - 1), divs[-1] + 1))
    if rng.random() < 0.3:
        out.append(rng.choice(out))                           # a duplicated label
    if rng.random() < 0.35:
        out.sort()
    return [int(v) for v in out]


def generate(ctx):
    rng = ctx.rng
    # directed cases first (no randomness)
    for divs, labels in (([0, 5, 10, 15], [7, 2, 12, 0]), ([0, 5, 10, 15], [5, 10, 15]), ([0, 5, 5], [5, 4, 5]),
                         ([0, 5, 10], [3, 8, 5]), ([3, 7], [1, 9, 7, 3]), ([0, 5, 10, 15], []), ([2, 2], [2]),
                         ([0, 4, 8, 8], [8, 8, 9, 0])):
        yield "loclist_route", {"divs": divs, "labels": labels}
    yield "loclist_api", {"divs": [0, 5, 10, 15], "parts": [[0, 2, 2, 4], [5, 7], [10, 12, 15, 15]], "labels": [7, 2, 12, 0, 2]}
    yield "loclist_api", {"divs": [0, 5, 10, 15], "parts": [[0, 2, 2, 4], [5, 7], [10, 12, 15, 15]], "labels": [15, 5, 10]}
    yield "loclist_api", {"divs": [0, 5, 5], "parts": [[0, 4], [5, 5]], "labels": [5, 4]}
    yield "loclist_api", {"divs": [0, 5, 10], "parts": [[0, 4], [7]], "labels": [4, 5]}         # 5 is a division, not a row
    yield "loclist_api", {"divs": [0, 5, 10], "parts": [[0, 4], [7]], "labels": [12, 4]}        # beyond the last division
    for x in (2, 5, 15, 3, 10, 20, 0):
        yield "locelem", {"divs": [0, 5, 10, 15], "parts": [[0, 2, 2, 4], [5, 7], [10, 12, 15, 15]], "x": x}
    yield "locelem", {"divs": [0, 5, 5], "parts": [[0, 4], [5, 5]], "x": 5}
    for _ in range(ctx.n(500, 6000)):
        divs = _rand_divs(rng)
        labels = _rand_labels(rng, divs, [], 0.0)
        yield "loclist_route", {"divs": divs, "labels": labels}
    for _ in range(ctx.n(50, 700)):
        divs = _rand_divs(rng)
        parts = U.rand_truthful_parts(rng, divs, maxrows=rng.choice([2, 4]), p_empty=0.2)
        present = [k for p in parts for k in p]
        labels = _rand_labels(rng, divs, present, rng.choice([1.0, 1.0, 1.0, 0.85]))
        yield "loclist_api", {"divs": divs, "parts": parts, "labels": labels,
                              "kind": rng.choice(["list", "list", "ndarray", "series"])}
    for _ in range(ctx.n(40, 600)):
        divs = _rand_divs(rng)
        parts = U.rand_truthful_parts(rng, divs, maxrows=rng.choice([2, 4]), p_empty=0.2)
        present = [k for p in parts for k in p]
        x = _rand_labels(rng, divs, present, 0.6)[0]
        yield "locelem", {"divs": divs, "parts": parts, "x": x}
