"""C13 extension — annotations of collections computed together.

Section `seqannot`: the real `_ExprSequence(*ops).__dask_annotations__()` (dask/_expr.py) vs Model/SeqAnnot.merge through
the token driver, items in dict order.  Operands are (a) expressions whose `__dask_annotations__` returns a generated
dict (`stub`), (b) real Delayed collections built under `dask.annotate` and converted by `collections_to_expr`
(`delayed`; shared keys through `dask_key_name`).  Oracles (theorems of Props/C13xAnnot): `seq_annotations_lookup`
(every (type, key) carries the annotation of the LAST operand that has it), `seq_annotations_alone` (a key annotated by
one operand only carries that operand's own annotation), `seq_annotations_absent`.
"""
from __future__ import annotations

from sexp import Sym

TYPES = ["priority", "retries", "resources", "workers", "custom"]


def _key(i):
    return ("x", i) if i % 3 == 0 else f"k-{i}"


def _inc(x):
    return x + 1


def _operands(inp):
    """real operands + their own annotations as {type index: {key index: value}}"""
    import dask
    from dask._expr import Expr
    from dask.base import collections_to_expr

    if inp["kind"] == "stub":
        class _AnnOp(Expr):
            _parameters = ["ann"]

            def __dask_annotations__(self):
                return {TYPES[t]: {_key(k): v for k, v in d} for t, d in self.operand("ann")}

        return [_AnnOp(tuple((t, tuple(map(tuple, d))) for t, d in op)) for op in inp["ops"]], _key
    colls = []
    for op in inp["ops"]:                        # one delayed call per operand: a single (type, key, value) item each
        (t, ((k, v),)), = op
        with dask.annotate(**{TYPES[t]: v}):
            colls.append(dask.delayed(_inc, pure=False)(k, dask_key_name=f"k-{k}"))
    seq = collections_to_expr(colls)
    return list(seq.operands), (lambda i: f"k-{i}")


def case_seqannot(ctx, inp):
    from dask._expr import _ExprSequence
    ops = inp["ops"]
    operands, keyf = _operands(inp)
    real = _ExprSequence(*operands).__dask_annotations__()
    tidx = {n: i for i, n in enumerate(TYPES)}
    kidx = {keyf(k): k for op in ops for _, d in op for k, _ in d}
    real_l = [[tidx[t], [[kidx[k], v] for k, v in d.items()]] for t, d in real.items()]
    model = ctx.lean(Sym("seqannot"), [[[t, [[k, v] for k, v in d]] for t, d in op] for op in ops])
    model = [[t, [list(p) for p in d]] for t, d in model]
    ctx.eq("_ExprSequence.__dask_annotations__", model, real_l)
    # oracles
    said = {}
    for i, op in enumerate(ops):
        for t, d in op:
            for k, v in d:
                said.setdefault((t, k), []).append((i, v))
    for (t, k), who in said.items():
        got = real.get(TYPES[t], {}).get(keyf(k), None)
        if got != who[-1][1]:
            ctx.fail("annotation is not the one of the last operand that has it", observed=got, expected=who[-1][1])
        if len({i for i, _ in who}) == 1:
            ctx.branch("seqannot:alone-kept")
        else:
            ctx.branch("seqannot:shared-key-last-wins")
    n_real = sum(len(d) for d in real.values())
    if n_real != len(said):
        ctx.fail("annotations nobody gave", observed=n_real, expected=len(said))
    ctx.branch("seqannot:" + inp["kind"])
    if len(ops) == 1:
        ctx.branch("seqannot:single")
    if any(not op for op in ops):
        ctx.branch("seqannot:operand-without-annotations")


def gen_seqannot(rng):
    if rng.random() < 0.25:
        n = rng.choice([1, 2, 2, 3, 4])
        nk = rng.choice([2, 3, 6])
        return {"kind": "delayed",
                "ops": [[[rng.randrange(2), [[rng.randrange(nk), rng.randrange(1, 9)]]]] for _ in range(n)]}
    n = rng.choice([1, 2, 2, 3, 3, 4, 5])
    nk = rng.choice([2, 4, 8, 30])
    nt = rng.choice([1, 2, 5])
    ops = []
    for _ in range(n):
        op = []
        for t in rng.sample(range(nt), rng.randint(0, nt)):
            keys = rng.sample(range(nk), rng.randint(0, min(nk, 4)))
            op.append([t, [[k, rng.randrange(100)] for k in keys]])
        ops.append(op)
    return {"kind": "stub", "ops": ops}


CASES = {"seqannot": case_seqannot}


def generate(ctx):
    rng = ctx.rng
    yield "seqannot", {"kind": "stub", "ops": [[[0, [[7, 1], [8, 5]]]], [[0, [[7, 2]]]]]}      # the witness of the Props module
    yield "seqannot", {"kind": "delayed", "ops": [[[0, [[7, 1]]]], [[0, [[7, 2]]]], [[1, [[8, 3]]]]]}
    for _ in range(ctx.n(150, 1500)):
        yield "seqannot", gen_seqannot(rng)
