"""C27 extension: `da.unique` on float data containing NaN (model `Model/UniqueNaN.lean`, theorems `Props/C27xNaN.lean`).

Sections
  unique_nan_internal  function level: the real `_unique_internal(ar, indices, counts)` on float rows with NaN vs
                       `uniqueInternalF` (IEEE `==` + the `v != v` branch)
  unique_nan           API level: `da.unique(float array with NaN, return_index, return_counts[, return_inverse])` on a
                       random chunking vs the Lean per-chunk + merge (`uniqueChunkedF`), vs `_unique_internal` on the
                       whole array (`uniqueSpecF`), vs NumPy's terms (`npUnique` + first index + multiplicity) and vs
                       `np.unique` itself; `return_inverse` vs the Lean `matches` formula (`inverseOfF`)
A float is an int >= 0 or -1 (NaN) on the wire; the numbers are small non-negative integers stored as float64.
The generators draw from a private stream derived from the run's seed (so that the streams of the older sections of
c27.py are what they were).
"""
from __future__ import annotations

import random

from sexp import Sym

from props._chunks_util import rand_comp, rand_comp_zeros, setup_dask


def _farr(vals):
    import numpy as np
    a = np.array([float(v) for v in vals], dtype="f8")
    if len(vals):
        a[np.array([v < 0 for v in vals], dtype=bool)] = np.nan
    return a


def _enc(v):
    return -1 if v != v else int(v)


def case_unique_nan_internal(ctx, inp):
    import numpy as np
    from dask.array.routines import _unique_internal
    rows = inp["rows"]
    ar = _farr([r[0] for r in rows])
    idx = np.array([r[1] for r in rows], dtype=np.intp)
    cnt = np.array([r[2] for r in rows], dtype=np.intp)
    r = _unique_internal(ar, idx, cnt, return_inverse=False)
    impl = [[_enc(a), int(b), int(c)] for a, b, c in zip(r["values"], r["indices"], r["counts"])]
    ctx.eq("_unique_internal on float rows with NaN", ctx.lean(Sym("unique_nan_internal"), rows), impl)
    nn = sum(1 for r in rows if r[0] < 0)
    if nn >= 2:
        ctx.branch("unique_nan_internal:several-nan-rows-merged")
    elif nn == 1:
        ctx.branch("unique_nan_internal:one-nan-row")
    if nn == len(rows):
        ctx.branch("unique_nan_internal:only-nan")


def case_unique_nan(ctx, inp):
    import numpy as np
    import dask.array as da
    setup_dask()
    xs, cs = inp["x"], inp["chunks"]
    x = _farr(xs)
    d = da.from_array(x, chunks=(tuple(cs),))
    inv = bool(inp.get("return_inverse"))
    kw = dict(return_index=True, return_counts=True)
    if inv:
        kw["return_inverse"] = True
    e = np.unique(x, **kw)
    r = da.unique(d, **kw)
    g = [np.asarray(t.compute(scheduler="sync")) for t in r]
    names = ["values", "index"] + (["inverse"] if inv else []) + ["counts"]
    ok = True
    for nm, gg, ee in zip(names, g, e):
        if gg.shape != ee.shape or not np.array_equal(gg, ee, equal_nan=gg.dtype.kind == "f"):
            ctx.fail(f"unique {nm} (float array containing NaN): differs from NumPy", observed=[_enc(v) for v in gg.ravel()],
                     expected=[_enc(v) for v in ee.ravel()])
            ok = False
    blocks, i = [], 0
    for c in cs:
        blocks.append(list(xs[i:i + c]))
        i += c
    m = ctx.lean(Sym("unique_nan"), blocks)
    ctx.eq("unique (NaN): Lean per-chunk + merge = _unique_internal on the whole array", m[0], m[1])
    ctx.eq("unique (NaN): Lean _unique_internal on the whole array = np.unique's terms (first index, multiplicity)", m[1], m[2])
    if ok:
        ctx.eq("unique (NaN): Lean vs dask (value, first index, count)", m[0],
               [[_enc(a), int(b), int(c)] for a, b, c in zip(g[0], g[1], g[-1])])
        if inv:
            ctx.eq("unique(return_inverse) (NaN): Lean matches formula vs dask", ctx.lean(Sym("unique_nan_inverse"), list(xs)),
                   [int(v) for v in g[2].ravel()])
            ctx.branch("unique_nan:inverse")
    nan = [v < 0 for v in xs]
    if not any(nan):
        ctx.branch("unique_nan:no-nan")
    else:
        ctx.branch("unique_nan:nan")
    pos = 0
    for k, c in enumerate(cs):
        if c == 0:
            ctx.branch("unique_nan:empty-chunk")
        elif all(nan[pos:pos + c]):
            ctx.branch("unique_nan:all-nan-chunk")
        if 0 < pos < len(xs) and c and nan[pos - 1] and nan[pos]:
            ctx.branch("unique_nan:nan-run-straddles-a-chunk-boundary")
        pos += c
    if sum(1 for b in blocks if any(v < 0 for v in b)) >= 2:
        ctx.branch("unique_nan:nan-in-several-chunks")


CASES = {"unique_nan_internal": case_unique_nan_internal, "unique_nan": case_unique_nan}


def gen_explicit():
    yield "unique_nan", {"x": [-1], "chunks": [1]}
    yield "unique_nan", {"x": [-1, -1, -1], "chunks": [1, 0, 2], "return_inverse": True}
    yield "unique_nan", {"x": [3, -1, -1, 1, -1, 3], "chunks": [2, 2, 0, 1, 1], "return_inverse": True}
    yield "unique_nan", {"x": [], "chunks": [0]}
    yield "unique_nan_internal", {"rows": [[-1, 5, 2], [2, 1, 1], [-1, 3, 1]]}


def gen_internal(ctx, count):
    rng = random.Random(f"C27xnan-internal-{ctx.seed}")
    for _ in range(count):
        k = rng.randint(1, 12)
        pn = rng.choice([0.0, 0.2, 0.5, 1.0])
        yield "unique_nan_internal", {"rows": [[-1 if rng.random() < pn else rng.randint(0, 4), rng.randint(0, 40),
                                                 rng.randint(1, 4)] for _ in range(k)]}


def gen_api(ctx, count):
    rng = random.Random(f"C27xnan-api-{ctx.seed}")
    for _ in range(count):
        n = rng.randint(1, 14)
        hi = rng.choice([1, 3, 8])
        mode = rng.random()
        if mode < 0.45:          # runs of NaN / of equal numbers, so that they straddle chunk boundaries
            x = []
            while len(x) < n:
                v = -1 if rng.random() < 0.45 else rng.randint(0, hi)
                x += [v] * rng.randint(1, 4)
            x = x[:n]
        elif mode < 0.9:
            pn = rng.choice([0.1, 0.3, 0.6])
            x = [-1 if rng.random() < pn else rng.randint(0, hi) for _ in range(n)]
        else:
            x = [rng.randint(0, hi) for _ in range(n)]
        cs = rand_comp_zeros(rng, n) if rng.random() < 0.3 else rand_comp(rng, n)
        inp = {"x": x, "chunks": list(cs)}
        if rng.random() < 0.4:
            inp["return_inverse"] = True
        yield "unique_nan", inp
