"""C38 extension round — nunique / idxmin, idxmax / cumulative family on the keyed-partial model, NaN keys with dropna.

Model:    lean/DaskModel/Model/GroupbyX.lean (on top of Model/Groupby.lean)
Theorems: lean/DaskModel/Props/C38xKeyed.lean
Sections (all dataframe access through core.import_dd(), via _dfpart_util):
  kx_cum      function level: the REAL carry tables `(cum-last…, i)` and the REAL `cum_last` table of every partition,
              computed out of the lowered graph of `GroupByCumulativeFinalizer`, vs `cumCarryD` / `cumLastD`; the `dropna`
              that reaches the chunk site and the carry site is OBSERVED on the real expression (two MapPartitions kwargs)
              and fed to the model as two flags; clause oracle of `cum_carry_is_running_value` on the real tables (pandas on
              the prefix of the frame); API level: dask vs `cumDaskD`, pandas vs `cumRawD`, dask vs pandas.
  kx_nunique  function level: the real `NUnique.chunk` / `nunique_df_combine` / `nunique_df_aggregate` with the REAL kwargs
              of the expression, wired as `TreeReduce` wires them (partition_all tree), vs `nuniqueD`; API level: dask vs
              `nuniqueD`, pandas vs `nuniqueSpecD`, dask vs pandas; dropna in {None, True, False}.
  kx_idx      function level: the real chunk (`idxmin`/`idxmax` of every partition) vs the label of the model's chunk state;
              the repaired merge replayed on the REAL chunk outputs ((value, position) partials, lexicographic merge) vs
              pandas; API level: `idxRepaired` over the partitioning = over the whole frame = pandas (first occurrence).
"""
from __future__ import annotations

from sexp import Sym

from props import _dfpart_util as U

NONE = Sym("none")
CUM = {"cumsum": ("sum", 0), "cumprod": ("prod", 1), "cumcount": ("count", -1)}


def _close(x, y):
    if x is None or y is None:
        return x is y
    x, y = float(x), float(y)
    if x != x or y != y:
        return x != x and y != y
    return abs(x - y) <= 1e-9 * max(1.0, abs(y))


def _mkdf(inp):
    """key 0 is the NaN key"""
    import numpy as np
    import pandas as pd
    n = len(inp["c"])
    return pd.DataFrame({
        "c": [np.nan if k == 0 else float(k) for k in inp["c"]],
        "a": [np.nan if v is None else float(v) for v in inp["a"]],
    }, index=pd.Index(inp.get("index") or list(range(n)), dtype="int64"))


def _gid(k):
    """encoded group id of a key label: 0 = NaN, k + 1 = key k (Model/GroupbyX.encK)"""
    return 0 if k != k else int(k) + 1


def _lean_parts(inp):
    return [[[NONE if k == 0 else int(k), NONE if v is None else int(v)] for k, v in zip(inp["c"][a:b], inp["a"][a:b])]
            for a, b in zip(inp["cuts"], inp["cuts"][1:])]


def _gkw(inp):
    return {} if inp.get("dropna") is None else {"dropna": inp["dropna"]}


def _site_flag(kwargs):
    """the dropna a `_apply_chunk` site passes to pandas' groupby (absent = pandas' default True; None is falsy)"""
    return True if "dropna" not in kwargs else bool(kwargs["dropna"])


def _table(t):
    """a real carry / cum_last table as {encoded group id: value | None}"""
    s = t.iloc[:, 0] if t.ndim == 2 else t
    return {_gid(k): (None if v != v else float(v)) for k, v in s.items()}


def _cells(x):
    return [None if v != v else float(v) for v in x.sort_index(kind="stable").tolist()]


def _same_cells(model, real):
    return len(model) == len(real) and all((m is None) == (r is None) and (r is None or _close(m, r)) for m, r in zip(model, real))


def case_kx_cum(ctx, inp):
    import dask
    U.dd()                                           # core.import_dd(): the only way dask.dataframe imports here
    from dask.dataframe.dask_expr._groupby import GroupByCumulativeFinalizer
    df = _mkdf(inp)
    cuts = inp["cuts"]
    n = len(cuts) - 1
    d = U.frame_from_cuts(df, cuts)
    op = inp["op"]
    name, initial = CUM[op]
    gkw = _gkw(inp)
    want = True if inp.get("dropna") is None else bool(inp["dropna"])
    exp = getattr(df.groupby("c", **gkw).a, op)()
    try:
        x = getattr(d.groupby("c", **gkw).a, op)()
        e = x.expr.lower_completely()
        fins = [node for node in e.walk() if isinstance(node, GroupByCumulativeFinalizer)]
        if len(fins) != 1 or fins[0].frame.npartitions != n:
            ctx.disagree("groupby cumulative lowers to one GroupByCumulativeFinalizer over the frame", [1, n],
                         [len(fins), fins[0].frame.npartitions if fins else None])
            return
        fin = fins[0]
        d_raw = _site_flag(fin.cum_raw.operand("kwargs"))
        d_last = _site_flag(fin.cum_last.operand("kwargs"))
        g = e.__dask_graph__()
        cname = "cum-last" + fin._name
        ckeys = [(cname, i) for i in range(1, n)]
        missing = [k for k in ckeys if k not in g]
        if missing or any(isinstance(k, tuple) and k[0] == cname and k not in ckeys for k in g):
            ctx.disagree("carry tasks (cum-last…, i) of the graph: i = 1 … npartitions-1", [k[1] for k in ckeys],
                         sorted(k[1] for k in g if isinstance(k, tuple) and k[0] == cname))
            return
        with dask.config.set(scheduler="sync"):
            res = dask.get(g, ckeys + [(fin.cum_last._name, i) for i in range(n)])
            got = x.compute()
        carries, lasts = res[:n - 1], res[n - 1:]
    except Exception as ex:  # noqa: BLE001
        ctx.fail(f"groupby {op} raised: " + U.exc_name(ex), observed=U.exc_name(ex))
        return
    parts = _lean_parts(inp)
    dask_cells, global_cells, mcarry = ctx.lean(Sym("groupby-cumx"), Sym(name), d_raw, d_last, parts)
    # ---- function level: carry tables ---------------------------------------------------------------------------------
    if len(mcarry) != len(carries):
        ctx.disagree(f"{op}: number of carry tables", len(mcarry), len(carries))
    for i, (mt, rt) in enumerate(zip(mcarry, carries), start=1):
        real = _table(rt)
        model = {r[0]: r[1] for r in mt}
        bad = [k for k in set(model) | set(real)
               if not _close(initial if model.get(k) is None else model[k], initial if real.get(k) is None else real[k])
               or (model.get(k) is not None and k not in real)]
        if bad:
            ctx.disagree(f"{op}: carry table (cum-last, {i}) from the graph vs cumCarryD [dropna chunk={d_raw} carry={d_last}]",
                         sorted(model.items()), sorted(real.items()))
        # clause oracle (cum_carry_is_running_value): the table is the last running value of every group over partitions < i
        pre = df.iloc[:cuts[i]]
        run = getattr(pre.groupby("c", **gkw).a, op)()
        truth = {}
        for k, v in zip(pre["c"].tolist(), run.tolist()):
            if v == v:
                truth[_gid(k)] = float(v)
        for k in set(truth) | set(real):
            if not _close(truth.get(k, initial), initial if real.get(k) is None else real[k]):
                ctx.fail(f"groupby {op}: the carried value that enters partition {i} is not the group's last running value "
                         f"over the earlier partitions (group id {k}, 0 = NaN key)",
                         observed=sorted(real.items()), expected=sorted(truth.items()))
                break
    # ---- function level: cum_last of every partition ------------------------------------------------------------------
    for i, lt in enumerate(lasts):
        real = _table(lt)
        model = {r[0]: r[1] for r in ctx.lean(Sym("cum-lastx"), Sym(name), d_raw, d_last, parts[i])}
        present = {k for k, v in model.items() if v is not None}
        if present - set(real) or any(not _close(model.get(k), real[k]) for k in real):
            ctx.disagree(f"{op}: cum_last of partition {i} vs cumLastD [dropna chunk={d_raw} carry={d_last}]",
                         sorted(model.items()), sorted(real.items()))
    # ---- API level ------------------------------------------------------------------------------------------------------
    if not _same_cells(dask_cells, _cells(got)):
        ctx.disagree(f"{op}: cumDaskD vs dask [dropna chunk={d_raw} carry={d_last}]", dask_cells, _cells(got))
    if d_raw == want and not _same_cells(global_cells, _cells(exp)):
        ctx.disagree(f"{op}: cumRawD (whole frame, dropna={want}) vs pandas", global_cells, _cells(exp))
    why = U.same_pandas(got, exp, names=False)
    if why:
        ctx.fail(f"groupby('c', dropna={inp.get('dropna')}).a.{op}() differs from pandas: {why}",
                 observed=_cells(got), expected=_cells(exp))
    if (d_raw, d_last) != (want, want):
        ctx.fail(f"groupby {op}: dropna={inp.get('dropna')} reaches the chunk site as {d_raw} and the carry site as {d_last}",
                 observed=[d_raw, d_last], expected=[want, want])
    # ---- coverage ---------------------------------------------------------------------------------------------------------
    ctx.branch(f"kx-{op}-dropna={inp.get('dropna')}")
    nan_parts = [i for i in range(n) if 0 in inp["c"][cuts[i]:cuts[i + 1]]]
    if len(nan_parts) > 1:
        ctx.branch(f"kx-cum-NaN-key-group-spans-partitions-dropna={want}")
        if nan_parts[-1] - nan_parts[0] >= len(nan_parts):
            ctx.branch("kx-cum-NaN-key-group-absent-from-a-middle-partition")
    groups = set(inp["c"]) - {0}
    for gk in groups:
        ps = [i for i in range(n) if gk in inp["c"][cuts[i]:cuts[i + 1]]]
        if len(ps) > 1 and ps[-1] - ps[0] >= len(ps):
            ctx.branch("kx-cum-group-absent-from-a-middle-partition")
            break
    if n > 2:
        ctx.branch("kx-cum-carry-through-_cum_agg_filled")
    if carries and any(v is None for v in _table(carries[0]).values()):
        ctx.branch("kx-cum-carried-table-holds-NA")
    if any(a == b for a, b in zip(cuts, cuts[1:])):
        ctx.branch("kx-cum-empty-partition")


def _partition_all(k, xs):
    return [xs[i:i + k] for i in range(0, len(xs), k)]


def case_kx_nunique(ctx, inp):
    import dask
    U.dd()
    from dask.dataframe.dask_expr._groupby import NUnique, nunique_df_aggregate, nunique_df_combine
    df = _mkdf(inp)
    cuts = inp["cuts"]
    d = U.frame_from_cuts(df, cuts)
    gkw = _gkw(inp)
    want = True if inp.get("dropna") is None else bool(inp["dropna"])
    kw = {}
    if inp.get("split_every") is not None:
        kw["split_every"] = inp["split_every"]
    if inp.get("split_out") is not None:
        kw["split_out"] = inp["split_out"]
    se = inp.get("split_every") or 8
    exp = df.groupby("c", **gkw).a.nunique()
    try:
        x = d.groupby("c", **gkw).a.nunique(**kw)
        ex = x.expr
        with dask.config.set(scheduler="sync"):
            got = x.compute()
        # the three real functions with the REAL kwargs of the expression, wired as TreeReduce wires them
        hand = None
        if isinstance(ex, NUnique):
            ps = [NUnique.chunk(df.iloc[a:b], "c", **dict(ex.chunk_kwargs)) for a, b in zip(cuts, cuts[1:])]
            while len(ps) > se:
                ps = [nunique_df_combine(batch, **dict(ex.combine_kwargs)) for batch in _partition_all(se, ps)]
            hand = nunique_df_aggregate(ps, **dict(ex.aggregate_kwargs))
    except Exception as e:  # noqa: BLE001
        ctx.fail("groupby nunique raised: " + U.exc_name(e), observed=U.exc_name(e))
        return
    rows = ctx.lean(Sym("groupby-nuniquex"), want, se, _lean_parts(inp))
    model = {r[0]: r[1] for r in rows if r[1] is not None}
    spec = {r[0]: r[2] for r in rows if r[2] is not None}

    def tab(s):
        return {_gid(k): int(v) for k, v in s.items()}
    ctx.eq(f"nunique(dropna={want}): nuniqueD (tree) vs nuniqueSpecD (whole frame)", spec, model)
    ctx.eq(f"nunique(dropna={want}): nuniqueSpecD vs pandas", spec, tab(exp))
    ctx.eq(f"nunique(dropna={want}): nuniqueD vs dask", model, tab(got))
    if hand is not None:
        ctx.eq(f"nunique(dropna={want}): nuniqueD vs NUnique.chunk / nunique_df_combine / nunique_df_aggregate wired as a "
               f"split_every={se} tree with the expression's kwargs", model, tab(hand))
        ctx.branch("kx-nunique-real-functions-hand-wired" + ("-inner-levels" if len(cuts) - 1 > se else ""))
    why = U.same_pandas(got, exp, names=False)
    if why:
        ctx.fail(f"groupby('c', dropna={inp.get('dropna')}).a.nunique() differs from pandas: {why}",
                 observed=sorted(tab(got).items()), expected=sorted(tab(exp).items()))
    ctx.branch(f"kx-nunique-dropna={inp.get('dropna')}")
    if 0 in inp["c"]:
        ctx.branch(f"kx-nunique-NaN-key-group-{'dropped' if want else 'kept'}")
        if sum(1 for a, b in zip(cuts, cuts[1:]) if 0 in inp["c"][a:b]) > 1:
            ctx.branch("kx-nunique-NaN-key-group-spans-partitions")


def case_kx_idx(ctx, inp):
    U.dd()
    from dask.dataframe.dask_expr import _groupby as G
    df = _mkdf(inp)
    df["c"] = [int(k) for k in inp["c"]]          # int keys (no NaN key here)
    cuts = inp["cuts"]
    fn = inp["fn"]                                  # idxmin | idxmax
    real_chunk = {"idxmin": G.IdxMin, "idxmax": G.IdxMax}[fn].groupby_chunk     # what GroupByChunk applies per partition
    how = fn[3:]
    sign = 1 if how == "min" else -1
    se = inp.get("split_every") or 8

    def lean_rows(a, b):
        return [[int(k), NONE if v is None else int(v), int(lab)]
                for k, v, lab in zip(inp["c"][a:b], inp["a"][a:b], df.index[a:b])]
    parts = [lean_rows(a, b) for a, b in zip(cuts, cuts[1:])]
    rows = ctx.lean(Sym("groupby-idxlex"), Sym(how), se, parts)
    tree = {r[0]: r[1] for r in rows if r[1] is not None}
    whole = {r[0]: r[2] for r in rows if r[2] is not None}
    ctx.eq(f"{fn}: idxRepaired over the partitioning vs over the whole frame", whole, tree)
    valued = df[df["a"].notna()]
    exp = getattr(valued.groupby("c").a, fn)() if len(valued) else {}
    ctx.eq(f"{fn}: idxRepaired vs pandas (label of the first occurrence of the extreme value)", tree,
           {int(k): int(v) for k, v in exp.items()})
    # function level: the real chunk (M.idxmin / M.idxmax on the groups of ONE partition) vs the model's chunk state
    partials = {}
    for i, (a, b) in enumerate(zip(cuts, cuts[1:])):
        part = df.iloc[a:b]
        part = part[part["a"].notna()]             # (a group all-NA inside a partition: known finding SIG_IDX_NA)
        real = {int(k): int(v) for k, v in real_chunk(part.groupby("c").a).items()} if len(part) else {}
        one = ctx.lean(Sym("groupby-idxlex"), Sym(how), se, [parts[i]])
        ctx.eq(f"{fn}: label of the chunk of partition {i}: real chunk vs model", {r[0]: r[1] for r in one if r[1] is not None}, real)
        for k, lab in real.items():
            pos = a + list(df.index[a:b]).index(lab)
            partials.setdefault(k, []).append((sign * float(df["a"].iloc[pos]), pos))
    # the repaired merge replayed on the real chunk outputs
    merged = {k: int(df.index[min(v)[1]]) for k, v in partials.items()}
    ctx.eq(f"{fn}: lexicographic merge of the real chunk outputs vs pandas", {int(k): int(v) for k, v in exp.items()}, merged)
    ctx.branch(f"kx-{fn}")
    if any(len(v) > 1 for v in partials.values()):
        ctx.branch(f"kx-{fn}-group-spans-partitions")
    if any(len(v) > 1 and v[0] != min(v) for v in partials.values()):
        ctx.branch(f"kx-{fn}-first-partial-is-not-the-extremum")
    if any(len({x[0] for x in v}) < len(v) for v in partials.values()):
        ctx.branch(f"kx-{fn}-tie-across-partitions")


CASES = {"kx_cum": case_kx_cum, "kx_nunique": case_kx_nunique, "kx_idx": case_kx_idx}


def _frame(rng, nkeys, p_na=0.2, nmax=24):
    n = rng.randint(1, nmax)
    return {"c": [rng.randint(0, nkeys) for _ in range(n)],
            "a": [None if rng.random() < p_na else rng.randint(-3, 6) for _ in range(n)]}


def directed(ctx):
    """no randomness: NaN-key group carried over an empty partition and a partition without it; one group entirely NA"""
    for op in ("cumsum", "cumprod", "cumcount"):
        for dropna in (False, True, None):
            yield "kx_cum", {"c": [0, 1, 0, 2, 1, 0, 2, 0], "a": [1, 2, 3, None, 5, 6, 7, 8], "cuts": [0, 2, 3, 3, 6, 8],
                             "op": op, "dropna": dropna}
    yield "kx_cum", {"c": [0, 0], "a": [1, 2], "cuts": [0, 1, 2], "op": "cumsum", "dropna": False}
    for op in ("cumsum", "cumprod", "cumcount"):
        # the first carry table is the raw cum_last: a group that is all-NA in partition 0 is carried as NaN (= initial)
        yield "kx_cum", {"c": [1, 0, 1, 0, 1], "a": [None, None, 5, 2, 3], "cuts": [0, 2, 4, 5], "op": op, "dropna": False}
    for dropna in (False, True, None):
        yield "kx_nunique", {"c": [0, 1, 0, 1, 0, 2, 0], "a": [1, 2, 3, 2, 1, None, None], "cuts": [0, 2, 3, 5, 7],
                             "dropna": dropna, "split_every": 2, "split_out": 1}
    for fn in ("idxmin", "idxmax"):
        yield "kx_idx", {"c": [0, 0, 1, 0], "a": [5, 1, 0, 1], "cuts": [0, 1, 3, 4], "fn": fn, "split_every": 2}
        yield "kx_idx", {"c": [0, 0, 0], "a": [1, 5, 5], "cuts": [0, 1, 2, 3], "fn": fn, "split_every": 2, "index": [7, 3, 9]}
        yield "kx_idx", {"c": [0, 0, 0, 0, 0], "a": [2, 1, 3, 1, 3], "cuts": [0, 3, 5], "fn": fn, "split_every": 2}


def generate(ctx):
    """random stream (consumes ctx.rng: c38.generate runs it after every older stream)"""
    rng = ctx.rng
    for _ in range(ctx.n(45, 500)):
        inp = _frame(rng, rng.choice([1, 2, 3]), p_na=rng.choice([0.1, 0.2, 0.5]))
        inp["cuts"] = U.rand_cuts(rng, len(inp["c"]), maxparts=rng.choice([2, 4, 6]), p_empty=0.3)
        inp["op"] = rng.choice(["cumsum", "cumprod", "cumcount"])
        inp["dropna"] = rng.choice([False, False, True, None])
        yield "kx_cum", inp
    for _ in range(ctx.n(30, 400)):
        inp = _frame(rng, rng.choice([1, 2, 4]), p_na=0.25)
        inp["cuts"] = U.rand_cuts(rng, len(inp["c"]), maxparts=rng.choice([2, 4, 7]), p_empty=0.3)
        inp["dropna"] = rng.choice([False, False, True, None])
        inp["split_every"] = rng.choice([None, 2, 2, 3])
        inp["split_out"] = rng.choice([None, 1, 1, 2])
        yield "kx_nunique", inp
    for _ in range(ctx.n(30, 400)):
        inp = _frame(rng, rng.choice([0, 1, 3]), p_na=0.2)
        inp["a"] = [None if v is None else rng.randint(0, 3) for v in inp["a"]]      # many ties
        inp["cuts"] = U.rand_cuts(rng, len(inp["c"]), maxparts=rng.choice([2, 4, 7]), p_empty=0.3)
        inp["fn"] = rng.choice(["idxmin", "idxmax"])
        inp["split_every"] = rng.choice([None, 2, 3])
        if rng.random() < 0.5:
            lab = list(range(100, 100 + len(inp["c"])))
            rng.shuffle(lab)
            inp["index"] = lab
        yield "kx_idx", inp
