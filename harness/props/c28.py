"""C28 — random arrays: reproducible when seeded, independent when not (PARTIAL: keys/seeds logic).

Model:    lean/DaskModel/Model/RandomKeys.lean (SeedSequence.spawn bookkeeping, one child per block in C order,
          names as a function of (funcname, child seeds, params); RandomState windows; the choice guard)
Theorems: lean/DaskModel/Props/C28.lean
Tie:      function level — the SeedSequence of every block task of real Generator constructions (spawn_key,
          entropy, n_children_spawned) vs `runCalls`; RandomState per-block state arrays vs the windows the model
          assigns in one reference MT19937 byte stream; `_choice_validate_params` guard vs `choiceGuard`.
          History level (section hist) — ONE Generator / RandomState object used for a whole history of calls (nearly
          every distribution method, choice with/without p and replacement, permutation), identical calls repeated
          2–3 times in a row: per-block spawn keys, "which arrays share a name", the spawn counter and the number of
          direct draws from the generator's own bit generator vs `runHist`/`histRS`; names pairwise distinct, output
          keys disjoint, dask.compute(all) = each compute(), a-b in one graph, successive draws differ, seeded
          histories reproducible.  Section args — array-valued distribution parameters (NumPy / dask, broadcast,
          positional / keyword, size=None) with degenerate values: every block receives its own slice.
          API level — same seed ⇒ same names and identical values across recomputation, rebuilt graphs and
          schedulers (sync / threads / processes); unseeded pairs ⇒ distinct names, joint compute = separate
          computes, draws differ; choice(replace=False) ⇒ distinct elements of the population.
"""
from __future__ import annotations

import itertools
import math
import warnings

import numpy as np

from sexp import Sym
from props import _reduce_util as U

PROP = "C28"
READY = True
DRIVER = "dm_reduce"
LEAN_MODULES = ["DaskModel.Props.C28", "DaskModel.Props.C28xChoiceND"]
CASE_TIMEOUT_S = 40
LEVEL_TEXT = (
    "PARTIAL. Proved in Lean 4 for the seed/key logic of dask.array.random (no size bound): seed_formula (block b of "
    "the k-th construction gets the SeedSequence child spawn_key++[n0+Σ earlier blocks+b] — a function of the seed, "
    "the program and b only; seeded_reproducible is then immediate, the model being a function of the seed state — the content "
    "is seed_formula and its agreement with the real graphs), all_seeds_nodup (no two blocks of any constructions share a "
    "seed), same_generator_names_distinct and unseeded_names_distinct (separate constructions get distinct names, so "
    "each keeps its own draw when computed together), history_names_nodup / successive_identical_calls_distinct / "
    "rs_names_nodup (one generator object threaded through a whole history of calls incl. choice and interleaved "
    "permutations: all names pairwise distinct, in particular for identical successive calls), perm_positions_nodup, "
    "entropy_only_name_collides (refutation of naming by the children's entropy), rs_windows_nodup (RandomState windows), "
    "choice_no_replace_single_chunk (the guard makes multi-chunk replace=False unreachable), choice_nd_no_replace_single_block "
    "(n-d / 0-d size: an accepted replace=False call has exactly one block; old_guard_accepts_multi_block is the refutation of "
    "the first-axis-only guard, repaired in the repository). NOT expressible/proved: "
    "statistical independence of the streams; 'identical values on every scheduler' is reduced to 'identical graph' "
    "(+ C01) and validated by running sync/threads/processes; distinctness of NumPy's single-block choice is trusted. "
    "The history section reaches every public method of Generator and RandomState (incl. multivariate_hypergeometric, "
    "permutation, choice, and RandomState.seed as a replay); computed shape = declared shape = NumPy's shape is checked there."
)
LEVEL_NOTE = ("Trusted: NumPy bit generators and SeedSequence (child seeds ↦ independent streams), tokenize injective "
              "(C12), schedulers compute the graph (C01). Fresh OS entropy is modelled as a fresh entropy id.")
TECHNIQUE = "Lean 4 proof over the spawn/key bookkeeping + differential correspondence (graph seeds, names, values across schedulers)"
ASSUMPTIONS = ["SeedSequence(entropy, spawn_key) determines the stream; distinct (entropy, spawn_key) are treated as distinct streams",
               "tokenize is injective on the name components"]
TRUSTED = ["numpy.random (bit generators, SeedSequence, Generator.choice)"]

GEN_DISTS = {
    "random": {}, "normal": {"loc": 1.0, "scale": 2.0}, "uniform": {"low": -1.0, "high": 3.0}, "standard_normal": {},
    "integers": {"low": 0, "high": 1000}, "poisson": {"lam": 3.0}, "exponential": {"scale": 2.0}, "gamma": {"shape": 2.0},
    "binomial": {"n": 10, "p": 0.3}, "beta": {"a": 2.0, "b": 3.0},
    # the same method with a dtype / endpoint keyword ("_m" = the method name)
    "random:f4": {"_m": "random", "dtype": "float32"},
    "integers:i4": {"_m": "integers", "low": -5, "high": 1000, "dtype": "int32", "endpoint": True},
    "integers:u1": {"_m": "integers", "low": 0, "high": 200, "dtype": "uint8"},
    "standard_normal:f4": {"_m": "standard_normal", "dtype": "float32"},
}
RS_DISTS = {
    "random_sample": {}, "normal": {"loc": 1.0, "scale": 2.0}, "uniform": {"low": -1.0, "high": 3.0}, "standard_normal": {},
    "randint": {"low": 0, "high": 1000}, "poisson": {"lam": 3.0}, "exponential": {"scale": 2.0}, "binomial": {"n": 10, "p": 0.3},
    "randint:i4": {"_m": "randint", "low": -5, "high": 1000, "dtype": "int32"},
}

# the history section uses (nearly) every distribution method of both APIs
GEN_ALL = dict(GEN_DISTS)
GEN_ALL.update({
    "chisquare": {"df": 3.0}, "geometric": {"p": 0.3}, "gumbel": {"loc": 0.5, "scale": 2.0}, "laplace": {"loc": 0.0, "scale": 1.5},
    "logistic": {"loc": 0.0, "scale": 1.5}, "lognormal": {"mean": 0.0, "sigma": 0.5}, "pareto": {"a": 2.5}, "power": {"a": 2.5},
    "rayleigh": {"scale": 1.5}, "standard_cauchy": {}, "standard_exponential": {}, "standard_gamma": {"shape": 2.0},
    "standard_t": {"df": 4.0}, "triangular": {"left": 0.0, "mode": 1.0, "right": 3.0}, "vonmises": {"mu": 0.0, "kappa": 1.0},
    "wald": {"mean": 1.0, "scale": 2.0}, "weibull": {"a": 1.5}, "zipf": {"a": 2.5}, "negative_binomial": {"n": 5, "p": 0.4},
    "noncentral_chisquare": {"df": 3.0, "nonc": 1.0}, "f": {"dfnum": 3.0, "dfden": 5.0},
    "noncentral_f": {"dfnum": 3.0, "dfden": 5.0, "nonc": 1.0}, "hypergeometric": {"ngood": 50, "nbad": 60, "nsample": 40},
    "logseries": {"p": 0.6}, "multinomial": {"n": 50, "pvals": [0.2, 0.3, 0.5]},
})
GEN_ONLY = {"multivariate_hypergeometric": {"colors": [10, 20, 30], "nsample": 12}}
RS_ALL = dict(RS_DISTS)
RS_ALL.update({k: v for k, v in GEN_ALL.items() if k not in ("random", "integers") and ":" not in k})
RS_ALL.update({"random_integers": {"low": 0, "high": 1000}, "tomaxint": {}})
GEN_ALL.update(GEN_ONLY)
# methods whose single draw is (practically) never repeated: two successive draws of >= 6 values must differ
RICH = {"random:f4", "integers:i4", "standard_normal:f4", "randint:i4", "random", "random_sample", "normal", "uniform", "standard_normal", "integers", "randint", "exponential", "gamma", "beta",
        "chisquare", "gumbel", "laplace", "logistic", "lognormal", "pareto", "power", "rayleigh", "standard_cauchy",
        "standard_exponential", "standard_gamma", "standard_t", "triangular", "vonmises", "wald", "weibull",
        "noncentral_chisquare", "f", "noncentral_f", "random_integers", "tomaxint"}


def _da():
    import dask
    import dask.array as da
    dask.config.set(scheduler="sync")
    return da


def make(rng, api, dist, size, chunks):
    kw = dict((GEN_ALL if api == "gen" else RS_ALL)[dist])
    return getattr(rng, kw.pop("_m", dist))(size=tuple(size), chunks=tuple(tuple(c) for c in chunks), **kw)


def numpy_dtype(api, dist):
    """dtype NumPy itself returns for the same method and keywords"""
    kw = dict((GEN_ALL if api == "gen" else RS_ALL)[dist])
    m = kw.pop("_m", dist)
    ref = np.random.default_rng(0) if api == "gen" else np.random.RandomState(0)
    return np.asarray(getattr(ref, m)(size=(2,), **kw)).dtype


def new_rng(da, api, seed):
    return da.random.default_rng(seed) if api == "gen" else da.random.RandomState(seed)


def block_tasks(arr):
    layer = dict(arr.dask.layers[arr.name])
    keys = [k for k in layer if isinstance(k, tuple) and k[0] == arr.name]
    return [layer[k] for k in sorted(keys, key=lambda k: k[1:])]


def case_gen_calls(ctx, inp):
    """Function level: SeedSequence of every block vs the model's spawn bookkeeping."""
    da = _da()
    seed, calls = inp["seed"], inp["calls"]
    rng = da.random.default_rng(seed)
    ss0 = rng._bit_generator._seed_seq
    if inp.get("prespawn"):
        ss0.spawn(inp["prespawn"])
    key0, n0 = list(ss0.spawn_key), ss0.n_children_spawned
    impl, names = [], []
    for c in calls:
        arr = make(rng, "gen", c["dist"], c["size"], c["chunks"])
        seeds = []
        for t in block_tasks(arr):
            ss = t.args[2]
            if ss.entropy != ss0.entropy:
                ctx.fail("a block seed has a different entropy than its generator", observed=str(ss.entropy))
            seeds.append(list(ss.spawn_key))
        impl.append(seeds)
        names.append(arr.name)
    nbs = [math.prod(len(ch) for ch in c["chunks"]) for c in calls]
    model = ctx.lean(Sym("rngcalls"), key0, n0, nbs)
    ctx.eq("per-block spawn keys of successive constructions", model[0], impl)
    ctx.eq("n_children_spawned after the program", model[1], ss0.n_children_spawned)
    flat = [tuple(k) for s in impl for k in s]
    if len(set(flat)) != len(flat):
        ctx.fail("two blocks share a SeedSequence", observed=impl)
    if len(set(names)) != len(names):
        ctx.fail("two constructions from one generator share a name", observed=names)
    # rebuilt from the same seed: identical names
    rng2 = da.random.default_rng(seed)
    if inp.get("prespawn"):
        rng2._bit_generator._seed_seq.spawn(inp["prespawn"])
    names2 = [make(rng2, "gen", c["dist"], c["size"], c["chunks"]).name for c in calls]
    if names2 != names:
        ctx.fail("same seed and same program give different array names", observed=[names, names2])
    if len(calls) > 1:
        ctx.branch("several constructions")
    if any(nb > 1 for nb in nbs):
        ctx.branch("multi-block")
    if inp.get("prespawn"):
        ctx.branch("generator already spawned")
    if any(len(c["size"]) == 0 for c in calls):
        ctx.branch("0-d")


def case_rs_calls(ctx, inp):
    da = _da()
    seed, calls = inp["seed"], inp["calls"]
    rs = da.random.RandomState(seed)
    nbs = [math.prod(len(ch) for ch in c["chunks"]) for c in calls]
    model = ctx.lean(Sym("rscalls"), 0, nbs)
    total = sum(nbs)
    ref = np.frombuffer(np.random.RandomState(seed).bytes(624 * total * 4), dtype="<u4").reshape((total, -1)) if total else None
    names = []
    for c, wins in zip(calls, model[0]):
        arr = make(rs, "rs", c["dist"], c["size"], c["chunks"])
        names.append(arr.name)
        tasks = block_tasks(arr)
        if len(tasks) != len(wins):
            ctx.disagree("number of block tasks", len(wins), len(tasks))
            continue
        for t, w in zip(tasks, wins):
            if not np.array_equal(t.args[2], ref[w]):
                ctx.disagree("RandomState block state is not the window the model assigns", w, None)
                break
    if len(set(names)) != len(names):
        ctx.fail("two constructions from one RandomState share a name", observed=names)
    rs2 = da.random.RandomState(seed)
    names2 = [make(rs2, "rs", c["dist"], c["size"], c["chunks"]).name for c in calls]
    if names2 != names:
        ctx.fail("same seed and same program give different names (RandomState)", observed=[names, names2])
    if any(nb > 1 for nb in nbs):
        ctx.branch("multi-block")
    if len(calls) > 1:
        ctx.branch("several constructions")


def _compute(x, sched):
    import dask
    if sched == "processes":
        with dask.config.set(scheduler="processes", num_workers=2):
            return x.compute()
    return x.compute(scheduler=sched)


def case_values(ctx, inp):
    """API level: same seed/shape/chunks ⇒ identical values on every scheduler and recomputation."""
    da = _da()
    api, seed, dist, size, chunks = inp["api"], inp["seed"], inp["dist"], inp["size"], inp["chunks"]
    x = make(new_rng(da, api, seed), api, dist, size, chunks)
    base = np.asarray(_compute(x, "sync"))
    if base.shape != tuple(size):
        ctx.fail("random array has the wrong shape", observed=list(base.shape), expected=size)
    want_dt = numpy_dtype(api, dist)
    if base.dtype != want_dt or x.dtype != want_dt:
        ctx.fail(f"{dist}: dtype differs from NumPy's for the same call", observed=[str(x.dtype), str(base.dtype)], expected=str(want_dt))
    if ":" in dist:
        ctx.branch("dtype keyword")
    again = np.asarray(_compute(x, "sync"))
    if not np.array_equal(base, again):
        ctx.fail("recomputation of the same random array gives different values", observed=again.tolist(), expected=base.tolist())
    for sched in inp["scheds"]:
        other = np.asarray(_compute(x, sched))
        if not np.array_equal(base, other):
            ctx.fail(f"scheduler {sched} gives different values than sync", observed=other.tolist(), expected=base.tolist())
        ctx.branch("sched=" + sched)
    y = make(new_rng(da, api, seed), api, dist, size, chunks)
    if y.name != x.name:
        ctx.fail("same seed, shape and chunks give different names", observed=[x.name, y.name])
    if not np.array_equal(base, np.asarray(_compute(y, "threads"))):
        ctx.fail("array rebuilt from the same seed computes different values")
    z = make(new_rng(da, api, seed + 1), api, dist, size, chunks)
    if z.name == x.name:
        ctx.fail("different seeds give the same name", observed=x.name)
    if inp.get("rechunk") and base.size:
        # a different chunking is a different array in general, but must still be reproducible
        w1 = make(new_rng(da, api, seed), api, dist, size, inp["rechunk"])
        w2 = make(new_rng(da, api, seed), api, dist, size, inp["rechunk"])
        if not np.array_equal(np.asarray(_compute(w1, "sync")), np.asarray(_compute(w2, "threads"))):
            ctx.fail("second chunking not reproducible")
    if math.prod(len(c) for c in chunks) > 1:
        ctx.branch("multi-block")
    ctx.branch(api)


def case_unseeded(ctx, inp):
    import dask
    da = _da()
    api, dist, size, chunks, how = inp["api"], inp["dist"], inp["size"], inp["chunks"], inp["how"]
    if how == "module":
        kw = dict(RS_DISTS[dist])
        f = getattr(da.random, kw.pop("_m", dist))
        a = f(size=tuple(size), chunks=tuple(tuple(c) for c in chunks), **kw)
        b = f(size=tuple(size), chunks=tuple(tuple(c) for c in chunks), **kw)
    elif how == "one-rng":
        rng = new_rng(da, api, None)
        a, b = make(rng, api, dist, size, chunks), make(rng, api, dist, size, chunks)
    else:
        a, b = make(new_rng(da, api, None), api, dist, size, chunks), make(new_rng(da, api, None), api, dist, size, chunks)
    if a.name == b.name:
        ctx.fail("two separately created unseeded random arrays share a name", observed=a.name)
    ka, kb = set(map(str, a.__dask_graph__().keys())), set(map(str, b.__dask_graph__().keys()))
    if ka & kb:
        ctx.fail("two unseeded random arrays share graph keys", observed=sorted(ka & kb)[:5])
    ra, rb = dask.compute(a, b, scheduler=inp["sched"])
    sa, sb = a.compute(scheduler="sync"), b.compute(scheduler="sync")
    if not (np.array_equal(ra, sa) and np.array_equal(rb, sb)):
        ctx.fail("computing two unseeded arrays together differs from computing them alone")
    if np.asarray(ra).size >= 6 and dist in ("random", "random_sample", "normal", "uniform", "standard_normal") and np.array_equal(ra, rb):
        ctx.fail("two unseeded arrays produced identical draws", observed=np.asarray(ra).tolist())
    ctx.branch(how)


def case_choice(ctx, inp):
    da = _da()
    api, seed, pop, size, chunks, replace = inp["api"], inp["seed"], inp["pop"], inp["size"], inp["chunks"], inp["replace"]
    rng = new_rng(da, api, seed)
    a = pop if isinstance(pop, int) else da.from_array(np.array(pop), chunks=max(1, len(pop) // 2))
    population = list(range(pop)) if isinstance(pop, int) else list(pop)
    nchunks = len(chunks)
    guard = ctx.lean(Sym("choiceguard"), bool(replace), nchunks)
    try:
        x = rng.choice(a, size=size, replace=replace, chunks=(tuple(chunks),))
        built = ["ok", len(x.chunks[0])]
    except NotImplementedError:
        built = ["raised"]
    ctx.eq("choice replace/chunks guard", guard, [Sym(built[0])] + built[1:])
    if built[0] == "raised":
        if replace or nchunks <= 1:
            ctx.fail("choice raised NotImplementedError outside the multi-chunk replace=False case")
        ctx.branch("multi-chunk replace=False rejected")
        return
    try:
        v = np.asarray(x.compute(scheduler="sync"))
    except ValueError as e:
        if not replace and size > len(population):
            ctx.branch("size > population raises")
            return
        ctx.fail(f"choice raised: {e}", observed=str(e))
        return
    if not replace and size > len(population):
        ctx.fail("choice without replacement returned more elements than the population", observed=v.tolist())
        return
    if v.shape != (size,):
        ctx.fail("choice: wrong shape", observed=list(v.shape))
    if not set(v.tolist()) <= set(population):
        ctx.fail("choice returned elements outside the population", observed=v.tolist())
    if not replace:
        if isinstance(pop, int) or len(set(population)) == len(population):
            if len(set(v.tolist())) != len(v):
                ctx.fail("choice(replace=False) returned a repeated element", observed=v.tolist())
        ctx.branch("replace=False")
        if size == len(population):
            ctx.branch("size == population")
            if sorted(v.tolist()) != sorted(population):
                ctx.fail("choice(replace=False, size=len(a)) is not a permutation of a", observed=v.tolist())
    v2 = np.asarray(new_rng(da, api, seed).choice(a, size=size, replace=replace, chunks=(tuple(chunks),)).compute(scheduler="threads"))
    if not np.array_equal(v, v2):
        ctx.fail("choice with the same seed is not reproducible", observed=[v.tolist(), v2.tolist()])
    # a second, identical call on the SAME generator is a separate draw: own name, own keys, own values
    if not (not replace and size > len(population)):
        y = rng.choice(a, size=size, replace=replace, chunks=(tuple(chunks),))
        if y.name == x.name:
            ctx.fail("two choice() calls on one generator share a name", observed=x.name)
        kx = set(k for k in x.__dask_graph__().keys() if isinstance(k, tuple) and k[0] == x.name)
        ky = set(k for k in y.__dask_graph__().keys() if isinstance(k, tuple) and k[0] == y.name)
        if kx & ky:
            ctx.fail("two choice() calls on one generator share output keys", observed=sorted(map(str, kx & ky))[:4])
        bad = U.joint_vs_solo([x, y])
        if bad:
            ctx.fail("computing two choice() draws together differs from computing them alone", observed=bad)
        if api == "gen":
            # function level: the per-block bit generators are consecutive children of the generator's SeedSequence
            def keys_of(arr):
                return [list(t.args[0]._seed_seq.spawn_key) for t in block_tasks(arr)]
            impl = [keys_of(x), keys_of(y)]
            model = ctx.lean(Sym("rngcalls"), [], 0, [len(impl[0]), len(impl[1])])
            ctx.eq("choice: per-block spawn keys of two successive calls", model[0], impl)
        ctx.branch("second call on the same generator")
    ctx.branch(api)


def case_perm(ctx, inp):
    da = _da()
    api, seed, n, chunks = inp["api"], inp["seed"], inp["n"], inp["chunks"]
    base = np.arange(n) * 3 - 5

    def build(rng):
        src = n if inp["from_int"] else da.from_array(base, chunks=(tuple(chunks),))
        return rng.permutation(src)

    rng = new_rng(da, api, seed)
    x = build(rng)
    v = np.asarray(x.compute(scheduler="sync"))
    want = np.arange(n) if inp["from_int"] else base
    if sorted(v.tolist()) != sorted(want.tolist()):
        ctx.fail("permutation is not a permutation of its input", observed=v.tolist(), expected=want.tolist())
    v2 = np.asarray(build(new_rng(da, api, seed)).compute(scheduler="threads"))
    if not np.array_equal(v, v2):
        ctx.fail("permutation with the same seed is not reproducible", observed=[v.tolist(), v2.tolist()])
    y = build(rng)
    bad = U.joint_vs_solo([x, y])
    if bad:
        ctx.fail("computing two permutations from one generator together differs from computing them alone", observed=bad)
    if y.name == x.name and not np.array_equal(v, np.asarray(y.compute(scheduler="sync"))):
        ctx.fail("two different permutations share a name", observed=x.name)
    ctx.branch("permutation-" + api)


def _hist_build(da, rng, api, op):
    k = op["kind"]
    if k == "dist":
        return make(rng, api, op["dist"], op["size"], op["chunks"])
    if k == "choice":
        pop = op["pop"]
        a = pop if isinstance(pop, int) else da.from_array(np.array(pop), chunks=max(1, len(pop) // 2))
        n = pop if isinstance(pop, int) else len(pop)
        p = None
        if op["p"]:
            w = np.arange(1, n + 1, dtype=float)
            p = w / w.sum()
        return rng.choice(a, size=op["size"], replace=op["replace"], p=p, chunks=(tuple(op["chunks"]),))
    src = op["n"] if op["from_int"] else da.from_array(np.arange(op["n"]) * 3 - 5, chunks=(tuple(op["chunks"]),))
    return rng.permutation(src)


def _op_ident(op):
    """(function id, parameter id) as the model sees them: equal for identical calls"""
    k = op["kind"]
    if k == "dist":
        return ("dist", op["dist"]), repr((op["size"], op["chunks"]))
    return ("choice",), repr((op["pop"], op["size"], op["chunks"], op["replace"], op["p"]))


def _rich(api, op, arr_size):
    k = op["kind"]
    if k == "dist":
        return op["dist"] in RICH and arr_size >= 6
    if k == "choice":
        n = op["pop"] if isinstance(op["pop"], int) else len(op["pop"])
        return n >= 9 and op["size"] >= 9
    return op["n"] >= 9


def case_hist(ctx, inp):
    """ONE Generator / RandomState object used for a whole history of calls, identical calls repeated in a row."""
    import dask
    da = _da()
    api, seed, ops = inp["api"], inp["seed"], inp["ops"]
    rng = new_rng(da, api, seed)
    steps = [op for op in ops for _ in range(op["reps"])]
    arrs = []
    bitstates = []   # the generator's own bit-generator state / spawn counter after every step
    init_state = repr(rng._bit_generator.state) if api == "gen" else None
    for op in steps:
        arrs.append(_hist_build(da, rng, api, op))
        if api == "gen":
            bitstates.append((repr(rng._bit_generator.state), rng._bit_generator._seed_seq.n_children_spawned))
    names = [a.name for a in arrs]
    idx_arr = [i for i, op in enumerate(steps) if op["kind"] != "perm"]
    # ---- names and seeds vs the Lean history model
    fids, pids, mops = {}, {}, []
    for op, a in zip(steps, arrs):
        if op["kind"] == "perm":
            mops.append(Sym("perm"))
        else:
            f, pr = _op_ident(op)
            nb = math.prod(len(c) for c in a.chunks)
            mops.append([fids.setdefault(f, len(fids)), nb, pids.setdefault(pr, len(pids))])
    impl_cls = [[names[j] for j in idx_arr].index(names[i]) for i in idx_arr]
    if api == "gen":
        model = ctx.lean(Sym("rnghist"), [], 0, 0, mops)
        impl_out = []
        for op, a in zip(steps, arrs):
            if op["kind"] == "perm":
                impl_out.append(None)
            else:
                pos = 2 if op["kind"] == "dist" else 0
                ss = [t.args[pos] for t in block_tasks(a)]
                ss = [x if isinstance(x, np.random.SeedSequence) else x._seed_seq for x in ss]
                if any(x.entropy != rng._bit_generator._seed_seq.entropy for x in ss):
                    ctx.fail("a block seed has a different entropy than its generator")
                impl_out.append([list(x.spawn_key) for x in ss])
        ctx.eq("history: per-block spawn keys", [m for m, o in zip(model[0], impl_out) if o is not None], [o for o in impl_out if o is not None])
        ctx.eq("history: which arrays share a name (index of the first array with the same name)", model[1], impl_cls)
        ctx.eq("history: n_children_spawned after the history", model[2], rng._bit_generator._seed_seq.n_children_spawned)
        # state threading: a call advances only the spawn counter, a permutation (n >= 2) only the bit generator itself
        if all(op["n"] >= 2 for op in steps if op["kind"] == "perm"):
            draws, prev = 0, init_state
            for op, st, m in zip(steps, bitstates, model[0]):
                if st[0] != prev:
                    draws += 1
                prev = st[0]
                if op["kind"] == "perm":
                    ctx.eq("history: stream position consumed by a permutation", m, [Sym("perm"), draws - 1])
            ctx.eq("history: direct draws from the generator's own bit generator", model[3], draws)
    else:
        calls = [m for m in mops if not isinstance(m, Sym)]
        model = ctx.lean(Sym("rshist"), 0, calls)
        ctx.eq("history: which arrays share a name (RandomState)", model[1], impl_cls)
        first_perm = next((i for i, op in enumerate(steps) if op["kind"] == "perm"), len(steps))
        if seed is not None:
            pre = [i for i in idx_arr if i < first_perm]
            total = sum(len(model[0][idx_arr.index(i)]) for i in pre)
            if total:
                ref = np.frombuffer(np.random.RandomState(seed).bytes(624 * total * 4), dtype="<u4").reshape((total, -1))
                for i in pre:
                    pos = 2 if steps[i]["kind"] == "dist" else 0
                    tasks = block_tasks(arrs[i])
                    wins = model[0][idx_arr.index(i)]
                    if len(tasks) != len(wins):
                        ctx.disagree("history: number of block tasks", len(wins), len(tasks))
                        continue
                    for t, w in zip(tasks, wins):
                        if not np.array_equal(t.args[pos], ref[w]):
                            ctx.disagree("history: RandomState block state is not the window the model assigns", w, None)
                            break
    # ---- implementation-level consequences
    solo = []
    for i, a in enumerate(arrs):
        try:
            solo.append(np.asarray(a.compute(scheduler="sync")))
        except Exception as e:   # noqa: BLE001 — every array of a valid history must be computable
            ctx.fail(f"a random array cannot be computed: {type(e).__name__}: {str(e)[:160]}", observed=steps[i])
            return
    for i in range(len(arrs)):
        for j in range(i + 1, len(arrs)):
            if names[i] == names[j]:
                if steps[i]["kind"] == "perm" and steps[j]["kind"] == "perm" and np.array_equal(solo[i], solo[j]):
                    continue      # content-addressed: the same shuffled index
                ctx.fail(f"calls {i} and {j} on one {api} object share a name", observed=[names[i], steps[i], steps[j]])
            else:
                ki = set(k for k in arrs[i].__dask_graph__().keys() if isinstance(k, tuple) and k[0] == names[i])
                kj = set(k for k in arrs[j].__dask_graph__().keys() if isinstance(k, tuple) and k[0] == names[j])
                if ki & kj:
                    ctx.fail("two calls on one object share output keys", observed=sorted(map(str, ki & kj))[:4])
    for i, (a, s_) in enumerate(zip(arrs, solo)):
        if tuple(a.shape) != s_.shape:
            ctx.fail("the computed shape differs from the lazily declared shape", observed=[steps[i], list(s_.shape)], expected=list(a.shape))
        if steps[i]["kind"] == "dist":
            kw = dict((GEN_ALL if api == "gen" else RS_ALL)[steps[i]["dist"]])
            m = kw.pop("_m", steps[i]["dist"])
            ref = np.random.default_rng(0) if api == "gen" else np.random.RandomState(0)
            with warnings.catch_warnings():
                warnings.simplefilter("ignore")
                rshape = np.asarray(getattr(ref, m)(size=tuple(steps[i]["size"]), **kw)).shape
            if rshape != s_.shape:
                ctx.fail("the computed shape differs from the shape NumPy's method returns for the same size", observed=[steps[i], list(s_.shape)], expected=list(rshape))
    joint = dask.compute(*arrs, scheduler=inp["sched"])
    for i, (j, s_) in enumerate(zip(joint, solo)):
        j = np.asarray(j)
        if j.shape != s_.shape or not np.array_equal(j, s_):
            ctx.fail(f"dask.compute(all arrays of the history): array {i} differs from its own compute()",
                     observed=[steps[i], j.tolist()], expected=s_.tolist())
    for i in range(len(arrs) - 1):
        if steps[i] is steps[i + 1]:
            a, b = arrs[i], arrs[i + 1]
            if solo[i].shape == solo[i + 1].shape and solo[i].dtype.kind in "iuf":
                d = np.asarray((a - b).compute(scheduler="sync"))
                if not np.array_equal(d, solo[i] - solo[i + 1], equal_nan=True):
                    ctx.fail("a - b of two successive identical calls differs from the difference of their own values",
                             observed=[steps[i], d.tolist()], expected=(solo[i] - solo[i + 1]).tolist())
            if _rich(api, steps[i], solo[i].size) and np.array_equal(solo[i], solo[i + 1]):
                ctx.fail("two successive identical calls on one object produced the same draw", observed=[steps[i], solo[i].tolist()])
            ctx.branch("repeat:" + (steps[i]["dist"] if steps[i]["kind"] == "dist" else steps[i]["kind"]))
    # ---- seeded: the whole history is reproducible
    if seed is not None:
        rng2 = new_rng(da, api, seed)
        arrs2 = [_hist_build(da, rng2, api, op) for op in steps]
        if [a.name for a in arrs2] != names:
            ctx.fail("same seed and same history give different names", observed=[names, [a.name for a in arrs2]])
        again = dask.compute(*arrs2, scheduler="threads")
        for i, (j, s_) in enumerate(zip(again, solo)):
            if not np.array_equal(np.asarray(j), s_):
                ctx.fail(f"same seed and same history: array {i} has different values", observed=steps[i])
        if api == "rs":
            # RandomState.seed(s) on the used object restarts the stream: the history replays
            rng.seed(seed)
            arrs3 = [_hist_build(da, rng, api, op) for op in steps]
            if [a.name for a in arrs3] != names:
                ctx.fail("RandomState.seed(seed) on a used object does not replay the history (names differ)",
                         observed=[names, [a.name for a in arrs3]])
            ctx.branch("rs.seed() replay")
        ctx.branch("seeded")
    else:
        ctx.branch("unseeded")
    ctx.branch(api)
    for op in ops:
        if op["kind"] == "choice":
            ctx.branch("choice:" + ("p" if op["p"] else "uniform") + (":replace" if op["replace"] else ":no-replace"))


def case_args(ctx, inp):
    """Array-valued distribution parameters: every block must receive ITS OWN slice of the (broadcast) parameter.
    Degenerate parameters make the draw deterministic, so the plumbing is checked exactly."""
    da = _da()
    api, seed, dist, size, chunks = inp["api"], inp["seed"], inp["dist"], tuple(inp["size"]), tuple(tuple(c) for c in inp["chunks"])
    L = np.array(inp["param"]["data"], dtype=inp["param"]["dtype"]).reshape(inp["param"]["shape"])
    P = da.from_array(L, chunks=tuple(tuple(c) for c in inp["param"]["chunks"])) if inp["param"]["dask"] else L
    rng = new_rng(da, api, seed)
    kw = {"chunks": chunks}
    if not inp["size_none"]:
        kw["size"] = size
    pos = inp["positional"]
    want = np.broadcast_to(L, size)
    try:
        if dist == "normal":
            x = rng.normal(P, 0.0, **kw) if pos else rng.normal(loc=P, scale=0.0, **kw)
        elif dist == "uniform":
            x = rng.uniform(P, P, **kw) if pos else rng.uniform(low=P, high=P, **kw)
        elif dist == "binomial":
            x = rng.binomial(P, 1.0, **kw) if pos else rng.binomial(n=P, p=1.0, **kw)
        else:
            f = rng.integers if api == "gen" else rng.randint
            x = f(P, P + 1, **kw) if pos else f(low=P, high=P + 1, **kw)
        if tuple(x.shape) != size:
            ctx.fail(f"{dist} with an array parameter: wrong lazy shape", observed=list(x.shape), expected=list(size))
            return
        v = np.asarray(x.compute(scheduler="sync"))
    except Exception as e:   # noqa: BLE001 — NumPy accepts these calls
        ctx.fail(f"{dist} with an array parameter raised {type(e).__name__}", observed=str(e)[:300], expected=want.tolist())
        return
    if v.shape != want.shape or not np.array_equal(v, want):
        ctx.fail(f"{dist} with a degenerate array parameter does not reproduce the parameter (a block got another slice)",
                 observed=v.tolist(), expected=want.tolist())
    bad = U.joint_vs_solo([x, x + 0])
    if bad:
        ctx.fail("array-parameter draw computed jointly differs from solo", observed=bad)
    if math.prod(len(c) for c in chunks) > 1:
        ctx.branch("multi-block")
    if L.shape != size:
        ctx.branch("broadcast parameter")
    ctx.branch(("dask" if inp["param"]["dask"] else "numpy") + ("-positional" if pos else "-keyword"))
    if inp["size_none"]:
        ctx.branch("size=None")


def case_choicend(ctx, inp):
    """extension round: `choice` with an n-d / 0-d `size` — the replace/chunks guard of the real `_choice_validate_params`
    vs `ChoiceND.guardND`, number of block tasks vs `nblocks`, distinctness over the WHOLE output, NumPy's verdict"""
    import itertools
    da = _da()
    from dask.array.random import _choice_validate_params
    api, seed, pop, size, chunks, replace = inp["api"], inp["seed"], inp["pop"], inp["size"], inp["chunks"], inp["replace"]
    size_arg = None if size is None else tuple(size)
    shape = () if size is None else tuple(size)
    chunks_arg = tuple(tuple(c) for c in chunks)
    nch = [len(c) for c in chunks]
    model = ctx.lean(Sym("choicend"), bool(replace), nch)
    rng = new_rng(da, api, seed)
    try:
        out = _choice_validate_params(rng, pop, size_arg, replace, None, 0, chunks_arg)
        real = [Sym("ok"), [len(c) for c in out[5]], len(list(itertools.product(*out[5])))]
        if tuple(out[1]) != shape:
            ctx.fail("choice: normalized size differs", observed=[list(out[1]), list(shape)])
    except NotImplementedError:
        real = [Sym("raised")]
    except IndexError as e:
        ctx.fail("choice(replace=False) with a 0-d size raised IndexError", observed=str(e))
        return
    ctx.eq("choice n-d replace/chunks guard", model, real)
    multi = any(n > 1 for n in nch)
    if real[0] == Sym("raised") or model[0] == Sym("raised"):
        if replace or not multi:
            ctx.fail("choice raised NotImplementedError outside the multi-chunk replace=False case")
        ctx.branch("n-d multi-chunk replace=False rejected" + (" (first axis single)" if nch[0] == 1 else ""))
        return
    if not replace and multi:
        ctx.fail("choice(replace=False) accepted a multi-block output (blocks are drawn independently)", observed=nch)
        return
    total = int(np.prod(shape)) if shape else 1
    try:
        ref = np.random.default_rng(0).choice(pop, size=size_arg, replace=replace)
        np_ok = True
    except ValueError:
        np_ok = False
    try:
        x = rng.choice(pop, size=size_arg, replace=replace, chunks=chunks_arg)
        if len(block_tasks(x)) != model[2]:
            ctx.fail("choice: number of block tasks differs from the model's nblocks", observed=[len(block_tasks(x)), model[2]])
        v = np.asarray(x.compute(scheduler="sync"))
    except ValueError as e:
        if np_ok:
            ctx.fail(f"choice raised where NumPy does not: {e}", observed=str(e))
        ctx.branch("n-d size > population raises")
        return
    if not np_ok:
        ctx.fail("choice returned a sample where NumPy raises (larger than the population, replace=False)", observed=v.tolist())
        return
    if v.shape != shape or x.shape != shape or np.shape(ref) != shape:
        ctx.fail("choice: wrong shape", observed=[list(v.shape), list(x.shape), list(shape)])
    flat = v.reshape(-1).tolist()
    if not set(flat) <= set(range(pop)):
        ctx.fail("choice returned elements outside the population", observed=flat)
    if not replace:
        if len(set(flat)) != len(flat):
            ctx.fail("choice(replace=False) returned a repeated element", observed=v.tolist())
        ctx.branch("n-d replace=False single block, distinct")
        if total == pop and sorted(flat) != list(range(pop)):
            ctx.fail("choice(replace=False, size = population) is not a permutation", observed=flat)
    v2 = np.asarray(new_rng(da, api, seed).choice(pop, size=size_arg, replace=replace, chunks=chunks_arg).compute(scheduler="threads"))
    if not np.array_equal(v, v2):
        ctx.fail("n-d choice with the same seed is not reproducible", observed=[v.tolist(), v2.tolist()])
    ctx.branch("size=None" if size is None else f"{len(shape)}-d")
    ctx.branch(api)


CASES = {"args": case_args, "hist": case_hist, "perm": case_perm, "gen_calls": case_gen_calls, "rs_calls": case_rs_calls, "values": case_values, "unseeded": case_unseeded,
         "choice": case_choice, "choicend": case_choicend}


def _shape_chunks(rng, maxd=3, maxn=6):
    d = rng.randint(0, maxd)
    size = [rng.randint(0 if rng.random() < 0.1 else 1, maxn) for _ in range(d)]
    chunks = [list(U.rand_chunks_1d(rng, n)) for n in size]
    return size, chunks


def _gen_hist(rng, n):
    for _ in range(n):
        api = rng.choice(["gen", "gen", "rs"])
        ops = []
        for _ in range(rng.randint(1, 4)):
            r = rng.random()
            if r < 0.5:
                size, chunks = _shape_chunks(rng, 2, 8)
                if not size or math.prod(size) < 6:
                    size = [rng.randint(6, 10)]
                    chunks = [list(U.rand_chunks_1d(rng, size[0]))]
                op = {"kind": "dist", "dist": rng.choice(sorted(GEN_ALL if api == "gen" else RS_ALL)), "size": size, "chunks": chunks}
            elif r < 0.85:
                pop = rng.randint(9, 14) if rng.random() < 0.6 else rng.sample(range(-30, 30), rng.randint(9, 12))
                n_ = pop if isinstance(pop, int) else len(pop)
                replace = rng.random() < 0.5
                size = rng.randint(9, 12) if replace else rng.randint(9, n_)
                chunks = list(U.rand_chunks_1d(rng, size)) if replace else [size]
                op = {"kind": "choice", "pop": pop, "size": size, "chunks": chunks, "replace": replace, "p": rng.random() < 0.4}
            else:
                n_ = rng.randint(9, 12)
                op = {"kind": "perm", "n": n_, "from_int": rng.random() < 0.4, "chunks": list(U.rand_chunks_1d(rng, n_))}
            op["reps"] = rng.choice([1, 2, 2, 3])
            ops.append(op)
        yield "hist", {"api": api, "seed": rng.choice([None, None, rng.randint(0, 2 ** 31)]), "ops": ops,
                       "sched": rng.choice(["sync", "threads"])}


def _gen_args(rng, n):
    for _ in range(n):
        api = rng.choice(["gen", "rs"])
        d = rng.choice([1, 2, 2, 3])
        size = [rng.randint(1, 5) for _ in range(d)]
        chunks = [list(U.rand_chunks_1d(rng, k)) for k in size]
        dist = rng.choice(["normal", "uniform", "binomial", "integers", "integers"])
        size_none = rng.random() < 0.25
        r = rng.random()
        if size_none or r < 0.5:
            pshape = list(size)
        elif r < 0.75:
            pshape = size[-1:]
        else:
            pshape = [size[0]] + [1] * (d - 1)
        cnt = math.prod(pshape)
        if dist in ("normal", "uniform"):
            data, dt = [rng.randint(-50, 50) / 4 for _ in range(cnt)], "float64"
        else:
            data, dt = [rng.randint(0, 40) for _ in range(cnt)], "int64"
        yield "args", {"api": api, "seed": rng.randint(0, 2 ** 31), "dist": dist, "size": size, "chunks": chunks,
                       "size_none": size_none, "positional": rng.random() < 0.5,
                       "param": {"data": data, "dtype": dt, "shape": pshape, "dask": rng.random() < 0.5,
                                 "chunks": [list(U.rand_chunks_1d(rng, k)) for k in pshape]}}


def generate(ctx):
    rng = ctx.rng
    yield from _gen_args(rng, ctx.n(160, 1500))
    yield from _gen_hist(rng, ctx.n(120, 1500))
    for _ in range(ctx.n(200, 2500)):
        calls = []
        for _ in range(rng.randint(1, 4)):
            size, chunks = _shape_chunks(rng)
            calls.append({"dist": rng.choice(list(GEN_DISTS)), "size": size, "chunks": chunks})
        yield "gen_calls", {"seed": rng.choice([0, 1, 42, rng.randint(0, 2 ** 40)]), "calls": calls,
                            "prespawn": rng.choice([0, 0, 0, 1, 5])}
    for _ in range(ctx.n(80, 800)):
        calls = []
        for _ in range(rng.randint(1, 3)):
            size, chunks = _shape_chunks(rng, 2, 5)
            calls.append({"dist": rng.choice(list(RS_DISTS)), "size": size, "chunks": chunks})
        yield "rs_calls", {"seed": rng.randint(0, 2 ** 31), "calls": calls}
    nproc = 0
    for _ in range(ctx.n(90, 1200)):
        api = rng.choice(["gen", "gen", "rs"])
        size, chunks = _shape_chunks(rng)
        scheds = ["threads"]
        if nproc < (2 if not ctx.thorough() else 12) and rng.random() < 0.05:
            scheds.append("processes")
            nproc += 1
        inp = {"api": api, "seed": rng.randint(0, 2 ** 31), "dist": rng.choice(list(GEN_DISTS if api == "gen" else RS_DISTS)),
               "size": size, "chunks": chunks, "scheds": scheds}
        if rng.random() < 0.2:
            inp["rechunk"] = [list(U.rand_chunks_1d(rng, n)) for n in size]
        yield "values", inp
    for _ in range(ctx.n(80, 800)):
        api = rng.choice(["gen", "rs"])
        how = rng.choice(["two-rngs", "one-rng", "module"])
        size, chunks = _shape_chunks(rng, 2, 6)
        dist = rng.choice(list(RS_DISTS)) if how == "module" or api == "rs" else rng.choice(list(GEN_DISTS))
        yield "unseeded", {"api": "rs" if how == "module" else api, "dist": dist, "size": size, "chunks": chunks, "how": how,
                           "sched": rng.choice(["sync", "threads"])}
    for _ in range(ctx.n(40, 400)):
        n = rng.randint(1, 12)
        yield "perm", {"api": rng.choice(["gen", "rs"]), "seed": rng.randint(0, 2 ** 31), "n": n,
                       "chunks": list(U.rand_chunks_1d(rng, n)), "from_int": rng.random() < 0.4}
    for _ in range(ctx.n(120, 1200)):
        pop = rng.randint(1, 12) if rng.random() < 0.6 else rng.sample(range(-20, 20), rng.randint(1, 10))
        n = pop if isinstance(pop, int) else len(pop)
        replace = rng.random() < 0.4
        size = rng.choice([n, rng.randint(1, n), rng.randint(1, n), n + 1 if rng.random() < 0.3 else max(1, n - 1)])
        chunks = list(U.rand_chunks_1d(rng, size)) if (replace or rng.random() < 0.45) else [size]
        yield "choice", {"api": rng.choice(["gen", "rs"]), "seed": rng.randint(0, 2 ** 31), "pop": pop, "size": size,
                         "chunks": chunks, "replace": replace}
    for i in range(ctx.n(60, 600)):
        size, chunks = _shape_chunks(rng, 3, 4)
        while 0 in size:
            size, chunks = _shape_chunks(rng, 3, 4)
        replace = rng.random() < 0.3
        if not replace:
            r = rng.random()
            if r < 0.5:
                chunks = [[n] for n in size]
            elif r < 0.8 and len(size) >= 2:
                chunks = [[size[0]]] + [list(c) for c in chunks[1:]]  # first axis single, later axes free
        tot = 1
        for n in size:
            tot *= n
        pop = rng.choice([tot, tot + rng.randint(0, 4), rng.randint(1, 12)])
        yield "choicend", {"api": rng.choice(["gen", "rs"]), "seed": rng.randint(0, 2 ** 31), "pop": max(1, pop),
                           "size": None if (not size and rng.random() < 0.5) else list(size), "chunks": [list(c) for c in chunks],
                           "replace": replace}
