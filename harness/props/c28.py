"""C28 — random arrays: reproducible when seeded, independent when not (PARTIAL: keys/seeds logic).

Model:    lean/DaskModel/Model/RandomKeys.lean (SeedSequence.spawn bookkeeping, one child per block in C order,
          names as a function of (funcname, child seeds, params); RandomState windows; the choice guard)
Theorems: lean/DaskModel/Props/C28.lean
Tie:      function level — the SeedSequence of every block task of real Generator constructions (spawn_key,
          entropy, n_children_spawned) vs `runCalls`; RandomState per-block state arrays vs the windows the model
          assigns in one reference MT19937 byte stream; `_choice_validate_params` guard vs `choiceGuard`.
          API level — same seed ⇒ same names and identical values across recomputation, rebuilt graphs and
          schedulers (sync / threads / processes); unseeded pairs ⇒ distinct names, joint compute = separate
          computes, draws differ; choice(replace=False) ⇒ distinct elements of the population.
"""
from __future__ import annotations

import itertools
import math
import warnings

import numpy as np

from sexp import Sym
from props import _reduce_util as U

PROP = "C28"
READY = True
DRIVER = "dm_reduce"
LEAN_MODULES = ["DaskModel.Props.C28"]
CASE_TIMEOUT_S = 40
LEVEL_TEXT = (
    "PARTIAL. Proved in Lean 4 for the seed/key logic of dask.array.random (no size bound): seed_formula (block b of "
    "the k-th construction gets the SeedSequence child spawn_key++[n0+Σ earlier blocks+b] — a function of the seed, "
    "the program and b only, hence seeded_reproducible), all_seeds_nodup (no two blocks of any constructions share a "
    "seed), same_generator_names_distinct and unseeded_names_distinct (separate constructions get distinct names, so "
    "each keeps its own draw when computed together), rs_windows_nodup (RandomState windows), "
    "choice_no_replace_single_chunk (the guard makes multi-chunk replace=False unreachable). NOT expressible/proved: "
    "statistical independence of the streams; 'identical values on every scheduler' is reduced to 'identical graph' "
    "(+ C01) and validated by running sync/threads/processes; distinctness of NumPy's single-block choice is trusted."
)
LEVEL_NOTE = ("Trusted: NumPy bit generators and SeedSequence (child seeds ↦ independent streams), tokenize injective "
              "(C12), schedulers compute the graph (C01). Fresh OS entropy is modelled as a fresh entropy id.")
TECHNIQUE = "Lean 4 proof over the spawn/key bookkeeping + differential correspondence (graph seeds, names, values across schedulers)"
ASSUMPTIONS = ["SeedSequence(entropy, spawn_key) determines the stream; distinct (entropy, spawn_key) are treated as distinct streams",
               "tokenize is injective on the name components"]
TRUSTED = ["numpy.random (bit generators, SeedSequence, Generator.choice)"]

GEN_DISTS = {
    "random": {}, "normal": {"loc": 1.0, "scale": 2.0}, "uniform": {"low": -1.0, "high": 3.0}, "standard_normal": {},
    "integers": {"low": 0, "high": 1000}, "poisson": {"lam": 3.0}, "exponential": {"scale": 2.0}, "gamma": {"shape": 2.0},
    "binomial": {"n": 10, "p": 0.3}, "beta": {"a": 2.0, "b": 3.0},
}
RS_DISTS = {
    "random_sample": {}, "normal": {"loc": 1.0, "scale": 2.0}, "uniform": {"low": -1.0, "high": 3.0}, "standard_normal": {},
    "randint": {"low": 0, "high": 1000}, "poisson": {"lam": 3.0}, "exponential": {"scale": 2.0}, "binomial": {"n": 10, "p": 0.3},
}


def _da():
    import dask
    import dask.array as da
    dask.config.set(scheduler="sync")
    return da


def make(rng, api, dist, size, chunks):
    kw = dict((GEN_DISTS if api == "gen" else RS_DISTS)[dist])
    return getattr(rng, dist)(size=tuple(size), chunks=tuple(tuple(c) for c in chunks), **kw)


def new_rng(da, api, seed):
    return da.random.default_rng(seed) if api == "gen" else da.random.RandomState(seed)


def block_tasks(arr):
    layer = dict(arr.dask.layers[arr.name])
    keys = [k for k in layer if isinstance(k, tuple) and k[0] == arr.name]
    return [layer[k] for k in sorted(keys, key=lambda k: k[1:])]


def case_gen_calls(ctx, inp):
    """Function level: SeedSequence of every block vs the model's spawn bookkeeping."""
    da = _da()
    seed, calls = inp["seed"], inp["calls"]
    rng = da.random.default_rng(seed)
    ss0 = rng._bit_generator._seed_seq
    if inp.get("prespawn"):
        ss0.spawn(inp["prespawn"])
    key0, n0 = list(ss0.spawn_key), ss0.n_children_spawned
    impl, names = [], []
    for c in calls:
        arr = make(rng, "gen", c["dist"], c["size"], c["chunks"])
        seeds = []
        for t in block_tasks(arr):
            ss = t.args[2]
            if ss.entropy != ss0.entropy:
                ctx.fail("a block seed has a different entropy than its generator", observed=str(ss.entropy))
            seeds.append(list(ss.spawn_key))
        impl.append(seeds)
        names.append(arr.name)
    nbs = [math.prod(len(ch) for ch in c["chunks"]) for c in calls]
    model = ctx.lean(Sym("rngcalls"), key0, n0, nbs)
    ctx.eq("per-block spawn keys of successive constructions", model[0], impl)
    ctx.eq("n_children_spawned after the program", model[1], ss0.n_children_spawned)
    flat = [tuple(k) for s in impl for k in s]
    if len(set(flat)) != len(flat):
        ctx.fail("two blocks share a SeedSequence", observed=impl)
    if len(set(names)) != len(names):
        ctx.fail("two constructions from one generator share a name", observed=names)
    # rebuilt from the same seed: identical names
    rng2 = da.random.default_rng(seed)
    if inp.get("prespawn"):
        rng2._bit_generator._seed_seq.spawn(inp["prespawn"])
    names2 = [make(rng2, "gen", c["dist"], c["size"], c["chunks"]).name for c in calls]
    if names2 != names:
        ctx.fail("same seed and same program give different array names", observed=[names, names2])
    if len(calls) > 1:
        ctx.branch("several constructions")
    if any(nb > 1 for nb in nbs):
        ctx.branch("multi-block")
    if inp.get("prespawn"):
        ctx.branch("generator already spawned")
    if any(len(c["size"]) == 0 for c in calls):
        ctx.branch("0-d")


def case_rs_calls(ctx, inp):
    da = _da()
    seed, calls = inp["seed"], inp["calls"]
    rs = da.random.RandomState(seed)
    nbs = [math.prod(len(ch) for ch in c["chunks"]) for c in calls]
    model = ctx.lean(Sym("rscalls"), 0, nbs)
    total = sum(nbs)
    ref = np.frombuffer(np.random.RandomState(seed).bytes(624 * total * 4), dtype="<u4").reshape((total, -1)) if total else None
    names = []
    for c, wins in zip(calls, model[0]):
        arr = make(rs, "rs", c["dist"], c["size"], c["chunks"])
        names.append(arr.name)
        tasks = block_tasks(arr)
        if len(tasks) != len(wins):
            ctx.disagree("number of block tasks", len(wins), len(tasks))
            continue
        for t, w in zip(tasks, wins):
            if not np.array_equal(t.args[2], ref[w]):
                ctx.disagree("RandomState block state is not the window the model assigns", w, None)
                break
    if len(set(names)) != len(names):
        ctx.fail("two constructions from one RandomState share a name", observed=names)
    rs2 = da.random.RandomState(seed)
    names2 = [make(rs2, "rs", c["dist"], c["size"], c["chunks"]).name for c in calls]
    if names2 != names:
        ctx.fail("same seed and same program give different names (RandomState)", observed=[names, names2])
    if any(nb > 1 for nb in nbs):
        ctx.branch("multi-block")
    if len(calls) > 1:
        ctx.branch("several constructions")


def _compute(x, sched):
    import dask
    if sched == "processes":
        with dask.config.set(scheduler="processes", num_workers=2):
            return x.compute()
    return x.compute(scheduler=sched)


def case_values(ctx, inp):
    """API level: same seed/shape/chunks ⇒ identical values on every scheduler and recomputation."""
    da = _da()
    api, seed, dist, size, chunks = inp["api"], inp["seed"], inp["dist"], inp["size"], inp["chunks"]
    x = make(new_rng(da, api, seed), api, dist, size, chunks)
    base = np.asarray(_compute(x, "sync"))
    if base.shape != tuple(size):
        ctx.fail("random array has the wrong shape", observed=list(base.shape), expected=size)
    again = np.asarray(_compute(x, "sync"))
    if not np.array_equal(base, again):
        ctx.fail("recomputation of the same random array gives different values", observed=again.tolist(), expected=base.tolist())
    for sched in inp["scheds"]:
        other = np.asarray(_compute(x, sched))
        if not np.array_equal(base, other):
            ctx.fail(f"scheduler {sched} gives different values than sync", observed=other.tolist(), expected=base.tolist())
        ctx.branch("sched=" + sched)
    y = make(new_rng(da, api, seed), api, dist, size, chunks)
    if y.name != x.name:
        ctx.fail("same seed, shape and chunks give different names", observed=[x.name, y.name])
    if not np.array_equal(base, np.asarray(_compute(y, "threads"))):
        ctx.fail("array rebuilt from the same seed computes different values")
    z = make(new_rng(da, api, seed + 1), api, dist, size, chunks)
    if z.name == x.name:
        ctx.fail("different seeds give the same name", observed=x.name)
    if inp.get("rechunk") and base.size:
        # a different chunking is a different array in general, but must still be reproducible
        w1 = make(new_rng(da, api, seed), api, dist, size, inp["rechunk"])
        w2 = make(new_rng(da, api, seed), api, dist, size, inp["rechunk"])
        if not np.array_equal(np.asarray(_compute(w1, "sync")), np.asarray(_compute(w2, "threads"))):
            ctx.fail("second chunking not reproducible")
    if math.prod(len(c) for c in chunks) > 1:
        ctx.branch("multi-block")
    ctx.branch(api)


def case_unseeded(ctx, inp):
    import dask
    da = _da()
    api, dist, size, chunks, how = inp["api"], inp["dist"], inp["size"], inp["chunks"], inp["how"]
    if how == "module":
        f = getattr(da.random, dist)
        kw = dict(RS_DISTS[dist])
        a = f(size=tuple(size), chunks=tuple(tuple(c) for c in chunks), **kw)
        b = f(size=tuple(size), chunks=tuple(tuple(c) for c in chunks), **kw)
    elif how == "one-rng":
        rng = new_rng(da, api, None)
        a, b = make(rng, api, dist, size, chunks), make(rng, api, dist, size, chunks)
    else:
        a, b = make(new_rng(da, api, None), api, dist, size, chunks), make(new_rng(da, api, None), api, dist, size, chunks)
    if a.name == b.name:
        ctx.fail("two separately created unseeded random arrays share a name", observed=a.name)
    ka, kb = set(map(str, a.__dask_graph__().keys())), set(map(str, b.__dask_graph__().keys()))
    if ka & kb:
        ctx.fail("two unseeded random arrays share graph keys", observed=sorted(ka & kb)[:5])
    ra, rb = dask.compute(a, b, scheduler=inp["sched"])
    sa, sb = a.compute(scheduler="sync"), b.compute(scheduler="sync")
    if not (np.array_equal(ra, sa) and np.array_equal(rb, sb)):
        ctx.fail("computing two unseeded arrays together differs from computing them alone")
    if np.asarray(ra).size >= 6 and dist in ("random", "random_sample", "normal", "uniform", "standard_normal") and np.array_equal(ra, rb):
        ctx.fail("two unseeded arrays produced identical draws", observed=np.asarray(ra).tolist())
    ctx.branch(how)


def case_choice(ctx, inp):
    da = _da()
    api, seed, pop, size, chunks, replace = inp["api"], inp["seed"], inp["pop"], inp["size"], inp["chunks"], inp["replace"]
    rng = new_rng(da, api, seed)
    a = pop if isinstance(pop, int) else da.from_array(np.array(pop), chunks=max(1, len(pop) // 2))
    population = list(range(pop)) if isinstance(pop, int) else list(pop)
    nchunks = len(chunks)
    guard = ctx.lean(Sym("choiceguard"), bool(replace), nchunks)
    try:
        x = rng.choice(a, size=size, replace=replace, chunks=(tuple(chunks),))
        built = ["ok", len(x.chunks[0])]
    except NotImplementedError:
        built = ["raised"]
    ctx.eq("choice replace/chunks guard", guard, [Sym(built[0])] + built[1:])
    if built[0] == "raised":
        if replace or nchunks <= 1:
            ctx.fail("choice raised NotImplementedError outside the multi-chunk replace=False case")
        ctx.branch("multi-chunk replace=False rejected")
        return
    try:
        v = np.asarray(x.compute(scheduler="sync"))
    except ValueError as e:
        if not replace and size > len(population):
            ctx.branch("size > population raises")
            return
        ctx.fail(f"choice raised: {e}", observed=str(e))
        return
    if not replace and size > len(population):
        ctx.fail("choice without replacement returned more elements than the population", observed=v.tolist())
        return
    if v.shape != (size,):
        ctx.fail("choice: wrong shape", observed=list(v.shape))
    if not set(v.tolist()) <= set(population):
        ctx.fail("choice returned elements outside the population", observed=v.tolist())
    if not replace:
        if isinstance(pop, int) or len(set(population)) == len(population):
            if len(set(v.tolist())) != len(v):
                ctx.fail("choice(replace=False) returned a repeated element", observed=v.tolist())
        ctx.branch("replace=False")
        if size == len(population):
            ctx.branch("size == population")
            if sorted(v.tolist()) != sorted(population):
                ctx.fail("choice(replace=False, size=len(a)) is not a permutation of a", observed=v.tolist())
    v2 = np.asarray(new_rng(da, api, seed).choice(a, size=size, replace=replace, chunks=(tuple(chunks),)).compute(scheduler="threads"))
    if not np.array_equal(v, v2):
        ctx.fail("choice with the same seed is not reproducible", observed=[v.tolist(), v2.tolist()])
    # a second, identical call on the SAME generator is a separate draw: own name, own keys, own values
    if not (not replace and size > len(population)):
        y = rng.choice(a, size=size, replace=replace, chunks=(tuple(chunks),))
        if y.name == x.name:
            ctx.fail("two choice() calls on one generator share a name", observed=x.name)
        kx = set(k for k in x.__dask_graph__().keys() if isinstance(k, tuple) and k[0] == x.name)
        ky = set(k for k in y.__dask_graph__().keys() if isinstance(k, tuple) and k[0] == y.name)
        if kx & ky:
            ctx.fail("two choice() calls on one generator share output keys", observed=sorted(map(str, kx & ky))[:4])
        bad = U.joint_vs_solo([x, y])
        if bad:
            ctx.fail("computing two choice() draws together differs from computing them alone", observed=bad)
        if api == "gen":
            # function level: the per-block bit generators are consecutive children of the generator's SeedSequence
            def keys_of(arr):
                return [list(t.args[0]._seed_seq.spawn_key) for t in block_tasks(arr)]
            impl = [keys_of(x), keys_of(y)]
            model = ctx.lean(Sym("rngcalls"), [], 0, [len(impl[0]), len(impl[1])])
            ctx.eq("choice: per-block spawn keys of two successive calls", model[0], impl)
        ctx.branch("second call on the same generator")
    ctx.branch(api)


def case_perm(ctx, inp):
    da = _da()
    api, seed, n, chunks = inp["api"], inp["seed"], inp["n"], inp["chunks"]
    base = np.arange(n) * 3 - 5

    def build(rng):
        src = n if inp["from_int"] else da.from_array(base, chunks=(tuple(chunks),))
        return rng.permutation(src)

    rng = new_rng(da, api, seed)
    x = build(rng)
    v = np.asarray(x.compute(scheduler="sync"))
    want = np.arange(n) if inp["from_int"] else base
    if sorted(v.tolist()) != sorted(want.tolist()):
        ctx.fail("permutation is not a permutation of its input", observed=v.tolist(), expected=want.tolist())
    v2 = np.asarray(build(new_rng(da, api, seed)).compute(scheduler="threads"))
    if not np.array_equal(v, v2):
        ctx.fail("permutation with the same seed is not reproducible", observed=[v.tolist(), v2.tolist()])
    y = build(rng)
    bad = U.joint_vs_solo([x, y])
    if bad:
        ctx.fail("computing two permutations from one generator together differs from computing them alone", observed=bad)
    if y.name == x.name and not np.array_equal(v, np.asarray(y.compute(scheduler="sync"))):
        ctx.fail("two different permutations share a name", observed=x.name)
    ctx.branch("permutation-" + api)


CASES = {"perm": case_perm, "gen_calls": case_gen_calls, "rs_calls": case_rs_calls, "values": case_values, "unseeded": case_unseeded,
         "choice": case_choice}


def _shape_chunks(rng, maxd=3, maxn=6):
    d = rng.randint(0, maxd)
    size = [rng.randint(0 if rng.random() < 0.1 else 1, maxn) for _ in range(d)]
    chunks = [list(U.rand_chunks_1d(rng, n)) for n in size]
    return size, chunks


def generate(ctx):
    rng = ctx.rng
    for _ in range(ctx.n(200, 2500)):
        calls = []
        for _ in range(rng.randint(1, 4)):
            size, chunks = _shape_chunks(rng)
            calls.append({"dist": rng.choice(list(GEN_DISTS)), "size": size, "chunks": chunks})
        yield "gen_calls", {"seed": rng.choice([0, 1, 42, rng.randint(0, 2 ** 40)]), "calls": calls,
                            "prespawn": rng.choice([0, 0, 0, 1, 5])}
    for _ in range(ctx.n(80, 800)):
        calls = []
        for _ in range(rng.randint(1, 3)):
            size, chunks = _shape_chunks(rng, 2, 5)
            calls.append({"dist": rng.choice(list(RS_DISTS)), "size": size, "chunks": chunks})
        yield "rs_calls", {"seed": rng.randint(0, 2 ** 31), "calls": calls}
    nproc = 0
    for _ in range(ctx.n(90, 1200)):
        api = rng.choice(["gen", "gen", "rs"])
        size, chunks = _shape_chunks(rng)
        scheds = ["threads"]
        if nproc < (2 if not ctx.thorough() else 12) and rng.random() < 0.05:
            scheds.append("processes")
            nproc += 1
        inp = {"api": api, "seed": rng.randint(0, 2 ** 31), "dist": rng.choice(list(GEN_DISTS if api == "gen" else RS_DISTS)),
               "size": size, "chunks": chunks, "scheds": scheds}
        if rng.random() < 0.2:
            inp["rechunk"] = [list(U.rand_chunks_1d(rng, n)) for n in size]
        yield "values", inp
    for _ in range(ctx.n(80, 800)):
        api = rng.choice(["gen", "rs"])
        how = rng.choice(["two-rngs", "one-rng", "module"])
        size, chunks = _shape_chunks(rng, 2, 6)
        dist = rng.choice(list(RS_DISTS)) if how == "module" or api == "rs" else rng.choice(list(GEN_DISTS))
        yield "unseeded", {"api": "rs" if how == "module" else api, "dist": dist, "size": size, "chunks": chunks, "how": how,
                           "sched": rng.choice(["sync", "threads"])}
    for _ in range(ctx.n(40, 400)):
        n = rng.randint(1, 12)
        yield "perm", {"api": rng.choice(["gen", "rs"]), "seed": rng.randint(0, 2 ** 31), "n": n,
                       "chunks": list(U.rand_chunks_1d(rng, n)), "from_int": rng.random() < 0.4}
    for _ in range(ctx.n(120, 1200)):
        pop = rng.randint(1, 12) if rng.random() < 0.6 else rng.sample(range(-20, 20), rng.randint(1, 10))
        n = pop if isinstance(pop, int) else len(pop)
        replace = rng.random() < 0.4
        size = rng.choice([n, rng.randint(1, n), rng.randint(1, n), n + 1 if rng.random() < 0.3 else max(1, n - 1)])
        chunks = list(U.rand_chunks_1d(rng, size)) if (replace or rng.random() < 0.45) else [size]
        yield "choice", {"api": rng.choice(["gen", "rs"]), "seed": rng.randint(0, 2 ** 31), "pop": pop, "size": size,
                         "chunks": chunks, "replace": replace}
