"""C20 extension (last round): a 1-d dask boolean mask on a 1-d dask array.

Model:    lean/DaskModel/Model/BoolDaskMask.lean (`maskBlocks`: length check, common refinement, one getitem per block)
Theorems: lean/DaskModel/Props/C20xMask.lean (bool_dask_mask_flat, bool_dask_mask_blocks, bool_dask_mask_den)
Tie:      `boolmask`  real `slice_with_bool_dask_array(x, (mask,))`: IndexError iff the model rejects, the real
                      `unify_chunks` result vs the model's `U`, lazy chunks all unknown and one per block of `U`, EVERY
                      computed output block vs the model's block, block sizes = number of true entries of the mask in the
                      block, concatenation and `x[mask].compute()` vs NumPy's `x[mask]`
Imported by c20.py (section appended to its CASES / generate).
"""
from __future__ import annotations

from sexp import Sym

from props._slicing_util import compositions, random_chunks, unsym


def case_boolmask(ctx, inp):
    import math
    import numpy as np
    import dask
    import dask.array as da
    from dask.array.core import unify_chunks
    from dask.array.slicing import slice_with_bool_dask_array
    cs, ms, mask = list(inp["cs"]), list(inp["ms"]), [bool(b) for b in inp["mask"]]
    n = sum(cs)
    xv = np.arange(n, dtype="int64") * 7 - 3
    mv = np.array(mask, dtype=bool)
    x = da.from_array(xv, chunks=(tuple(cs),))
    m = da.from_array(mv, chunks=(tuple(ms),))
    model = unsym(ctx.lean(Sym("boolmask"), cs, ms, [int(v) for v in xv], mask))
    try:
        exp = xv[mv]
        np_ok = True
    except IndexError:
        np_ok = False
    try:
        y, out_index = slice_with_bool_dask_array(x, (m,))
        raised = False
    except IndexError:
        raised = True
    except Exception as e:
        ctx.fail("slice_with_bool_dask_array raised " + type(e).__name__, observed=repr(e)[:200])
        return
    ctx.eq("slice_with_bool_dask_array raises IndexError", model == ["raised"], raised)
    if raised != (len(mask) != n):
        ctx.fail("IndexError although the mask has the length of the axis (or none although it has not)", observed=raised)
    if n != 0 and len(mask) == 0 and np_ok:
        # observed NumPy quirk: an EMPTY boolean mask is accepted on an axis of any length (NumPy's documented rule
        # is the shape match that dask and the model apply); noted in notes/slicing.md, not compared
        ctx.branch("boolmask-numpy-accepts-empty-mask-on-nonempty-axis")
    elif raised != (not np_ok):
        ctx.fail("IndexError of the dask boolean mask differs from NumPy", observed=raised, expected=not np_ok)
    if raised:
        ctx.branch("boolmask-length-mismatch-rejected")
        return
    U, blocks = model[1], model[2]
    if out_index != [slice(None)]:
        ctx.fail("out_index is not [slice(None)]", observed=repr(out_index))
    # the real unification of the two chunkings
    chunkss, _ = unify_chunks(x, "i", m, "i")
    ctx.eq("unify_chunks(x, mask)", [int(c) for c in U], [int(c) for c in chunkss["i"]])
    if len(y.chunks) != 1 or len(y.chunks[0]) != len(U) or not all(math.isnan(c) for c in y.chunks[0]):
        ctx.fail("lazy chunks are not one unknown size per unified block", observed=repr(y.chunks), expected=len(U))
        return
    got = [np.asarray(b).tolist() for b in dask.get(dict(y.__dask_graph__()), list(y.__dask_keys__()))]
    ctx.eq("every output block of x[dask bool mask]", [[int(v) for v in b] for b in blocks], got)
    # clauses of the theorems on the real output
    start = 0
    for c, b in zip(U, got):
        if len(b) != int(mv[start:start + c].sum()):
            ctx.fail("block size is not the number of true entries of the mask in the block", observed=len(b))
        if b != xv[start:start + c][mv[start:start + c]].tolist():
            ctx.fail("block is not the mask applied to the block's region", observed=b)
        start += c
    flat = [v for b in got for v in b]
    if flat != exp.tolist():
        ctx.fail("concatenated blocks differ from NumPy x[mask]", observed=flat, expected=exp.tolist())
    val = x[m].compute(scheduler="sync")
    if val.tolist() != exp.tolist() or val.dtype != exp.dtype:
        ctx.fail("x[mask].compute() differs from NumPy", observed=val.tolist(), expected=exp.tolist())
    if list(cs) != list(ms):
        ctx.branch("boolmask-different-chunkings")
        if len(U) > max(len(cs), len(ms)):
            ctx.branch("boolmask-proper-refinement")
    else:
        ctx.branch("boolmask-same-chunking")
    if 0 in U:
        ctx.branch("boolmask-zero-length-block")
    if any(len(b) == 0 for b, c in zip(got, U) if c):
        ctx.branch("boolmask-block-selects-nothing")
    if len(U) > 10:
        ctx.branch("boolmask-more-than-10-blocks")
    if n == 0:
        ctx.branch("boolmask-empty-axis")


CASES = {"boolmask": case_boolmask}


def _rand(rng, n):
    cs = random_chunks(rng, n, zeros=0.15)
    t = rng.random()
    if t < 0.2:
        ms = list(cs)
    else:
        ms = random_chunks(rng, n, zeros=0.15)
    p = rng.choice([0.0, 0.2, 0.5, 0.8, 1.0])
    mlen = n
    if rng.random() < 0.12:
        mlen = max(0, n + rng.choice([-2, -1, 1, 2]))
        ms = random_chunks(rng, mlen, zeros=0.15)
    return {"cs": list(cs), "ms": list(ms), "mask": [rng.random() < p for _ in range(mlen)]}


def generate(ctx):
    rng = ctx.rng
    yield "boolmask", {"cs": [3, 3, 4], "ms": [5, 5], "mask": [True, False] * 5}
    yield "boolmask", {"cs": [3, 0, 3], "ms": [2, 4], "mask": [False, True, True, False, False, True]}
    yield "boolmask", {"cs": [4], "ms": [1], "mask": [True]}
    yield "boolmask", {"cs": [1], "ms": [2, 2], "mask": [True, False, True, True]}
    yield "boolmask", {"cs": [0], "ms": [0], "mask": []}
    for _ in range(ctx.n(120, 2500)):
        yield "boolmask", _rand(rng, rng.choice([0, 1, 2, 3, 5, 8, 13, 24]))
    for _ in range(ctx.n(6, 60)):
        n = rng.randint(30, 60)
        yield "boolmask", {"cs": [2] * (n // 2) + ([n % 2] if n % 2 else []), "ms": [3] * (n // 3) + ([n % 3] if n % 3 else []),
                           "mask": [rng.random() < 0.5 for _ in range(n)]}
    if ctx.thorough():
        for n in range(0, 5):
            for cs in compositions(n, zeros=True, maxparts=4):
                for ms in compositions(n, zeros=True, maxparts=4):
                    for bits in range(2 ** n):
                        if n < 4 or rng.random() < 0.3:
                            yield "boolmask", {"cs": list(cs), "ms": list(ms), "mask": [bool(bits >> k & 1) for k in range(n)]}
