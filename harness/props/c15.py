"""C15 — delayed programs evaluate like the eager Python program.

Model:    lean/DaskModel/Model/Delayed.lean (program AST, eager evaluation, the graph `delayed` assembles:
          one task per call with Delayed arguments replaced by references inside rebuilt containers, graphs of
          the arguments merged) on top of Model/GraphMerge.lean; key naming through Model/NormalForm.lean
Theorems: lean/DaskModel/Props/C15.lean (graph_inv, delayed_eval, nout_unpack, pure_keys_equal/distinct)
Tie:      `sym`     symbolic programs (functions = codes of their arguments): Lean eager value == Lean graph value ==
                    real dask graph computed == the same program run eagerly in Python; keys and dependencies of the
                    real graph == the model's graph; the hypotheses of delayed_eval checked on the real keys
          `purekey` function level: key of delayed(f, pure=True)(args) and of the function leaf vs the model's
                    funcname-md5(pre-image); equal / different key pattern for near-miss arguments
          `surface` API level, oracle only: operators, methods, item / attribute access, slices, dataclasses,
                    namedtuples, kwargs, nout, dask_key_name, pure on/off vs the eager Python program
"""
from __future__ import annotations

import collections
import dataclasses
import hashlib
import json
import operator

from sexp import Sym
from props import _token_util as U

PROP = "C15"
READY = True
DRIVER = "dm_token"
LEAN_MODULES = ["DaskModel.Props.C15", "DaskModel.Props.C15Unpack", "DaskModel.Props.C15xOps"]
CASE_TIMEOUT_S = 120
LEVEL_TEXT = ("Lean proof: for every delayed program (calls whose arguments nest Delayed values inside lists, tuples and "
              "dicts, shared sub-programs allowed) the graph assembled by merging the argument graphs and adding one task "
              "per call evaluates the program's key to exactly the value of the same program run eagerly (delayed_eval, by "
              "mutual structural induction with a graph invariant), provided equal keys denote equal values and a call's "
              "key differs from its dependencies' keys; nout-unpacking is the getitem instance; pure keys are a function "
              "of the call and equal pure keys imply observably equal arguments (via C12). unpack_collections of "
              "dask/delayed.py is transliterated (lists, tuples, sets, dicts, slices, dataclasses, namedtuples and their "
              "iterators, positional and keyword arguments): the task it builds evaluates to the argument with every "
              "Delayed replaced by its value, every level keeping its type (unpack_eval, call_args_eval), it refers to "
              "exactly the Delayed values inside and all of them are reported as dependencies (mem_refs, mem_colls, "
              "call_refs_covered); unpacked_arg_is_argEnv ties it to what delayed_eval assumes. Symbolic programs are run "
              "through the model, the real dask graph and eager Python, and the real unpack_collections / call task is "
              "diffed against the model, on every run. Extension (Props/C15xOps): the program AST also has d <op> x, x <op> d "
              "(reflected: partial(_swap, op)), unary operators, d[i], d.attr (DelayedAttr, legacy tuple task) and d.m(...) "
              "(methodcaller); lower is the translation the code itself performs into one call_function task per operation "
              "and delayed_eval_ops proves graph value = eager value for the extended AST (operators abstract); op_task / "
              "shape_task_agree: the task has the operator as callable, the real arguments evaluate to the model's and the "
              "real dependencies= are the model's; operator_keys_deterministic (key = injective function of operator and "
              "operand tokens, via C12 normL_injective; Delayed operands contribute their keys), attr_/method_keys_"
              "deterministic, purity_rules (operators pure, methods pure only if asked or configured), skey_sound (equal "
              "symbolic keys => equal values: H1 discharged for pure nodes), dask_key_name_respected. Section ops diffs, for "
              "generated operator / item / attribute / method programs, values (model eager = model graph = dask = eager "
              "Python), graph keys and dependencies, per operation the real task (legacy or Task, callable identity, "
              "argument references, dependencies=), the key-equality pattern against the symbolic keys and the exact key "
              "of every pure node; section callname diffs the naming branch of call_function with uuid4 pinned.")
LEVEL_NOTE = ("functions, methods and operators are opaque (value algebra); _finalize_args_collections (joint optimisation "
              "of the collections of one argument, key renaming) and futures are outside the model; calling a Delayed value "
              "(Delayed.__call__ -> apply), keyword arguments of methods, nout over tuples, lists and dicts, and dask "
              "collections as arguments are validated by the API-level oracle only; which Python method an operator "
              "expression is dispatched to is Python's business (a comparison with a DelayedLeaf / DelayedAttr on the right "
              "of a plain Delayed reaches dask as the mirrored comparison: the harness applies that rule before the model); "
              "key hypotheses H1/H2 are checked on the real keys at run time and follow from C12 / skey_sound (pure) and "
              "uuid4 freshness (impure).")
TECHNIQUE = "Lean 4 proof (mutual structural induction over a nested program AST, graph-merge lemmas of C13) + differential correspondence"
ASSUMPTIONS = ["uuid4 keys of impure calls are fresh", "md5 injective (pure keys)",
               "HighLevelGraph.from_collections(name, {name: task}, dependencies) = the dependency graphs plus the new task",
               "tuple(xs) / set(xs) of a computed list is the tuple / set of its elements (value algebra law of unpack_eval)",
               "a literal str operand is not the key of a Delayed (the token cannot tell them apart; C11 proviso)",
               "comparisons of the computed values are mirror images (a > b == b < a), as Python assumes when it reflects a "
               "comparison towards a subclass instance on the right"]
TRUSTED = ["symbolic function family of harness/props/c15.py (a call returns the code of its function and arguments)",
           "symbolic value class SymV of harness/props/_c15x_ops.py (every operator / item / attribute / method returns the code of the operation)"]

M61 = 2305843009213693951


def combine(c, vs):
    acc = c
    for x in vs:
        acc = (acc * 1000003 + x + 1) % M61
    return acc


def code(x):
    """the value algebra of the driver's `codeSem` on real Python values"""
    if isinstance(x, list):
        return combine(1001, [code(e) for e in x])
    if isinstance(x, tuple):
        return combine(1002, [code(e) for e in x])
    if isinstance(x, dict):
        out = []
        for k, v in x.items():
            out += [code(k), code(v)]
        return combine(1003, out)
    return int(x)


def _mk(i):
    def f(*args):
        return combine(i, [code(a) for a in args])
    f.__name__ = f"sf{i}"
    f.__qualname__ = f"sf{i}"
    return f


SFUNCS = [_mk(i) for i in range(4)]
for _i, _f in enumerate(SFUNCS):
    globals()[f"sf{_i}"] = _f


# ----------------------------------------------------------------------------------------------
# symbolic programs
# ----------------------------------------------------------------------------------------------

def build_sym(spec, memo, eager=False):
    """program spec -> Delayed (or eager value). Nodes with the same id are the same Python object."""
    from dask import delayed
    t = spec[0]
    if t == "leaf":
        _, nid, v = spec
        if eager:
            return v
        if nid not in memo:
            memo[nid] = delayed(v)
        return memo[nid]
    _, nid, f, args, opts = spec
    if eager:
        return SFUNCS[f](*[build_arg(a, memo, True) for a in args])
    if nid not in memo:
        fn = delayed(SFUNCS[f], pure=opts.get("pure"))
        kw = {}
        if opts.get("key"):
            kw["dask_key_name"] = opts["key"]
        memo[nid] = fn(*[build_arg(a, memo, False) for a in args], **kw)
    return memo[nid]


def build_arg(a, memo, eager):
    t = a[0]
    if t == "lit":
        return a[1]
    if t == "sub":
        return build_sym(a[1], memo, eager)
    if t == "list":
        return [build_arg(x, memo, eager) for x in a[1]]
    if t == "tuple":
        return tuple(build_arg(x, memo, eager) for x in a[1])
    if t == "dict":
        return {build_arg(k, memo, eager): build_arg(v, memo, eager) for k, v in a[1]}
    raise ValueError(a)


def enc_sym(spec, memo, names):
    t = spec[0]
    if t == "leaf":
        return [Sym("leaf"), names[memo[spec[1]].key], spec[2]]
    _, nid, f, args, _ = spec
    return [Sym("call"), names[memo[nid].key], f, [enc_arg(a, memo, names) for a in args]]


def enc_arg(a, memo, names):
    t = a[0]
    if t == "lit":
        return [Sym("lit"), a[1]]
    if t == "sub":
        return [Sym("sub"), enc_sym(a[1], memo, names)]
    if t in ("list", "tuple"):
        return [Sym(t)] + [enc_arg(x, memo, names) for x in a[1]]
    return [Sym("dict")] + [[enc_arg(k, memo, names), enc_arg(v, memo, names)] for k, v in a[1]]


def subprogs(spec, out=None):
    out = [] if out is None else out
    out.append(spec)
    if spec[0] == "call":
        for a in spec[3]:
            _subargs(a, out)
    return out


def _subargs(a, out):
    if a[0] == "sub":
        subprogs(a[1], out)
    elif a[0] in ("list", "tuple"):
        for x in a[1]:
            _subargs(x, out)
    elif a[0] == "dict":
        for k, v in a[1]:
            _subargs(k, out)
            _subargs(v, out)


def case_sym(ctx, inp):
    import dask
    prog = inp["prog"]
    memo = {}
    d = build_sym(prog, memo)
    eager = build_sym(prog, {}, eager=True)
    try:
        real = d.compute(scheduler=inp.get("scheduler", "sync"))
    except Exception as e:
        ctx.fail(f"computing a delayed program raised {type(e).__name__}: {str(e)[:150]}", observed=type(e).__name__, expected=eager)
        return
    if real != eager:
        ctx.fail("delayed program computes a different value than the same program run eagerly",
                 observed=real, expected=eager)
    # names: real keys interned in first-seen order
    subs = subprogs(prog)
    names = {}
    for s in subs:
        names.setdefault(memo[s[1]].key, len(names))
    # hypotheses of delayed_eval on the real keys
    by_key = {}
    for s in subs:
        k = memo[s[1]].key
        v = build_sym(s, {}, eager=True)
        if k in by_key and by_key[k] != v:
            ctx.fail("two Delayed values with the same key denote different values (H1)", observed=[k, by_key[k], v])
        by_key[k] = v
        if s[0] == "call":
            inner = set()
            for a in s[3]:
                tmp = []
                _subargs(a, tmp)
                inner |= {memo[x[1]].key for x in tmp}
            if k in inner:
                ctx.fail("the key of a call equals the key of one of its dependencies (H2)", observed=k)
    graph = dict(d.__dask_graph__())
    from dask._task_spec import convert_legacy_graph
    graph = convert_legacy_graph(graph)
    fuel = len(graph) + 2
    m_eager, m_graph, m_entries = ctx.lean(Sym("delayedrun"), enc_sym(prog, memo, names), fuel)
    ctx.eq("eager value (model vs Python)", m_eager, eager)
    ctx.eq("graph value (model vs dask)", m_graph, real)
    real_entries = sorted([names[k], sorted(names[dk] for dk in t.dependencies)] for k, t in graph.items() if k in names)
    ctx.eq("graph: keys and their dependencies", sorted([e[0], sorted(set(e[1]))] for e in m_entries), real_entries)
    extra = [k for k in graph if k not in names]
    if extra:
        ctx.disagree("keys of the real graph that are no Delayed of the program", [], [str(k) for k in extra][:5])
    # branches
    if len({id(memo[s[1]]) for s in subs}) < len(subs):
        ctx.branch("shared-subprogram")
    if len(set(memo[s[1]].key for s in subs)) < len({id(memo[s[1]]) for s in subs}):
        ctx.branch("equal-keys-distinct-objects")
    kinds = set()
    for s in subs:
        if s[0] == "call":
            for a in s[3]:
                _arg_kinds(a, kinds, 0)
            if s[4].get("pure"):
                kinds.add("pure")
            if s[4].get("key"):
                kinds.add("dask_key_name")
    for k in kinds:
        ctx.branch(k)
    ctx.branch(f"depth{min(_depth(prog), 5)}")


def _arg_kinds(a, kinds, d):
    if a[0] in ("list", "tuple", "dict"):
        kinds.add("container-arg")
        if d >= 1:
            kinds.add("nested-container-arg")
        for x in (a[1] if a[0] != "dict" else [y for p in a[1] for y in p]):
            _arg_kinds(x, kinds, d + 1)
    elif a[0] == "sub" and d >= 1:
        kinds.add("delayed-inside-container")
    if a[0] == "dict" and any(k[0] == "sub" for k, _ in a[1]):
        kinds.add("delayed-as-dict-key")


def _depth(spec):
    if spec[0] == "leaf":
        return 0
    out = []
    for a in spec[3]:
        tmp = []
        _subargs(a, tmp)
        out += [_depth(x) for x in tmp if x is not spec]
    return 1 + max(out, default=0)


# ----------------------------------------------------------------------------------------------
# pure keys
# ----------------------------------------------------------------------------------------------

def _arg_value(spec, memo):
    """argument spec for the purekey stream: ["val", valspec] or ["del", id, valspec] (a delayed leaf with a name)"""
    from dask import delayed
    if spec[0] == "val":
        return U.build(spec[1])
    _, nid, vs = spec
    if nid not in memo:
        memo[nid] = delayed(U.build(vs), name=f"leaf-{nid}")
    return memo[nid]


def _model_key(ctx, fidx, args, kwargs, memo):
    from dask.delayed import Delayed
    from dask.utils import funcname
    table = U.Table()
    # token of the function leaf: tokenize(func, nout, pure=True) with nout=None
    pre = ctx.lean(Sym("tokpre"), [Sym("pickled"), "func", [Sym("int"), fidx]], [Sym("none")])
    ftoken = f"{U.FUNCS[fidx].__name__}-" + hashlib.md5(U.resolve(str(pre), table).encode()).hexdigest()
    encs = [[Sym("str"), ftoken]]
    for a in args:
        encs.append([Sym("str"), a.key] if isinstance(a, Delayed) else U.enc(a, table))
    kw = [[k, ([Sym("str"), v.key] if isinstance(v, Delayed) else U.enc(v, table))] for k, v in kwargs.items()]
    pre2 = ctx.lean(Sym("tokprekw"), encs, kw)
    return ftoken, f"{funcname(U.FUNCS[fidx])}-" + hashlib.md5(U.resolve(str(pre2), table).encode()).hexdigest()


def case_purekey(ctx, inp):
    from dask import delayed
    memo = {}
    fidx = inp["f"]
    fn = delayed(U.FUNCS[fidx], pure=True)
    keys, values = [], []
    for call in inp["calls"]:
        args = [_arg_value(a, memo) for a in call["args"]]
        kwargs = {k: _arg_value(a, memo) for k, a in call.get("kwargs", [])}
        d = fn(*args, **kwargs)
        keys.append(d.key)
        try:
            ftoken, mkey = _model_key(ctx, fidx, args, kwargs, memo)
            ctx.eq("key of the function leaf", ftoken, fn.key)
            ctx.eq("key of a pure call", mkey, d.key)
        except U.Unsupported:
            ctx.note("unsupported")
        values.append((args, kwargs))
    # identical calls -> identical keys; observably different arguments -> different keys
    for i in range(len(keys)):
        for j in range(i):
            (a1, k1), (a2, k2) = values[i], values[j]
            same = len(a1) == len(a2) and all(_same_arg(x, y) for x, y in zip(a1, a2)) and \
                sorted(k1) == sorted(k2) and all(_same_arg(k1[k], k2[k]) for k in k1)
            if same and keys[i] != keys[j]:
                ctx.fail("identical pure calls get different keys", observed=[keys[i], keys[j]])
            if not same and keys[i] == keys[j]:
                ctx.fail("pure calls with observably different arguments get the same key", observed=keys[i])
            ctx.branch("pure-same" if same else "pure-differ")
    if any(c.get("kwargs") for c in inp["calls"]):
        ctx.branch("pure-kwargs")


def _same_arg(x, y):
    from dask.delayed import Delayed
    if isinstance(x, Delayed) or isinstance(y, Delayed):
        return isinstance(x, Delayed) and isinstance(y, Delayed) and x.key == y.key
    return U.obs_eq(x, y)


# ----------------------------------------------------------------------------------------------
# surface: real Python values, oracle only
# ----------------------------------------------------------------------------------------------

@dataclasses.dataclass
class DC:
    a: object
    b: object


NT = collections.namedtuple("NT", "p q")


def _ident(x):
    return x


def _kwf(a, b=0, *, c=1):
    return (a, b, c)


def _pairs(n, m):
    return (n + m, n * m, [n, m])


def surface_program(idx, a, b, lst, lazy):
    """program number `idx` over ints a, b >= 1 and a list; lazy=True builds it with delayed, else runs it eagerly."""
    from dask import delayed
    D = delayed if lazy else (lambda x, **k: x)
    F = (lambda f, **k: delayed(f, **k)) if lazy else (lambda f, **k: f)
    da_, dl = D(a), D(list(lst))
    progs = [
        lambda: (da_ + b) * 2 - 1,
        lambda: dl[1:3],
        lambda: F(sum)([da_, b, dl[0]]),
        lambda: F(dict)({"k": da_, "l": [da_, {"m": da_}]}),
        lambda: F(_ident)(slice(da_, None)),
        lambda: F(DC)(da_, [da_]),
        lambda: F(_ident)(DC(da_, b)),
        lambda: D("abc").upper(),
        lambda: F(divmod, nout=2)(a + 7, b)[1] if lazy else divmod(a + 7, b)[1],
        lambda: F(sorted)({da_, b}) if lazy else sorted({a, b}),
        lambda: F(_ident)(NT(da_, [b, da_])),
        lambda: F(_kwf)(da_, b=dl, c={"x": da_}),
        lambda: (dl + [da_]).count(a) if lazy else (lst + [a]).count(a),
        lambda: D({"x": [a, b]})["x"][1],
        lambda: -da_ % b + (da_ // b) ** 2,
        lambda: D(DC(a, b)).a + da_,
        lambda: F(_ident)((da_, (dl, {da_: dl}))),
        lambda: F(_ident)([[[da_]], {"k": (da_, [b])}]),
        lambda: (da_ > b) | (da_ == a),
        lambda: F(max, pure=True)(da_, b) + F(max, pure=True)(da_, b),
        lambda: F(operator.getitem)(dl, slice(0, da_)) if lazy else lst[0:a],
        lambda: F(_ident)(iter([da_, b])) if lazy else [a, b],
        # right-hand and unary operators, comparisons
        lambda: (b - da_, 2 ** da_, b // da_, [1] * da_, -da_, abs(-da_), ~da_, +da_) if not lazy else
                delayed(tuple)([b - da_, 2 ** da_, b // da_, [1] * da_, -da_, abs(-da_), ~da_, +da_]),
        lambda: (da_ < b, da_ <= b, da_ != b, da_ >= b, da_ & b, da_ ^ b, da_ << 1, da_ >> 1) if not lazy else
                delayed(tuple)([da_ < b, da_ <= b, da_ != b, da_ >= b, da_ & b, da_ ^ b, da_ << 1, da_ >> 1]),
        # attribute chains and methods with keyword arguments
        lambda: D(complex(a, b)).real + D(complex(a, b)).conjugate().imag,
        lambda: D("a-b-c").split("-", maxsplit=1),
        lambda: D("%d-%d").__mod__((da_, b)) if lazy else "%d-%d" % (a, b),
        # calling a delayed callable, apply with kwargs
        lambda: D(_kwf)(da_, c=dl) if lazy else _kwf(a, c=lst),
        lambda: D(sorted)(dl, reverse=True) if lazy else sorted(lst, reverse=True),
        # an object that contains delayed values (task is not obj): list / dict / tuple / set / dataclass / namedtuple
        lambda: D([da_, b, [dl, {"k": da_}]]),
        lambda: D({"x": da_, da_: "y"}) if lazy else {"x": a, a: "y"},
        lambda: D((da_, b)) if lazy else (a, b),
        lambda: D(DC(da_, (b, da_))),
        lambda: D(NT(da_, dl)),
        lambda: D({da_, b + 10}) if lazy else {a, b + 10},
        # traverse=False leaves nested Delayed objects alone: compute them explicitly afterwards
        lambda: delayed(_ident)(delayed([a, b], traverse=False))[1] if lazy else [a, b][1],
        # nout = 0 / 1, name=, nested nout
        lambda: tuple(F(_ident, nout=1)((da_,))) if not lazy else delayed(tuple)(list(F(_ident, nout=1)((da_,)))),
        lambda: len(list(F(_ident, nout=0)(()))) if lazy else 0,
        lambda: delayed(a, name="given-name-%d" % idx) + 1 if lazy else a + 1,
        # slices with delayed members, item access by delayed index
        lambda: dl[da_ % 3:] + dl[::b] if True else None,
        lambda: dl[da_ % 4],
        lambda: F(_ident)(slice(None, da_, b)) if lazy else slice(None, a, b),
        # deep sharing: the same delayed value used many times
        lambda: F(sum)([da_ * i for i in range(6)]) + F(sum)([da_ * i for i in range(6)]),
        lambda: F(dict)([(i, da_ + i) for i in range(3)]) if lazy else {i: a + i for i in range(3)},
    ]
    return progs[idx % len(progs)]()


N_SURFACE = 44


def _plain(x):
    if dataclasses.is_dataclass(x) and not isinstance(x, type):
        return ("DC", _plain(x.a), _plain(x.b))
    if isinstance(x, NT):
        return ("NT", _plain(x.p), _plain(x.q))
    if isinstance(x, dict):
        return ("dict", sorted((repr(_plain(k)), _plain(v)) for k, v in x.items()))
    if isinstance(x, (set, frozenset)):
        return ("set", sorted(repr(_plain(e)) for e in x))
    if isinstance(x, (list, tuple)):
        return (type(x).__name__, [_plain(e) for e in x])
    if isinstance(x, slice):
        return ("slice", x.start, x.stop, x.step)
    if hasattr(x, "__next__"):
        return ("list", [_plain(e) for e in x])
    return (type(x).__name__, repr(x))


def case_surface(ctx, inp):
    import dask
    idx, a, b, lst = inp["idx"], inp["a"], inp["b"], inp["lst"]
    want = surface_program(idx, a, b, lst, lazy=False)
    try:
        d = surface_program(idx, a, b, lst, lazy=True)
        got = dask.compute(d, scheduler=inp.get("scheduler", "sync"))[0]
    except Exception as e:
        ctx.fail(f"a delayed program raised {type(e).__name__}: {str(e)[:150]}", observed=type(e).__name__,
                 expected=repr(_plain(want))[:300])
        return
    if _plain(got) != _plain(want):
        ctx.fail("delayed program computes a different value than the same program run eagerly",
                 sig=None, observed=repr(_plain(got))[:300], expected=repr(_plain(want))[:300])
    ctx.branch(f"surface-{idx % N_SURFACE}")


def case_nout(ctx, inp):
    """nout-unpacking yields the elements of the returned tuple; iteration without nout raises TypeError."""
    from dask import delayed
    import dask
    n, m = inp["n"], inp["m"]
    f = delayed(_pairs, nout=3, pure=inp.get("pure", False))
    res = f(n, m)
    parts = list(res)
    if len(parts) != 3:
        ctx.fail("a Delayed with nout=3 does not iterate into 3 parts", observed=len(parts))
        return
    vals = dask.compute(*parts, scheduler="sync")
    want = _pairs(n, m)
    if tuple(vals) != tuple(want):
        ctx.fail("nout-unpacking does not yield the elements of the returned tuple", observed=repr(vals), expected=repr(want))
    x, y, z = res
    if (x + y).compute(scheduler="sync") != want[0] + want[1]:
        ctx.fail("unpacked parts combine wrongly", observed=None)
    try:
        list(delayed(_pairs)(n, m))
        ctx.fail("iterating a Delayed without nout did not raise", observed=None)
    except TypeError:
        pass
    if len(res) != 3:
        ctx.fail("len() of a Delayed with nout=3", observed=len(res))
    ctx.branch("nout")


def _ret_tuple(n, m, k):
    return tuple(n * 10 + i + m for i in range(k))


def _ret_list(n, m, k):
    return [n * 10 + i + m for i in range(k)]


def _ret_dict(n, m, k):
    return {i: n * 10 + i + m for i in range(k)}


def _ret_nested(n, m, k):
    return tuple((i, [n, m]) for i in range(k))


_RETS = {"tuple": _ret_tuple, "list": _ret_list, "dict": _ret_dict, "nested": _ret_nested}


def case_nout2(ctx, inp):
    """nout-unpacking over what the function returns (tuple, list, dict keyed 0..n-1, nested tuples), nout = 0..4, also
    smaller than the returned length; through a plain call, a method call and a delayed callable; pure on/off"""
    import dask
    from dask import delayed
    n, m, k, nout, kind = inp["n"], inp["m"], inp["k"], inp["nout"], inp["kind"]
    f = _RETS[kind]
    want_all = f(n, m, k)
    how = inp.get("how", "call")
    if how == "call":
        res = delayed(f, nout=nout, pure=inp.get("pure"))(n, m, k)
    elif how == "nested-arg":
        res = delayed(f, nout=nout, pure=inp.get("pure"))(delayed(n), [delayed(m)][0], k)
    else:
        res = delayed(f, nout=nout)(n, m, dask_key_name=f"named-{n}-{m}-{k}-{nout}", k=k)
    try:
        parts = list(res)
    except Exception as e:
        ctx.fail(f"iterating a Delayed with nout={nout} raised {type(e).__name__}", observed=str(e)[:100])
        return
    if len(parts) != nout or len(res) != nout:
        ctx.fail("a Delayed with nout=n does not iterate into n parts", observed=[len(parts), nout])
        return
    if nout > k:
        ctx.branch("nout-larger-than-result")
        return      # the eager program fails too (IndexError / KeyError)
    vals = dask.compute(*parts, scheduler="sync") if parts else ()
    want = [want_all[i] for i in range(nout)]
    if [_plain(v) for v in vals] != [_plain(v) for v in want]:
        ctx.fail("nout-unpacking does not yield the elements of the returned value", observed=repr(vals)[:200], expected=repr(want)[:200])
    whole = res.compute(scheduler="sync")
    if _plain(whole) != _plain(want_all):
        ctx.fail("a Delayed with nout computes a different value than the eager call", observed=repr(whole)[:200], expected=repr(want_all)[:200])
    if inp.get("pure") and how == "call":
        again = delayed(f, nout=nout, pure=True)(n, m, k)
        if again.key != res.key or [p.key for p in again] != [p.key for p in parts]:
            ctx.fail("identical pure calls with nout get different keys (the call or its parts)", observed=[res.key, again.key])
    ctx.branch(f"nout2-{kind}-{how}")
    ctx.branch(f"nout2-nout{nout}")


def case_keys(ctx, inp):
    """the key rules of delayed: pure / impure / named, for functions, methods and wrapped objects"""
    import dask
    from dask import delayed
    n = inp["n"]
    f_pure, f_imp = delayed(_pairs, pure=True), delayed(_pairs)
    checks = [
        ("pure call twice -> same key", f_pure(n, 1).key == f_pure(n, 1).key, True),
        ("pure call, other argument -> other key", f_pure(n, 1).key == f_pure(n + 1, 1).key, False),
        ("pure call, other keyword -> other key", delayed(_kwf, pure=True)(n, b=1).key == delayed(_kwf, pure=True)(n, b=2).key, False),
        ("pure call, same keywords in another order -> same key",
         delayed(_kwf, pure=True)(n, b=1, c=2).key == delayed(_kwf, pure=True)(n, c=2, b=1).key, True),
        ("impure call twice -> different keys", f_imp(n, 1).key == f_imp(n, 1).key, False),
        ("pure=True at call time", f_imp(n, 1, pure=True).key == f_imp(n, 1, pure=True).key, True),
        ("dask_key_name", f_imp(n, 1, dask_key_name="given").key, "given"),
        ("delayed(obj, name=)", delayed(n, name="obj-name").key, "obj-name"),
        ("delayed(obj) twice -> different keys", delayed(n).key == delayed(n).key, False),
        ("delayed(obj, pure=True) twice -> same key", delayed(n, pure=True).key == delayed(n, pure=True).key, True),
        ("delayed(obj, pure=True), other object -> other key", delayed(n, pure=True).key == delayed(n + 1, pure=True).key, False),
        ("pure function leaf: same function -> same key", delayed(_pairs, pure=True).key == delayed(_pairs, pure=True).key, True),
        ("pure function leaf: other nout -> other key", delayed(_pairs, pure=True).key == delayed(_pairs, pure=True, nout=3).key, False),
        ("pure method call twice -> same key", delayed("abca").count("a", pure=True).key == delayed("abca").count("a", pure=True).key, False),
        ("pure method call on one object twice -> same key", None, None),
        ("method dask_key_name", delayed("abca").count("a", dask_key_name="cnt").key, "cnt"),
        ("operators are pure", (delayed(n, name="x") + 1).key == (delayed(n, name="x") + 1).key, True),
        ("operators, other operand -> other key", (delayed(n, name="x") + 1).key == (delayed(n, name="x") + 2).key, False),
        ("getitem is pure", delayed([n], name="l")[0].key == delayed([n], name="l")[0].key, True),
        ("getattr key is a function of object key and attribute", delayed(n, name="x").real.key == delayed(n, name="x").real.key, True),
        ("getattr, other attribute -> other key", delayed(n, name="x").real.key == delayed(n, name="x").imag.key, False),
    ]
    obj = delayed("abca", name="s")
    checks[14] = ("pure method call on one object twice -> same key", obj.count("a", pure=True).key == obj.count("a", pure=True).key, True)
    with dask.config.set(delayed_pure=True):
        checks.append(("config delayed_pure: call twice -> same key", f_imp(n, 1).key == f_imp(n, 1).key, True))
        checks.append(("config delayed_pure: method twice -> same key", obj.count("a").key == obj.count("a").key, True))
    for what, got, want in checks:
        if got != want:
            ctx.fail("key rule violated: " + what, observed=got, expected=want)
    # the keys are only names: every variant computes the same value
    vals = dask.compute(f_pure(n, 1), f_imp(n, 1), f_imp(n, 1, pure=True), f_imp(n, 1, dask_key_name="given2"), scheduler="sync")
    if any(v != _pairs(n, 1) for v in vals):
        ctx.fail("pure / impure / named calls of one function compute different values", observed=repr(vals))
    ctx.branch("keys")


def case_collarg(ctx, inp):
    """dask collections passed to delayed functions are computed and finalized first"""
    import numpy as np
    import dask
    import dask.array as da
    import dask.bag as db
    from dask import delayed
    n = inp["n"]
    x = np.arange(n + 2)
    arr = da.from_array(x, chunks=2)
    bag = db.from_sequence(list(range(n + 1)), npartitions=2)
    progs = [
        (delayed(np.sum)(arr + 1), (x + 1).sum()),
        (delayed(_ident)([arr.sum(), 1]), [x.sum(), 1]),
        (delayed(sorted)(bag), sorted(range(n + 1))),
        (delayed(len)(bag.map(_ident)) + delayed(int)(arr.max()), n + 1 + int(x.max())),
        (delayed(_ident)({"a": arr, "b": (bag, 1)}), {"a": x, "b": (list(range(n + 1)), 1)}),
    ]
    d, want = progs[inp["idx"] % len(progs)]
    try:
        got = d.compute(scheduler=inp.get("scheduler", "sync"))
    except Exception as e:
        ctx.fail(f"a delayed call on a dask collection raised {type(e).__name__}: {str(e)[:150]}", observed=type(e).__name__)
        return

    def canon(v):
        if isinstance(v, np.ndarray):
            return ("nd", v.tolist())
        if isinstance(v, np.generic):
            return ("v", v.item())
        if isinstance(v, dict):
            return ("dict", sorted((k, canon(x)) for k, x in v.items()))
        if isinstance(v, (list, tuple)):
            return (type(v).__name__, [canon(e) for e in v])
        return ("v", v)
    if canon(got) != canon(want):
        ctx.fail("a delayed call on a dask collection computes a different value than the eager call on the computed collection",
                 observed=repr(canon(got))[:300], expected=repr(canon(want))[:300])
    ctx.branch(f"collarg-{inp['idx'] % len(progs)}")


# ----------------------------------------------------------------------------------------------
# function level: unpack_collections of dask/delayed.py vs Model/DelayedUnpack.lean
# ----------------------------------------------------------------------------------------------

@dataclasses.dataclass(frozen=True)
class UD1:
    a: object


@dataclasses.dataclass(frozen=True)
class UD2:
    a: object
    b: object


@dataclasses.dataclass
class UD3:          # not frozen: unhashable
    a: object
    b: object
    c: object


UN1 = collections.namedtuple("UN1", "p")
UN2 = collections.namedtuple("UN2", "p q")
UN3 = collections.namedtuple("UN3", "p q r")
UDS = {1: UD1, 2: UD2, 3: UD3}
UNS = {1: UN1, 2: UN2, 3: UN3}


def _capture(*args, **kwargs):
    return (args, kwargs)


class _Holder:
    def capture(self, *args, **kwargs):
        return (args, kwargs)


def build_pv(spec, leaves, eager):
    """PV spec -> python object; `leaves[k]` is the Delayed standing for key k (eager: its value 1000 + k)"""
    t = spec[0]
    if t == "lit":
        return None if spec[1] == 0 else spec[1]
    if t == "del":
        return 1000 + spec[1] if eager else leaves[spec[1]]
    if t in ("list", "tuple", "set", "ilist", "ituple", "iset"):
        xs = [build_pv(x, leaves, eager) for x in spec[1]]
        base = xs if t.endswith("list") else tuple(xs) if t.endswith("tuple") else set(xs)
        return iter(base) if (t[0] == "i" and not eager) else base
    if t == "dict":
        return {build_pv(k, leaves, eager): build_pv(v, leaves, eager) for k, v in spec[1]}
    if t == "slice":
        return slice(*[build_pv(x, leaves, eager) for x in spec[1:4]])
    if t == "dc":
        return UDS[len(spec[2])](*[build_pv(x, leaves, eager) for x in spec[2]])
    if t == "nt":
        return UNS[len(spec[2])](*[build_pv(x, leaves, eager) for x in spec[2]])
    raise ValueError(spec)


def pv_of(obj, it_kind=None):
    """python object -> PV spec, in the iteration order of the object itself (what dask sees)"""
    from dask.delayed import Delayed
    if isinstance(obj, Delayed):
        return ["del", int(obj.key[1:])]
    if obj is None:
        return ["lit", 0]
    if isinstance(obj, bool):
        raise ValueError(obj)
    if isinstance(obj, int):
        return ["lit", obj]
    if type(obj) in UNS.values():
        return ["nt", len(obj), [pv_of(x) for x in obj]]
    if type(obj) in (list, tuple, set):
        return [type(obj).__name__, [pv_of(x) for x in obj]]
    if type(obj) is dict:
        return ["dict", [[pv_of(k), pv_of(v)] for k, v in obj.items()]]
    if type(obj) is slice:
        return ["slice", pv_of(obj.start), pv_of(obj.stop), pv_of(obj.step)]
    if type(obj) in UDS.values():
        return ["dc", len(dataclasses.fields(obj)), [pv_of(getattr(obj, f.name)) for f in dataclasses.fields(obj)]]
    if hasattr(obj, "__next__"):
        return ["unconverted-iterator", type(obj).__name__]      # the model never hands an iterator on
    raise ValueError(f"no PV for {obj!r}")


def enc_pv(spec):
    t = spec[0]
    if t in ("lit", "del"):
        return [Sym(t), spec[1]]
    if t in ("list", "tuple", "set", "ilist", "ituple", "iset"):
        return [Sym(t)] + [enc_pv(x) for x in spec[1]]
    if t == "dict":
        return [Sym("dict")] + [[enc_pv(k), enc_pv(v)] for k, v in spec[1]]
    if t == "slice":
        return [Sym("slice")] + [enc_pv(x) for x in spec[1:4]]
    return [Sym(t), spec[1]] + [enc_pv(x) for x in spec[2]]


def dec_pv(m):
    t = str(m[0])
    if t in ("lit", "del"):
        return [t, m[1]]
    if t in ("list", "tuple", "set", "ilist", "ituple", "iset"):
        return [t, [dec_pv(x) for x in m[1:]]]
    if t == "dict":
        return ["dict", [[dec_pv(k), dec_pv(v)] for k, v in m[1:]]]
    if t == "slice":
        return ["slice"] + [dec_pv(x) for x in m[1:4]]
    return [t, m[1], [dec_pv(x) for x in m[2:]]]


def dec_tt(m):
    """model task s-expression -> canonical JSON"""
    t = str(m[0])
    if t == "obj":
        return ["obj", dec_pv(m[1])]
    if t == "ref":
        return ["ref", m[1]]
    if t == "list":
        return ["list", [dec_tt(x) for x in m[1:]]]
    if t == "conv":
        return _set_canon(["conv", str(m[1]), dec_tt(m[2])])
    if t == "dict":
        return ["dict", [[dec_tt(k), dec_tt(v)] for k, v in m[1:]]]
    if t == "slice":
        return ["slice"] + [dec_tt(x) for x in m[1:4]]
    return [t, m[1], [dec_tt(x) for x in m[2:]]]


def _canon_sets(j):
    """the children of every set in a canonical order (sets inside handed-on objects too)"""
    if isinstance(j, list):
        j = [_canon_sets(x) for x in j]
        if len(j) == 2 and j[0] in ("set", "iset") and isinstance(j[1], list):
            j = [j[0], sorted(j[1], key=lambda x: json.dumps(x, sort_keys=True))]
    return j


def _set_canon(c):
    """the elements of a rebuilt set in a canonical order (a set iterator is converted into a NEW set, whose iteration
    order need not be that of the set the harness looked at)"""
    if c[0] == "conv" and c[1] == "set" and c[2][0] == "list":
        return ["conv", "set", ["list", sorted(c[2][1], key=repr)]]
    return c


def canon_task(t):
    """the task returned by the real unpack_collections -> the same canonical JSON"""
    from dask._task_spec import Dict, GraphNode, List, Task, TaskRef
    from dask.delayed import _reconstruct_namedtuple
    from dask.utils import apply
    if isinstance(t, TaskRef):
        return ["ref", int(str(t.key)[1:])]
    if isinstance(t, Dict):
        args = list(t.args)
        return ["dict", [[canon_task(args[i]), canon_task(args[i + 1])] for i in range(0, len(args), 2)]]
    if isinstance(t, List):
        return ["list", [canon_task(a) for a in t.args]]
    if isinstance(t, Task):
        if t.func in (tuple, set) and len(t.args) == 1 and not t.kwargs:
            return _set_canon(["conv", t.func.__name__, canon_task(t.args[0])])
        if t.func is apply and t.args and t.args[0] is slice:
            inner = canon_task(t.args[1])
            if inner[0] != "list" or len(inner[1]) != 3:
                return ["unknown-slice", repr(t)]
            return ["slice"] + inner[1]
        if t.func is apply and t.args and t.args[0] in UDS.values():
            d = t.args[2]
            if not (isinstance(d, Task) and d.func is dict and len(d.args) == 1 and t.args[1] == ()):
                return ["unknown-dataclass", repr(t)]
            fields = []
            pairs = d.args[0]
            for pr in (pairs.args if isinstance(pairs, List) else pairs):
                name, val = (pr.args if isinstance(pr, List) else pr)
                fields.append((name, canon_task(val)))
            cls = t.args[0]
            if [n for n, _ in fields] != [f.name for f in dataclasses.fields(cls)]:
                return ["unknown-dataclass-fields", repr(t)]
            return ["dc", len(fields), [v for _, v in fields]]
        if t.func is _reconstruct_namedtuple:
            inner = canon_task(t.args[1])
            if inner[0] != "conv" or inner[1] != "tuple" or inner[2][0] != "list":
                return ["unknown-namedtuple", repr(t)]
            return ["nt", len(inner[2][1]), inner[2][1]]
        return ["unknown-task", repr(t)]
    if isinstance(t, GraphNode):
        return ["unknown-node", repr(t)]
    return ["obj", pv_of(t)]


def _typed(x):
    """value with exact types (the eager / computed argument)"""
    if dataclasses.is_dataclass(x) and not isinstance(x, type):
        return [type(x).__name__, [_typed(getattr(x, f.name)) for f in dataclasses.fields(x)]]
    if isinstance(x, tuple) and hasattr(x, "_fields"):
        return [type(x).__name__, [_typed(e) for e in x]]
    if type(x) in (list, tuple):
        return [type(x).__name__, [_typed(e) for e in x]]
    if type(x) in (set, frozenset):
        return [type(x).__name__, sorted((_typed(e) for e in x), key=repr)]
    if type(x) is dict:
        return ["dict", [[_typed(k), _typed(v)] for k, v in x.items()]]
    if type(x) is slice:
        return ["slice", _typed(x.start), _typed(x.stop), _typed(x.step)]
    if hasattr(x, "__next__"):
        return ["iterator", [_typed(e) for e in x]]
    return [type(x).__name__, repr(x)]


def _pv_kinds(spec, kinds, depth, inside):
    t = spec[0]
    if t == "del" and depth >= 2:
        kinds.add("delayed-two-levels-deep")
    if t in ("tuple", "set", "ituple", "iset") and depth >= 1 and _pv_has_del(spec):
        kinds.add(f"{t.lstrip('i')}-with-delayed-inside-{inside}")
    if t in ("list", "tuple", "set", "ilist", "ituple", "iset"):
        for x in spec[1]:
            _pv_kinds(x, kinds, depth + 1, t.lstrip("i"))
        if t[0] == "i" and t != "iset" or t == "iset":
            kinds.add("iterator")
    elif t == "dict":
        for k, v in spec[1]:
            _pv_kinds(k, kinds, depth + 1, "dict-key")
            _pv_kinds(v, kinds, depth + 1, "dict")
    elif t == "slice":
        kinds.add("slice")
        for x in spec[1:4]:
            _pv_kinds(x, kinds, depth + 1, "slice")
    elif t in ("dc", "nt"):
        kinds.add(t)
        for x in spec[2]:
            _pv_kinds(x, kinds, depth + 1, t)


def _pv_has_del(spec):
    t = spec[0]
    if t == "del":
        return True
    if t == "lit":
        return False
    if t == "dict":
        return any(_pv_has_del(k) or _pv_has_del(v) for k, v in spec[1])
    if t == "slice":
        return any(_pv_has_del(x) for x in spec[1:4])
    return any(_pv_has_del(x) for x in (spec[2] if t in ("dc", "nt") else spec[1]))


def case_unpackfn(ctx, inp):
    """one delayed call `_capture(*args, **kwargs)`: (a) unpack_collections on every argument vs the model (task shape and
    collections), (b) the task evaluated on the dependency values == the argument with the values in place (exact types),
    (c) the task of the call in the real graph vs the model's callArgs, (d) compute == eager call."""
    import dask
    from dask import delayed
    from dask.delayed import unpack_collections
    keys = sorted({k for a in inp["args"] + [v for _, v in inp["kwargs"]] for k in _pv_dels(a)})
    if inp.get("leafkind") == "call":
        leaves = {k: delayed(_ident)(1000 + k, dask_key_name=f"k{k}") for k in keys}
    else:
        leaves = {k: delayed(1000 + k, name=f"k{k}") for k in keys}
    env = {f"k{k}": 1000 + k for k in keys}
    kinds = set()
    for pos, spec in enumerate(inp["args"] + [v for _, v in inp["kwargs"]]):
        obj = build_pv(spec, leaves, False)
        # what dask sees, read off a twin object in which the iterators are the containers they iterate over
        twin = pv_of(build_pv(_deiter(spec), leaves, False))
        if not _same_shape(spec, twin):
            ctx.note("unpackfn-entries-merged-by-python")      # equal set elements / dict keys (a namedtuple equals its tuple)
            return
        actual = _retag(spec, twin)
        task, colls = unpack_collections(obj)
        m_task, m_colls = ctx.lean(Sym("dunpack"), enc_pv(actual))
        ctx.eq("unpack_collections: task", _canon_sets(dec_tt(m_task)), _canon_sets(canon_task(task)))
        if "set" in json.dumps(spec):
            ctx.eq("unpack_collections: collections (as a multiset)", sorted(f"k{k}" for k in m_colls), sorted(c.key for c in colls))
        else:
            ctx.eq("unpack_collections: collections", [f"k{k}" for k in m_colls], [c.key for c in colls])
        # the task on the dependency values
        from dask._task_spec import GraphNode, TaskRef
        want = _typed(build_pv(spec, leaves, True))
        try:
            got = task(env) if isinstance(task, GraphNode) else (env[task.key] if isinstance(task, TaskRef) else task)
            got = _typed(got)
        except Exception as e:
            got = ["raised", type(e).__name__, str(e)[:100]]
        if got != want:
            ctx.fail("the task built for an argument does not evaluate to the argument with the values in place",
                     observed=got, expected=want, inp={"args": [spec], "kwargs": [], "leafkind": inp.get("leafkind")})
        _pv_kinds(spec, kinds, 0, "top" if pos < len(inp["args"]) else "kwargs")
        if pos >= len(inp["args"]) and spec[0] in ("tuple", "set") and _pv_has_del(spec):
            kinds.add(f"{spec[0]}-with-delayed-inside-kwargs")
    # the call
    args = [build_pv(a, leaves, False) for a in inp["args"]]
    kwargs = {k: build_pv(v, leaves, False) for k, v in inp["kwargs"]}
    eargs = [build_pv(a, leaves, True) for a in inp["args"]]
    ekwargs = {k: build_pv(v, leaves, True) for k, v in inp["kwargs"]}
    opts = {}
    if inp.get("pure"):
        opts["pure"] = True
    how = inp.get("how", "function")
    try:
        if how == "method":
            # a method of a delayed object (DelayedAttr.__call__), optionally pure / named
            mk = {}
            if inp.get("pure"):
                mk["pure"] = True
            if inp.get("named"):
                mk["dask_key_name"] = "named-method-call"
            d = delayed(_Holder(), name="holder").capture(*args, **kwargs, **mk)
            if inp.get("named") and d.key != "named-method-call":
                ctx.fail("dask_key_name of a method call is not the key", observed=d.key)
            if inp.get("pure") and not inp.get("named"):
                args2 = [build_pv(a, leaves, False) for a in inp["args"]]
                kwargs2 = {k: build_pv(v, leaves, False) for k, v in inp["kwargs"]}
                if not any("\"i" in json.dumps(a) for a in inp["args"] + [v for _, v in inp["kwargs"]]):
                    d2 = delayed(_Holder(), name="holder").capture(*args2, **kwargs2, pure=True)
                    if d2.key != d.key:
                        ctx.fail("identical pure method calls get different keys", observed=[d.key, d2.key])
        elif how == "callable":
            # calling a delayed callable (Delayed.__call__ -> apply)
            d = delayed(_capture, name="capture-leaf")(*args, **kwargs) if not inp.get("pure") else \
                delayed(delayed(_ident)(_capture))(*args, pure=True, **kwargs)
        else:
            d = delayed(_capture, **opts)(*args, **kwargs)
        got = d.compute(scheduler="sync")
    except Exception as e:
        ctx.fail(f"a delayed call with nested arguments raised {type(e).__name__}: {str(e)[:150]}", observed=type(e).__name__)
        return
    want = _capture(*eargs, **ekwargs)
    if _typed(got) != _typed(want):
        ctx.fail("delayed program computes a different value than the same program run eagerly (nested arguments)",
                 observed=_typed(got), expected=_typed(want))
    ctx.branch("unpack-how-" + how)
    if how == "function" and not any("\"i" in json.dumps(a) for a in inp["args"] + [v for _, v in inp["kwargs"]]):
        t = dict(d.__dask_graph__())[d.key]
        m_args, m_kw, m_colls = ctx.lean(Sym("dcall"), [enc_pv(pv_of(a)) for a in args], [[k, enc_pv(pv_of(v))] for k, v in kwargs.items()])
        ctx.eq("task of the call: positional arguments", _canon_sets([dec_tt(x) for x in m_args]), _canon_sets([canon_task(a) for a in t.args]))
        ctx.eq("task of the call: keyword arguments", _canon_sets(sorted([str(k), dec_tt(v)] for k, v in m_kw)),
               _canon_sets(sorted([k, canon_task(v)] for k, v in t.kwargs.items())))
        ctx.eq("task of the call: dependencies", sorted({f"k{k}" for k in m_colls}), sorted(map(str, t.dependencies)))
    for k in kinds:
        ctx.branch("unpack-" + k)
    if inp["kwargs"]:
        ctx.branch("unpack-kwargs")


def _deiter(spec):
    t = spec[0]
    if t in ("lit", "del"):
        return spec
    if t in ("ilist", "ituple", "iset"):
        t = t[1:]
    if t == "dict":
        return ["dict", [[_deiter(k), _deiter(v)] for k, v in spec[1]]]
    if t == "slice":
        return ["slice"] + [_deiter(x) for x in spec[1:4]]
    if t in ("dc", "nt"):
        return [t, spec[1], [_deiter(x) for x in spec[2]]]
    return [t, [_deiter(x) for x in spec[1]]]


def _same_shape(spec, actual):
    """did Python keep every entry (no two equal set elements / dict keys were merged)?"""
    t = spec[0]
    if t in ("lit", "del"):
        return actual[0] == t
    if actual[0] != (t[1:] if t in ("ilist", "ituple", "iset") else t):
        return False
    if t == "dict":
        return len(spec[1]) == len(actual[1]) and all(_same_shape(k, ak) and _same_shape(v, av) for (k, v), (ak, av) in zip(spec[1], actual[1]))
    if t == "slice":
        return all(_same_shape(x, ax) for x, ax in zip(spec[1:4], actual[1:4]))
    if t in ("dc", "nt"):
        return len(spec[2]) == len(actual[2]) and all(_same_shape(x, ax) for x, ax in zip(spec[2], actual[2]))
    if t in ("set", "iset"):
        return len(spec[1]) == len(actual[1])
    return len(spec[1]) == len(actual[1]) and all(_same_shape(x, ax) for x, ax in zip(spec[1], actual[1]))


def _retag(spec, actual):
    """`actual` (read off the twin object: real iteration order of sets) with the iterator tags of `spec` put back;
    sets hold no iterators (their elements are hashable values), everything else keeps its order"""
    t = spec[0]
    if t in ("lit", "del"):
        return actual
    if t in ("set", "iset"):
        return [t, actual[1]]
    if t == "dict":
        return ["dict", [[_retag(k, ak), _retag(v, av)] for (k, v), (ak, av) in zip(spec[1], actual[1])]]
    if t == "slice":
        return ["slice"] + [_retag(x, ax) for x, ax in zip(spec[1:4], actual[1:4])]
    if t in ("dc", "nt"):
        return [t, actual[1], [_retag(x, ax) for x, ax in zip(spec[2], actual[2])]]
    return [t, [_retag(x, ax) for x, ax in zip(spec[1], actual[1])]]


def _pv_dels(spec):
    t = spec[0]
    if t == "del":
        return [spec[1]]
    if t == "lit":
        return []
    if t == "dict":
        return [x for k, v in spec[1] for x in _pv_dels(k) + _pv_dels(v)]
    if t == "slice":
        return [x for y in spec[1:4] for x in _pv_dels(y)]
    return [x for y in (spec[2] if t in ("dc", "nt") else spec[1]) for x in _pv_dels(y)]


def gen_pv(rng, depth, hashable=False, maxdepth=4):
    """random argument; `hashable`: usable as set element / dict key (after evaluation too)"""
    r = rng.random()
    if depth >= maxdepth or r < 0.3:
        return ["del", rng.randint(1, 4)] if rng.random() < 0.55 else ["lit", rng.randint(0, 9)]
    if hashable:
        k = rng.randrange(4)
        if k <= 1:
            return ["tuple", [gen_pv(rng, depth + 1, True, maxdepth) for _ in range(rng.randint(0, 3))]]
        if k == 2:
            return ["nt", 0, [gen_pv(rng, depth + 1, True, maxdepth) for _ in range(rng.randint(1, 3))]]
        return ["dc", 0, [gen_pv(rng, depth + 1, True, maxdepth) for _ in range(rng.randint(1, 2))]]
    k = rng.randrange(11)
    n = rng.randint(0, 3)
    if k <= 1:
        return ["list", [gen_pv(rng, depth + 1, False, maxdepth) for _ in range(n)]]
    if k <= 3:
        return ["tuple", [gen_pv(rng, depth + 1, False, maxdepth) for _ in range(n)]]
    if k == 4:
        return ["set", _distinct_pv([gen_pv(rng, depth + 1, True, maxdepth) for _ in range(n)])]
    if k <= 6:
        keys = _distinct_pv([gen_pv(rng, depth + 2, True, maxdepth) for _ in range(n)])
        return ["dict", [[kk, gen_pv(rng, depth + 1, False, maxdepth)] for kk in keys]]
    if k == 7:
        return ["slice"] + [gen_pv(rng, maxdepth, False, maxdepth) for _ in range(3)]
    if k == 8:
        return ["dc", 0, [gen_pv(rng, depth + 1, False, maxdepth) for _ in range(rng.randint(1, 3))]]
    if k == 9:
        return ["nt", 0, [gen_pv(rng, depth + 1, False, maxdepth) for _ in range(rng.randint(1, 3))]]
    kind = rng.choice(["ilist", "ituple", "iset"])
    if kind == "iset":
        return ["iset", _distinct_pv([gen_pv(rng, depth + 1, True, maxdepth) for _ in range(n)])]
    return [kind, [gen_pv(rng, depth + 1, False, maxdepth) for _ in range(n)]]


def _distinct_pv(specs):
    """distinct as python values, before and after evaluation (a namedtuple equals the plain tuple of its fields; a
    Delayed k evaluates to 1000 + k, literals stay below 10): otherwise a set / dict would merge the entries"""
    out, vals = [], []
    for s in specs:
        v = build_pv(s, {}, True)
        if s not in out and not any(v == w and hash(v) == hash(w) for w in vals):
            out.append(s)
            vals.append(v)
    return out


from props import _c15x_ops as XO

CASES = {"ops": XO.case_ops, "callname": XO.case_callname, "sym": case_sym, "purekey": case_purekey, "surface": case_surface, "nout": case_nout, "keys": case_keys,
         "collarg": case_collarg, "unpackfn": case_unpackfn, "nout2": case_nout2}


# ----------------------------------------------------------------------------------------------
# generators
# ----------------------------------------------------------------------------------------------

def gen_prog(rng, depth, pool, counter):
    """random symbolic program; `pool` holds already generated sub-programs that may be shared"""
    if pool and rng.random() < 0.25:
        return rng.choice(pool)
    counter[0] += 1
    nid = counter[0]
    if depth >= 4 or rng.random() < 0.2:
        p = ["leaf", nid, rng.randint(0, 9)]
    else:
        opts = {}
        r = rng.random()
        if r < 0.4:
            opts["pure"] = True
        elif r < 0.5:
            opts["key"] = f"given-{nid}"
        args = [gen_arg(rng, depth + 1, pool, counter, 0) for _ in range(rng.randint(0, 3))]
        p = ["call", nid, rng.randrange(len(SFUNCS)), args, opts]
    pool.append(p)
    return p


def gen_arg(rng, depth, pool, counter, cdepth):
    r = rng.random()
    if r < 0.3:
        return ["lit", rng.randint(0, 9)]
    if r < 0.65 or cdepth >= 3:
        return ["sub", gen_prog(rng, depth, pool, counter)]
    k = rng.choice(["list", "tuple", "dict"])
    n = rng.randint(0, 3)
    if k == "dict":
        keys = []
        for _ in range(n):
            kk = ["lit", rng.randint(0, 9)] if rng.random() < 0.7 else ["sub", gen_prog(rng, depth + 1, pool, counter)]
            if kk not in keys and not (kk[0] == "sub" and kk[1][0] == "call" and False):
                keys.append(kk)
        # dict keys must be hashable after evaluation and distinct: literals and delayed ints only
        lits = set()
        items = []
        for kk in keys:
            if kk[0] == "lit":
                if kk[1] in lits:
                    continue
                lits.add(kk[1])
            items.append([kk, gen_arg(rng, depth, pool, counter, cdepth + 1)])
        return ["dict", items]
    return [k, [gen_arg(rng, depth, pool, counter, cdepth + 1) for _ in range(n)]]


def _fix_dict_keys(spec):
    """Delayed dict keys evaluate to ints that may collide with literal keys; keep only programs where the evaluated
    keys of every dict are distinct (checked by running the eager program)."""
    ok = [True]

    def chk(a):
        if a[0] == "dict":
            ks = [build_arg(k, {}, True) for k, _ in a[1]]
            if len(set(ks)) != len(ks):
                ok[0] = False
            for k, v in a[1]:
                chk(k)
                chk(v)
        elif a[0] in ("list", "tuple"):
            for x in a[1]:
                chk(x)
        elif a[0] == "sub" and a[1][0] == "call":
            for x in a[1][3]:
                chk(x)
    if spec[0] == "call":
        for a in spec[3]:
            chk(a)
    return ok[0]


EXPLICIT_SYM = [
    ["call", 3, 1, [["sub", ["call", 2, 0, [["sub", ["leaf", 1, 5]]], {"pure": True}]],
                    ["list", [["sub", ["call", 2, 0, [["sub", ["leaf", 1, 5]]], {"pure": True}]],
                              ["dict", [[["lit", 1], ["sub", ["leaf", 1, 5]]]]]]]], {}],
    ["call", 4, 2, [["tuple", [["dict", [[["sub", ["leaf", 1, 3]], ["list", [["sub", ["leaf", 2, 4]]]]]]]]]], {"pure": True}],
]


EXPLICIT_UNPACK = [
    # tuples / sets holding Delayed values INSIDE another container or passed by keyword keep their type
    {"args": [["list", [["tuple", [["del", 1], ["lit", 10]]]]]], "kwargs": [["shape", ["tuple", [["del", 1], ["del", 2]]]]], "leafkind": "leaf"},
    {"args": [["dict", [[["lit", 7], ["tuple", [["del", 1], ["del", 2]]]]]], ["list", [["set", [["del", 1], ["del", 2]]]]]],
     "kwargs": [["cfg", ["dict", [[["lit", 1], ["set", [["del", 3], ["lit", 4]]]]]]]], "leafkind": "leaf"},
    {"args": [["dc", 0, [["tuple", [["del", 1]]], ["lit", 2]]], ["nt", 0, [["tuple", [["del", 2], ["lit", 3]]], ["set", [["del", 1]]]]]],
     "kwargs": [], "leafkind": "call"},
    {"args": [["tuple", [["tuple", [["tuple", [["del", 1]]]]]]], ["slice", ["del", 1], ["lit", 0], ["del", 2]]], "kwargs": [], "leafkind": "leaf"},
]


def generate(ctx):
    rng = ctx.rng
    for p in EXPLICIT_SYM:
        yield "sym", {"prog": p}
    n = 0
    target = ctx.n(400, 5000)
    while n < target:
        counter = [0]
        p = gen_prog(rng, 0, [], counter)
        if p[0] == "leaf" or not _fix_dict_keys(p):
            continue
        n += 1
        yield "sym", {"prog": p, "scheduler": rng.choice(["sync", "sync", "threads"])}
    for _ in range(ctx.n(150, 2000)):
        base = U.gen_value(rng, 1, arrays=rng.random() < 0.3)
        calls = []
        for _ in range(rng.randint(2, 3)):
            r = rng.random()
            v = base if r < 0.4 else U.mutate(rng, base)[0]
            a0 = ["val", v] if rng.random() < 0.8 else ["del", rng.randint(1, 2), v]
            call = {"args": [a0] + ([["val", ["int", rng.randint(0, 1)]]] if rng.random() < 0.3 else [])}
            if rng.random() < 0.25:
                call["kwargs"] = [[k, ["val", U.gen_scalar(rng)]] for k in rng.sample(["y", "a", "zz"], rng.randint(1, 2))]
            calls.append(call)
        yield "purekey", {"f": rng.randrange(len(U.FUNCS)), "calls": calls}
    for e in EXPLICIT_UNPACK:
        yield "unpackfn", dict(e)
    # every argument up to depth 2 over {literal, two Delayed}: all of them in the thorough tier, every fifth otherwise
    from props import _token_exhaustive as X
    for i, case in enumerate(X.pv_cases()):
        if ctx.thorough() or i % 5 == ctx.seed % 5:
            yield case
    for _ in range(ctx.n(300, 4000)):
        args = [gen_pv(rng, 0) for _ in range(rng.randint(0, 3))]
        kwargs = [[k, gen_pv(rng, 0)] for k in rng.sample(["shape", "cfg", "x", "key"], rng.choice([0, 0, 1, 2]))]
        yield "unpackfn", {"args": args, "kwargs": kwargs, "pure": rng.random() < 0.3,
                           "leafkind": rng.choice(["leaf", "leaf", "call"]),
                           "how": rng.choice(["function", "function", "function", "method", "callable"]), "named": rng.random() < 0.3}
    for i in range(ctx.n(110, 1500)):
        yield "surface", {"idx": i, "a": rng.randint(1, 4), "b": rng.randint(1, 5), "lst": [rng.randint(0, 9) for _ in range(4)],
                          "scheduler": rng.choice(["sync", "threads"])}
    for _ in range(ctx.n(10, 50)):
        yield "nout", {"n": rng.randint(0, 5), "m": rng.randint(0, 5), "pure": rng.random() < 0.5}
    for _ in range(ctx.n(60, 600)):
        k = rng.randint(0, 4)
        yield "nout2", {"n": rng.randint(0, 5), "m": rng.randint(0, 5), "k": k, "nout": rng.randint(0, k) if rng.random() < 0.9 else k + 1,
                        "kind": rng.choice(list(_RETS)), "how": rng.choice(["call", "call", "nested-arg", "named"]),
                        "pure": rng.choice([None, True, False])}
    for i in range(ctx.n(6, 30)):
        yield "keys", {"n": rng.randint(0, 9)}
    for i in range(ctx.n(15, 100)):
        yield "collarg", {"idx": i, "n": rng.randint(1, 5), "scheduler": rng.choice(["sync", "threads"])}
    # extension round: operators / item / attribute access / method calls (appended last: the streams above are unchanged)
    yield from XO.generate(ctx)


def search(ctx):
    yield from generate(ctx)
