"""C15 extension — operators, reflected operators, unary operators, item / attribute access and method calls on Delayed
values (dask/delayed.py `Delayed._get_binary_operator`, `DelayedAttr`, `call_function`; dask/utils.py `_bind_operator`,
`methodcaller`, `funcname`).

Model:    lean/DaskModel/Model/DelayedOps.lean (`X`, `evalX`, `lower`, `graphOfX`, `shapeOf`, `skey`, `opKey`, `attrKey`,
          `methodKey`, `callName`, `effPure`);  theorems lean/DaskModel/Props/C15xOps.lean
Sections: `ops`      symbolic programs over a value class `SymV` whose operators / items / attributes / methods return the
                     code of the operation: model eager == model graph == real dask == eager Python; keys and dependencies
                     of the real graph == the model's; per operation the real task (legacy tuple or Task, callable
                     identity, argument references, `dependencies=` of the layer) == `shapeOf`; which nodes share a key ==
                     which share a symbolic key; the exact key of every pure node == prefix-md5(model pre-image); H1 / H2
                     of `delayed_eval_ops` checked on the real keys
          `callname` the naming branch of `call_function` (dask_key_name / pure at the call / pure of the leaf /
                     configuration / uuid4) for functions, methods and operators vs `callName (effPure …)`
"""
from __future__ import annotations

import functools
import hashlib
import json
import operator

from sexp import Sym

M61 = 2305843009213693951


def combine(c, vs):
    acc = c
    for x in vs:
        acc = (acc * 1000003 + x + 1) % M61
    return acc


BINOPS = [operator.add, operator.sub, operator.mul, operator.floordiv, operator.truediv, operator.mod, operator.pow,
          operator.and_, operator.or_, operator.xor, operator.lshift, operator.rshift, operator.matmul,
          operator.lt, operator.le, operator.gt, operator.ge]
N_REFLECT = 13                      # the first 13 have a reflected form (`_bind_operator`: comparisons and getitem have none)
UNOPS = [operator.neg, operator.pos, operator.abs, operator.invert]
ATTRS = ["a0", "a1", "a2", "a3"]
METHODS = ["m0", "m1", "m2_" + "long_method_name_" * 4]      # 71 characters: funcname(methodcaller) keeps 50


def code(x):
    """the value algebra of the driver's `codeSemX` on real Python values"""
    if isinstance(x, SymV):
        return x.c
    if isinstance(x, list):
        return combine(1001, [code(e) for e in x])
    if isinstance(x, tuple):
        return combine(1002, [code(e) for e in x])
    if isinstance(x, dict):
        out = []
        for k, v in x.items():
            out += [code(k), code(v)]
        return combine(1003, out)
    return int(x)


class SymV:
    """a value on which every operation returns the code of (operation, operands)"""
    __slots__ = ("c",)
    __iter__ = None

    def __init__(self, c):
        self.c = c

    def __repr__(self):
        return f"SymV({self.c})"

    def __hash__(self):
        return hash(self.c)

    def __getitem__(self, i):
        return SymV(combine(3001, [self.c, code(i)]))

    def __getattr__(self, name):
        if name in ATTRS:
            return SymV(combine(3002, [self.c, ATTRS.index(name)]))
        raise AttributeError(name)


def _dunder(op):
    name = op.__name__
    return name[:-1] if name.endswith("_") else name


def _install():
    for o, op in enumerate(BINOPS):
        def fwd(self, other, *mod, _o=o):
            if _o in (15, 16):      # a > b is b < a, a >= b is b <= a: what Python assumes when it reflects a comparison
                return SymV(combine(2000 + _o - 2, [code(other), self.c]))
            return SymV(combine(2000 + _o, [self.c, code(other)]))

        def rev(self, other, *mod, _o=o):
            return SymV(combine(2000 + _o, [code(other), self.c]))
        setattr(SymV, f"__{_dunder(op)}__", fwd)
        if o < N_REFLECT:
            setattr(SymV, f"__r{_dunder(op)}__", rev)
    for o, op in enumerate(UNOPS):
        def un(self, _o=o):
            return SymV(combine(2100 + _o, [self.c]))
        setattr(SymV, f"__{_dunder(op)}__", un)
    for m, name in enumerate(METHODS):
        def meth(self, *args, _m=m):
            return SymV(combine(4000 + _m, [self.c] + [code(a) for a in args]))
        meth.__name__ = name
        setattr(SymV, name, meth)


_install()


def _mk(i):
    def f(*args):
        return SymV(combine(i, [code(a) for a in args]))
    f.__name__ = f"xf{i}"
    f.__qualname__ = f"xf{i}"
    return f


XFUNCS = [_mk(i) for i in range(4)]
for _i, _f in enumerate(XFUNCS):
    globals()[f"xf{_i}"] = _f


# ----------------------------------------------------------------------------------------------
# programs
# ----------------------------------------------------------------------------------------------

def _opts(spec):
    return spec[-1] if spec[0] in ("call", "method") else {}


def build(spec, memo, eager=False):
    """program spec -> Delayed (or eager value). Nodes with the same id are the same Python object."""
    from dask import delayed
    t, nid = spec[0], spec[1]
    if not eager and nid in memo:
        return memo[nid]
    if t == "leaf":
        r = SymV(spec[2]) if eager else delayed(SymV(spec[2]))
    elif t == "call":
        _, _, f, args, opts = spec
        a = [build_arg(x, memo, eager) for x in args]
        if eager:
            r = XFUNCS[f](*a)
        else:
            kw = {"dask_key_name": opts["key"]} if opts.get("key") else {}
            r = delayed(XFUNCS[f], pure=opts.get("pure"))(*a, **kw)
    elif t == "binop":
        r = BINOPS[spec[2]](build(spec[3], memo, eager), build_arg(spec[4], memo, eager))
    elif t == "rbinop":
        r = BINOPS[spec[2]](build_arg(spec[3], memo, eager), build(spec[4], memo, eager))
    elif t == "unop":
        r = UNOPS[spec[2]](build(spec[3], memo, eager))
    elif t == "getitem":
        r = build(spec[2], memo, eager)[build_arg(spec[3], memo, eager)]
    elif t == "getattr":
        r = getattr(build(spec[2], memo, eager), ATTRS[spec[3]])
    elif t == "method":
        _, _, x, m, args, opts = spec
        a = [build_arg(y, memo, eager) for y in args]
        kw = {}
        if not eager:
            if opts.get("pure") is not None:
                kw["pure"] = opts["pure"]
            if opts.get("key"):
                kw["dask_key_name"] = opts["key"]
        r = getattr(build(x, memo, eager), METHODS[m])(*a, **kw)
    else:
        raise ValueError(spec)
    if not eager:
        memo[nid] = r
    return r


def build_arg(a, memo, eager):
    t = a[0]
    if t == "lit":
        return a[1]
    if t == "sub":
        return build(a[1], memo, eager)
    if t == "list":
        return [build_arg(x, memo, eager) for x in a[1]]
    if t == "tuple":
        return tuple(build_arg(x, memo, eager) for x in a[1])
    if t == "dict":
        return {build_arg(k, memo, eager): build_arg(v, memo, eager) for k, v in a[1]}
    raise ValueError(a)


def children(spec):
    """(sub-programs, arguments) of a node, in the order of the model's `subX`"""
    t = spec[0]
    if t == "leaf":
        return [], []
    if t == "call":
        return [], spec[3]
    if t == "binop":
        return [spec[3]], [spec[4]]
    if t == "rbinop":
        return [spec[4]], [spec[3]]
    if t == "unop":
        return [spec[3]], []
    if t == "getitem":
        return [spec[2]], [spec[3]]
    if t == "getattr":
        return [spec[2]], []
    return [spec[2]], spec[4]


def subprogs(spec, out=None):
    out = [] if out is None else out
    out.append(spec)
    progs, args = children(spec)
    for p in progs:
        subprogs(p, out)
    for a in args:
        _subargs(a, out)
    return out


def _subargs(a, out):
    if a[0] == "sub":
        subprogs(a[1], out)
    elif a[0] in ("list", "tuple"):
        for x in a[1]:
            _subargs(x, out)
    elif a[0] == "dict":
        for k, v in a[1]:
            _subargs(k, out)
            _subargs(v, out)


def is_pure(spec):
    """does the node get the pure name (the model's `pure` flag of call / method nodes)?"""
    o = _opts(spec)
    return bool(o.get("pure")) and not o.get("key")


def enc_x(spec, memo, names):
    t, nid = spec[0], spec[1]
    nm = names[memo[nid].key]
    if t == "leaf":
        return [Sym("leaf"), nm, spec[2]]
    if t == "call":
        return [Sym("call"), nm, is_pure(spec), spec[2], [enc_a(a, memo, names) for a in spec[3]]]
    if t == "binop":
        return [Sym("binop"), nm, spec[2], enc_x(spec[3], memo, names), enc_a(spec[4], memo, names)]
    if t == "rbinop":
        return [Sym("rbinop"), nm, spec[2], enc_a(spec[3], memo, names), enc_x(spec[4], memo, names)]
    if t == "unop":
        return [Sym("unop"), nm, spec[2], enc_x(spec[3], memo, names)]
    if t == "getitem":
        return [Sym("getitem"), nm, enc_x(spec[2], memo, names), enc_a(spec[3], memo, names)]
    if t == "getattr":
        return [Sym("getattr"), nm, enc_x(spec[2], memo, names), spec[3]]
    return [Sym("method"), nm, is_pure(spec), enc_x(spec[2], memo, names), spec[3], [enc_a(a, memo, names) for a in spec[4]]]


def enc_a(a, memo, names):
    t = a[0]
    if t == "lit":
        return [Sym("lit"), a[1]]
    if t == "sub":
        return [Sym("sub"), enc_x(a[1], memo, names)]
    if t in ("list", "tuple"):
        return [Sym(t)] + [enc_a(x, memo, names) for x in a[1]]
    return [Sym("dict")] + [[enc_a(k, memo, names), enc_a(v, memo, names)] for k, v in a[1]]


# ----------------------------------------------------------------------------------------------
# the real task, canonically
# ----------------------------------------------------------------------------------------------

def canon_callable(func):
    from dask.delayed import _swap
    from dask.utils import methodcaller
    if func is getattr:
        return ["getattr"]
    if func is operator.getitem:
        return ["getitem"]
    for i, f in enumerate(XFUNCS):
        if func is f:
            return ["fn", i]
    if isinstance(func, functools.partial):
        if func.func is _swap and len(func.args) == 1 and not func.keywords and func.args[0] in BINOPS[:N_REFLECT]:
            return ["rbinop", BINOPS.index(func.args[0])]
        return ["unknown-partial", repr(func)]
    if isinstance(func, methodcaller):
        if func is methodcaller(func.method) and func.method in METHODS:
            return ["method", METHODS.index(func.method)]
        return ["unknown-methodcaller", repr(func)]
    for i, f in enumerate(BINOPS):
        if func is f:
            return ["binop", i]
    for i, f in enumerate(UNOPS):
        if func is f:
            return ["unop", i]
    return ["unknown", repr(func)]


def dec_callable(m, nargs):
    out = [str(m[0])] + [int(x) for x in m[1:]]
    return out


def _plain_pv(x):
    if isinstance(x, bool) or not isinstance(x, (int, list, tuple, dict)):
        return ["unknown-object", repr(x)]
    if isinstance(x, int):
        return ["lit", x]
    if isinstance(x, dict):
        return ["dict", [[_plain_pv(k), _plain_pv(v)] for k, v in x.items()]]
    return [type(x).__name__, [_plain_pv(e) for e in x]]


def canon_arg(t, names):
    """one argument of the real task -> the JSON form of the model's TT"""
    from dask._task_spec import Dict, GraphNode, List, Task, TaskRef
    if isinstance(t, TaskRef):
        return ["ref", names.get(t.key, f"unknown-key:{t.key}")]
    if isinstance(t, Dict):
        args = list(t.args)
        return ["dict", [[canon_arg(args[i], names), canon_arg(args[i + 1], names)] for i in range(0, len(args), 2)]]
    if isinstance(t, List):
        return ["list", [canon_arg(a, names) for a in t.args]]
    if isinstance(t, Task):
        if t.func in (tuple, set) and len(t.args) == 1 and not t.kwargs:
            return ["conv", t.func.__name__, canon_arg(t.args[0], names)]
        return ["unknown-task", repr(t)]
    if isinstance(t, GraphNode):
        return ["unknown-node", repr(t)]
    return ["obj", _plain_pv(t)]


def dec_pv(m):
    t = str(m[0])
    if t in ("lit", "del"):
        return [t, m[1]]
    if t == "dict":
        return ["dict", [[dec_pv(k), dec_pv(v)] for k, v in m[1:]]]
    return [t, [dec_pv(x) for x in m[1:]]]


def dec_tt(m):
    t = str(m[0])
    if t == "obj":
        return ["obj", dec_pv(m[1])]
    if t == "ref":
        return ["ref", m[1]]
    if t == "list":
        return ["list", [dec_tt(x) for x in m[1:]]]
    if t == "conv":
        return ["conv", str(m[1]), dec_tt(m[2])]
    if t == "dict":
        return ["dict", [[dec_tt(k), dec_tt(v)] for k, v in m[1:]]]
    return ["unknown", repr(m)]


def canon_skey(m):
    """the model's symbolic key as a string, the items of every dict sorted (tokenize sorts them too)"""
    def go(x):
        if isinstance(x, list):
            ys = [go(y) for y in x]
            if ys and ys[0] == "dict":
                ys = ["dict"] + sorted(ys[1:], key=lambda p: json.dumps(p))
            return ys
        return str(x) if isinstance(x, Sym) else x
    return json.dumps(go(m))


# ----------------------------------------------------------------------------------------------
# exact keys
# ----------------------------------------------------------------------------------------------

def enc_opnd(x):
    """an operand as the token sees it: a Delayed is its key"""
    from dask.delayed import Delayed
    if isinstance(x, Delayed):
        return [Sym("str"), x.key]
    if isinstance(x, bool) or not isinstance(x, (int, list, tuple, dict)):
        raise ValueError(x)
    if isinstance(x, int):
        return [Sym("int"), x]
    if isinstance(x, dict):
        return [Sym("dict")] + [[enc_opnd(k), enc_opnd(v)] for k, v in x.items()]
    return [Sym(type(x).__name__)] + [enc_opnd(e) for e in x]


def _md5(pre):
    return hashlib.md5(str(pre).encode(), usedforsecurity=False).hexdigest()


_LEAF_KEYS = {}


def leaf_key(func):
    """key of the DelayedLeaf `delayed(func, pure=True)` the operator methods are closed over (real code; its token —
    the pickle of the function — is the subject of C12)"""
    from dask import delayed
    k = id(func)
    if k not in _LEAF_KEYS:
        _LEAF_KEYS[k] = (func, delayed(func, pure=True).key)
    return _LEAF_KEYS[k][1]


def model_pure_key(ctx, spec, memo):
    """the key of a pure node according to the model (`opKey` / `attrKey` / `methodKey`), or None for a given key"""
    from dask.delayed import right
    t = spec[0]
    if t in ("leaf",) or (t in ("call", "method") and not is_pure(spec)):
        return None
    if t == "getattr":
        prefix, pre = ctx.lean(Sym("opkey"), Sym("attr"), memo[spec[2][1]].key, ATTRS[spec[3]])
    elif t == "method":
        prefix, pre = ctx.lean(Sym("opkey"), Sym("method"), METHODS[spec[3]], memo[spec[2][1]].key,
                               [enc_opnd(build_arg(a, memo, False)) for a in spec[4]], [])
    else:
        if t == "call":
            func, fname, ops = XFUNCS[spec[2]], f"xf{spec[2]}", [build_arg(a, memo, False) for a in spec[3]]
        elif t == "binop":
            func, fname = BINOPS[spec[2]], BINOPS[spec[2]].__name__
            ops = [memo[spec[3][1]], build_arg(spec[4], memo, False)]
        elif t == "rbinop":
            func, fname = ("right", spec[2]), "_swap"
            ops = [memo[spec[4][1]], build_arg(spec[3], memo, False)]
        elif t == "unop":
            func, fname, ops = UNOPS[spec[2]], UNOPS[spec[2]].__name__, [memo[spec[3][1]]]
        else:
            func, fname = operator.getitem, "getitem"
            ops = [memo[spec[2][1]], build_arg(spec[3], memo, False)]
        if isinstance(func, tuple):
            key = ("right", func[1])
            if key not in _LEAF_KEYS:
                from dask import delayed
                _LEAF_KEYS[key] = (None, delayed(right(BINOPS[func[1]]), pure=True).key)
            lk = _LEAF_KEYS[key][1]
        else:
            lk = leaf_key(func)
        prefix, pre = ctx.lean(Sym("opkey"), Sym("op"), fname, lk, [enc_opnd(o) for o in ops])
    return f"{prefix}-{_md5(pre)}"


# ----------------------------------------------------------------------------------------------
# section `ops`
# ----------------------------------------------------------------------------------------------

_MIRROR = {13: 15, 15: 13, 14: 16, 16: 14}        # lt <-> gt, le <-> ge


def _pyclass(spec):
    """the class of the Delayed a node is: DelayedLeaf and DelayedAttr are subclasses of Delayed"""
    return {"leaf": "DelayedLeaf", "getattr": "DelayedAttr"}.get(spec[0], "Delayed")


def py_dispatch(spec):
    """what Python makes of the program before dask sees it: `a < b` with `type(b)` a proper subclass of `type(a)` is
    dispatched to the reflected comparison of the RIGHT operand, `b.__gt__(a)` (the data model's rule for rich
    comparisons; arithmetic operators are not affected: the subclasses do not override `__radd__` …).  So a comparison of
    a plain Delayed with a DelayedLeaf / DelayedAttr on the right becomes the mirrored comparison task."""
    def arg(a):
        t = a[0]
        if t == "lit":
            return a
        if t == "sub":
            return ["sub", py_dispatch(a[1])]
        if t in ("list", "tuple"):
            return [t, [arg(x) for x in a[1]]]
        return ["dict", [[arg(k), arg(v)] for k, v in a[1]]]
    t = spec[0]
    if t == "leaf":
        return spec
    if t == "call":
        return ["call", spec[1], spec[2], [arg(a) for a in spec[3]], spec[4]]
    if t == "binop":
        l, r = py_dispatch(spec[3]), arg(spec[4])
        if spec[2] in _MIRROR and r[0] == "sub" and _pyclass(l) == "Delayed" and _pyclass(r[1]) != "Delayed":
            return ["binop", spec[1], _MIRROR[spec[2]], r[1], ["sub", l]]
        return ["binop", spec[1], spec[2], l, r]
    if t == "rbinop":
        return ["rbinop", spec[1], spec[2], arg(spec[3]), py_dispatch(spec[4])]
    if t == "unop":
        return ["unop", spec[1], spec[2], py_dispatch(spec[3])]
    if t == "getitem":
        return ["getitem", spec[1], py_dispatch(spec[2]), arg(spec[3])]
    if t == "getattr":
        return ["getattr", spec[1], py_dispatch(spec[2]), spec[3]]
    return ["method", spec[1], py_dispatch(spec[2]), spec[3], [arg(a) for a in spec[4]], spec[5]]


def case_ops(ctx, inp):
    import dask
    from dask._task_spec import GraphNode, convert_legacy_graph
    eager = build(inp["prog"], {}, eager=True)
    prog = py_dispatch(inp["prog"])
    if prog != inp["prog"]:
        ctx.branch("ops-comparison-reflected-by-python")
    memo = {}
    d = build(prog, memo)
    if build(prog, {}, eager=True).c != eager.c:
        ctx.disagree("the value algebra of the harness does not satisfy a > b == b < a", None, None)
    try:
        real = d.compute(scheduler=inp.get("scheduler", "sync"))
    except Exception as e:
        ctx.fail(f"computing a delayed operator program raised {type(e).__name__}: {str(e)[:150]}",
                 observed=type(e).__name__, expected=eager.c)
        return
    if not isinstance(real, SymV) or real.c != eager.c:
        ctx.fail("delayed operator program computes a different value than the same program run eagerly",
                 observed=repr(real), expected=repr(eager))
        return
    subs = subprogs(prog)
    names = {}
    for s in subs:
        names.setdefault(memo[s[1]].key, len(names))
    # hypotheses of delayed_eval_ops on the real keys
    by_key = {}
    for s in subs:
        k = memo[s[1]].key
        v = build(s, {}, eager=True).c
        if k in by_key and by_key[k] != v:
            ctx.fail("two Delayed values with the same key denote different values (H1)", observed=[k, by_key[k], v])
        by_key[k] = v
        inner = {memo[x[1]].key for x in subprogs(s)[1:]}
        if k in inner:
            ctx.fail("the key of an operation equals the key of a Delayed value below it (H2)", observed=k)
    hlg = d.__dask_graph__()
    raw = dict(hlg)
    graph = convert_legacy_graph(raw)
    fuel = len(graph) + 2
    m_eager, m_graph, m_entries, m_shapes, m_skeys = ctx.lean(Sym("opsrun"), enc_x(prog, memo, names), fuel)
    ctx.eq("eager value (model vs Python)", m_eager, eager.c)
    ctx.eq("graph value (model vs dask)", m_graph, real.c)
    real_entries = sorted([names[k], sorted(names.get(dk, str(dk)) for dk in t.dependencies)] for k, t in graph.items() if k in names)
    ctx.eq("graph: keys and their dependencies", sorted([e[0], sorted(set(e[1]))] for e in m_entries), real_entries)
    extra = [k for k in graph if k not in names]
    if extra:
        ctx.disagree("keys of the real graph that are no Delayed of the program", [], [str(k) for k in extra][:5])
    # the task of every operation
    by_nm = {names[memo[s[1]].key]: memo[s[1]] for s in subs}
    for nm, legacy, call, args, deps in m_shapes:
        node = by_nm[nm]
        # the node's OWN layer, as call_function / DelayedAttr.dask built it (reached through a container argument the
        # layer is rewritten by _finalize_args_collections: converted, culled, dependencies flattened)
        own = node.__dask_graph__()
        t = own.layers[node.key][node.key]
        if isinstance(t, tuple):
            r_legacy, r_func = True, t[0]
            r_args = [["ref", names[a]] if (isinstance(a, str) and a in names) else
                      ["obj", ["lit", ATTRS.index(a)] if a in ATTRS else ["unknown-attr", repr(a)]] for a in t[1:]]
            r_kwargs = {}
        elif isinstance(t, GraphNode) and hasattr(t, "func"):
            r_legacy, r_func, r_kwargs = False, t.func, t.kwargs
            r_args = [canon_arg(a, names) for a in t.args]
        else:
            ctx.disagree("an operation is neither a Task nor a legacy tuple", [nm, str(call[0])], repr(t)[:100])
            continue
        ctx.eq("task: legacy tuple or Task", legacy is True, r_legacy)
        ctx.eq("task: callable identity", dec_callable(call, len(args)), canon_callable(r_func))
        ctx.eq("task: arguments", [dec_tt(a) for a in args], r_args)
        if r_kwargs:
            ctx.disagree("task: keyword arguments of an operator / method task", {}, repr(r_kwargs)[:100])
        layer_deps = own.dependencies.get(node.key)
        ctx.eq("layer: dependencies= of HighLevelGraph.from_collections", sorted(set(deps)),
               sorted(names.get(k, str(k)) for k in (layer_deps or ())))
    # which nodes share a key
    sk_of, nm_of = {}, {}
    for nm, sk in m_skeys:
        c = canon_skey(sk)
        sk_of.setdefault(nm, set()).add(c)
        nm_of.setdefault(c, set()).add(nm)
    for nm, cs in sk_of.items():
        if len(cs) > 1:
            ctx.disagree("two nodes share a real key but not a symbolic key", sorted(cs)[:2], by_nm[nm].key)
            ctx.fail("operations that differ (operator, attribute, method or operand keys) get the same key",
                     observed=by_nm[nm].key, expected=sorted(cs)[:2])
    for c, nms in nm_of.items():
        if len(nms) > 1:
            ctx.disagree("two nodes share a symbolic key but not a real key", c[:200], sorted(by_nm[n].key for n in nms))
            ctx.fail("operations on operands with equal keys get different keys (operators / pure calls are pure)",
                     observed=sorted(by_nm[n].key for n in nms))
    # the exact key of every pure node
    seen = set()
    for s in subs:
        if s[1] in seen:
            continue
        seen.add(s[1])
        mk = model_pure_key(ctx, s, memo)
        if mk is not None:
            ctx.eq(f"exact key of a {s[0]} node", mk, memo[s[1]].key)
        o = _opts(s)
        if o.get("key") and memo[s[1]].key != o["key"]:
            ctx.fail("dask_key_name is not the key of the call", observed=memo[s[1]].key, expected=o["key"])
    # branches
    kinds = {s[0] for s in subs}
    for k in kinds:
        ctx.branch("ops-" + k)
    objs = {s[1] for s in subs}
    if len({memo[i].key for i in objs}) < len(objs):
        ctx.branch("ops-equal-keys-distinct-objects")
    if len(objs) < len(subs):
        ctx.branch("ops-shared-subprogram")
    for s in subs:
        progs, args = children(s)
        o = _opts(s)
        if s[0] in ("binop", "getitem") and args and args[0][0] == "sub":
            ctx.branch("ops-both-operands-delayed")
        if s[0] in ("binop", "rbinop", "getitem") and args and args[0][0] in ("list", "tuple", "dict"):
            ctx.branch("ops-container-operand")
            tmp = []
            _subargs(args[0], tmp)
            if tmp:
                ctx.branch("ops-delayed-inside-container-operand")
        if s[0] == "method":
            ctx.branch("ops-method-named" if o.get("key") else "ops-method-pure" if o.get("pure") else "ops-method-impure")
            if s[2][0] == "getattr":
                ctx.branch("ops-method-on-attribute")
        if s[0] == "getattr" and s[2][0] == "getattr":
            ctx.branch("ops-attribute-chain")
        if s[0] == "binop" and s[2] >= N_REFLECT:
            ctx.branch("ops-comparison")


# ----------------------------------------------------------------------------------------------
# section `callname`
# ----------------------------------------------------------------------------------------------

def case_callname(ctx, inp):
    """the naming branch of call_function: dask_key_name / effective purity / token / uuid4"""
    import uuid as _uuid
    from unittest import mock
    import dask
    from dask import delayed
    from dask.base import tokenize
    how, dkn, cp, lp, cfg = inp["how"], inp.get("dkn"), inp.get("callpure"), inp.get("leafpure"), inp["cfg"]
    fixed = _uuid.UUID(int=inp["u"])
    obj = delayed(SymV(inp["n"]), name=f"obj-{inp['n']}")
    args = [obj if a == "obj" else a for a in inp["args"]]
    kw = {}
    if cp is not None:
        kw["pure"] = cp
    if dkn:
        kw["dask_key_name"] = dkn
    with dask.config.set(delayed_pure=cfg), mock.patch("dask.delayed.uuid.uuid4", return_value=fixed):
        if how == "function":
            leaf = delayed(XFUNCS[0], pure=lp)
            d = leaf(*args, **kw)
            fname, ftoken, targs = "xf0", leaf.key, args
        elif how == "method":
            d = getattr(obj, METHODS[1])(*args, **kw)
            fname, ftoken, targs, lp = METHODS[1], METHODS[1], [obj] + args, None
        else:
            d = obj + args[0] if how == "operator" else args[0] - obj
            fname = "add" if how == "operator" else "_swap"
            targs, cp, lp, dkn = [obj, args[0]], None, True, None
    if how == "operator":
        ftoken = leaf_key(operator.add)
    elif how == "roperator":
        from dask.delayed import right
        ftoken = delayed(right(operator.sub), pure=True).key
    tok = tokenize(ftoken, *targs)
    want = ctx.lean(Sym("callname"), dkn if dkn else Sym("none"), Sym("none") if cp is None else cp,
                    Sym("none") if lp is None else lp, cfg, fname, tok, str(fixed))
    ctx.eq("key given by call_function", str(want), d.key)
    if dkn and d.key != dkn:
        ctx.fail("dask_key_name is not the key of the call", observed=d.key, expected=dkn)
    eff = cp if cp is not None else (lp if lp is not None else cfg)
    ctx.branch(f"callname-{how}-" + ("named" if dkn else "pure" if eff else "uuid"))
    if how == "method" and cp is None and cfg:
        ctx.branch("callname-method-pure-by-config")
    if cp is False and (lp or cfg):
        ctx.branch("callname-impure-on-request")


CASES = {"ops": case_ops, "callname": case_callname}


# ----------------------------------------------------------------------------------------------
# generators
# ----------------------------------------------------------------------------------------------

def clone(spec, counter):
    """the same program built from fresh Python objects"""
    def cl_a(a):
        t = a[0]
        if t == "lit":
            return a
        if t == "sub":
            return ["sub", clone(a[1], counter)]
        if t in ("list", "tuple"):
            return [t, [cl_a(x) for x in a[1]]]
        return ["dict", [[cl_a(k), cl_a(v)] for k, v in a[1]]]
    counter[0] += 1
    nid = counter[0]
    t = spec[0]
    if t == "leaf":
        # a fresh leaf is another Delayed (another uuid key): keep the object
        return spec
    def opts(o):
        o = dict(o)
        if o.get("key"):
            o["key"] = f"given-{nid}"       # another Delayed under the same name would be another definition of the key
        return o
    if t == "call":
        return ["call", nid, spec[2], [cl_a(a) for a in spec[3]], opts(spec[4])]
    if t == "binop":
        return ["binop", nid, spec[2], clone(spec[3], counter), cl_a(spec[4])]
    if t == "rbinop":
        return ["rbinop", nid, spec[2], cl_a(spec[3]), clone(spec[4], counter)]
    if t == "unop":
        return ["unop", nid, spec[2], clone(spec[3], counter)]
    if t == "getitem":
        return ["getitem", nid, clone(spec[2], counter), cl_a(spec[3])]
    if t == "getattr":
        return ["getattr", nid, clone(spec[2], counter), spec[3]]
    return ["method", nid, clone(spec[2], counter), spec[3], [cl_a(a) for a in spec[4]], opts(spec[5])]


def gen_x(rng, depth, pool, counter):
    if pool and rng.random() < 0.22:
        return rng.choice(pool)
    if pool and rng.random() < 0.15:
        p = clone(rng.choice(pool), counter)
        pool.append(p)
        return p
    counter[0] += 1
    nid = counter[0]
    if depth >= 4 or rng.random() < 0.17:
        p = ["leaf", nid, rng.randint(0, 9)]
        pool.append(p)
        return p
    kind = rng.choice(["call", "binop", "binop", "rbinop", "unop", "getitem", "getattr", "method", "method"])
    sub = lambda: gen_x(rng, depth + 1, pool, counter)
    arg = lambda: gen_xarg(rng, depth + 1, pool, counter, 0)
    if kind == "call":
        p = ["call", nid, rng.randrange(len(XFUNCS)), [arg() for _ in range(rng.randint(0, 3))], _gen_opts(rng, nid)]
    elif kind == "binop":
        p = ["binop", nid, rng.randrange(len(BINOPS)), sub(), arg()]
    elif kind == "rbinop":
        left = gen_xarg(rng, depth + 1, pool, counter, 0, no_sub=True, no_dict=True)
        p = ["rbinop", nid, rng.randrange(N_REFLECT), left, sub()]
    elif kind == "unop":
        p = ["unop", nid, rng.randrange(len(UNOPS)), sub()]
    elif kind == "getitem":
        p = ["getitem", nid, sub(), arg()]
    elif kind == "getattr":
        p = ["getattr", nid, sub(), rng.randrange(len(ATTRS))]
    else:
        p = ["method", nid, sub(), rng.randrange(len(METHODS)), [arg() for _ in range(rng.randint(0, 2))], _gen_opts(rng, nid)]
    pool.append(p)
    return p


def _gen_opts(rng, nid):
    r = rng.random()
    if r < 0.45:
        return {"pure": True}
    if r < 0.55:
        return {"key": f"given-{nid}"}
    if r < 0.62:
        return {"pure": False}
    return {}


def gen_xarg(rng, depth, pool, counter, cdepth, no_sub=False, no_dict=False):
    r = rng.random()
    if r < 0.35:
        return ["lit", rng.randint(0, 9)]
    if (r < 0.7 or cdepth >= 2) and not (no_sub and cdepth == 0):
        return ["sub", gen_x(rng, depth, pool, counter)]
    kinds = ["list", "tuple"] + ([] if no_dict else ["dict"])
    k = rng.choice(kinds)
    n = rng.randint(0, 3)
    if k == "dict":
        keys = rng.sample(range(10), n)
        return ["dict", [[["lit", kk], gen_xarg(rng, depth, pool, counter, cdepth + 1)] for kk in keys]]
    return [k, [gen_xarg(rng, depth, pool, counter, cdepth + 1) for _ in range(n)]]


def _x():
    return ["leaf", 1, 5]


EXPLICIT_OPS = [
    # (x + 1) twice from distinct objects, x + 2, 1 + x, x - 1 and 1 - x
    ["call", 9, 0, [["sub", ["binop", 2, 0, _x(), ["lit", 1]]], ["sub", ["binop", 3, 0, _x(), ["lit", 1]]],
                    ["sub", ["binop", 4, 0, _x(), ["lit", 2]]], ["sub", ["rbinop", 5, 0, ["lit", 1], _x()]],
                    ["sub", ["binop", 6, 1, _x(), ["lit", 1]]], ["sub", ["rbinop", 7, 1, ["lit", 1], _x()]]], {}],
    # attribute chains, a method on an attribute, the same attribute twice, item access by a Delayed index
    ["call", 9, 1, [["sub", ["getattr", 3, ["getattr", 2, _x(), 0], 1]], ["sub", ["getattr", 4, _x(), 0]],
                    ["sub", ["method", 5, ["getattr", 6, _x(), 0], 2, [["lit", 3]], {"pure": True}]],
                    ["sub", ["getitem", 7, _x(), ["sub", ["getattr", 8, _x(), 0]]]]], {"pure": True}],
    # methods: pure twice, impure twice, named; containers with Delayed values as operands
    ["call", 9, 2, [["sub", ["method", 2, _x(), 0, [["lit", 1]], {"pure": True}]], ["sub", ["method", 3, _x(), 0, [["lit", 1]], {"pure": True}]],
                    ["sub", ["method", 4, _x(), 0, [["lit", 1]], {}]], ["sub", ["method", 5, _x(), 0, [["lit", 1]], {}]],
                    ["sub", ["method", 6, _x(), 0, [["list", [["sub", _x()], ["lit", 2]]]], {"key": "named-method"}]],
                    ["sub", ["binop", 7, 0, _x(), ["list", [["sub", _x()], ["tuple", [["sub", ["unop", 8, 0, _x()]]]]]]]],
                    ["sub", ["rbinop", 10, 2, ["tuple", [["sub", _x()], ["lit", 3]]], _x()]]], {}],
    # two attributes / two methods / two items of ONE object, and of equal objects
    ["call", 9, 0, [["sub", ["getattr", 2, _x(), 0]], ["sub", ["getattr", 3, _x(), 1]],
                    ["sub", ["binop", 4, 0, ["getattr", 5, _x(), 0], ["sub", ["getattr", 6, _x(), 1]]]],
                    ["sub", ["method", 7, _x(), 0, [], {"pure": True}]], ["sub", ["method", 8, _x(), 1, [], {"pure": True}]],
                    ["sub", ["getitem", 10, _x(), ["lit", 0]]], ["sub", ["getitem", 11, _x(), ["lit", 1]]],
                    ["sub", ["unop", 12, 0, _x()]], ["sub", ["unop", 13, 1, _x()]]], {}],
    # unary operators, comparisons, dict operand
    ["call", 9, 3, [["sub", ["unop", 2, 0, ["unop", 3, 3, _x()]]], ["sub", ["binop", 4, 13, _x(), ["lit", 3]]],
                    ["sub", ["binop", 5, 15, _x(), ["sub", ["unop", 6, 2, _x()]]]],
                    ["sub", ["getitem", 7, _x(), ["dict", [[["lit", 1], ["sub", _x()]], [["lit", 2], ["lit", 4]]]]]]], {}],
]


def generate(ctx):
    rng = ctx.rng
    for p in EXPLICIT_OPS:
        yield "ops", {"prog": p}
    n = 0
    target = ctx.n(260, 3500)
    while n < target:
        counter = [0]
        p = gen_x(rng, 0, [], counter)
        if p[0] == "leaf":
            continue
        n += 1
        yield "ops", {"prog": p, "scheduler": rng.choice(["sync", "sync", "threads"])}
    hows = ["function", "function", "method", "method", "operator", "roperator"]
    for i in range(ctx.n(70, 600)):
        how = hows[i % len(hows)]
        yield "callname", {"how": how, "dkn": (f"name-{i}" if rng.random() < 0.25 else None),
                           "callpure": rng.choice([None, None, True, False]), "leafpure": rng.choice([None, True, False]),
                           "cfg": rng.random() < 0.35, "u": rng.getrandbits(128), "n": rng.randint(0, 9),
                           "args": [rng.choice(["obj", rng.randint(0, 9)]) if how in ("function", "method") else rng.randint(0, 9)
                                    for _ in range(rng.randint(1, 3))]}
