"""Child process of the C30 check: runs pipelines on the array *expression* engine.
Started with DASK_ARRAY__QUERY_PLANNING=True; one JSON request per line on stdin, one JSON answer per line."""
import json
import os
import sys
import warnings

os.environ["DASK_ARRAY__QUERY_PLANNING"] = "True"
sys.path.insert(0, os.environ.get("DASK_REPO", "/repo"))
sys.path.insert(0, os.path.dirname(os.path.abspath(__file__)))
warnings.filterwarnings("ignore")

import numpy as np  # noqa: E402
import dask  # noqa: E402
import dask.array as da  # noqa: E402
from dask._expr import Expr, collect_dependents  # noqa: E402

import _c30_prog as P  # noqa: E402

dask.config.set(scheduler="sync")
assert da._array_expr_enabled(), "array.query-planning is not enabled in the child"


def node(e):
    """Encode an expression tree for the Lean model (1-d integer subset); unknown nodes become `other`."""
    import operator
    name = type(e).__name__
    try:
        ch = [list(map(int, c)) for c in e.chunks] if name != "FinalizeComputeArray" else None
    except Exception:
        ch = None
    kids = [o for o in e.operands if isinstance(o, Expr)]
    if name == "FromArray":
        arr = np.asarray(e.operand("array"))
        if arr.ndim == 1 and arr.dtype.kind in "iu":
            return {"t": "leaf", "data": arr.tolist(), "chunks": ch[0], "nc": ch}
    elif name == "Elemwise" and ch is not None and len(ch) == 1:
        args = list(e.elemwise_args)
        UN = {operator.neg: "neg", np.negative: "neg", operator.abs: "abs", np.absolute: "abs", np.abs: "abs", np.square: "square"}
        BIN = {operator.add: "add", np.add: "add", operator.sub: "sub", np.subtract: "sub", operator.mul: "mul",
               np.multiply: "mul", np.maximum: "max"}
        try:
            un, bn = UN.get(e.op), BIN.get(e.op)
        except TypeError:
            un = bn = None
        if e.where is True:
            if un and len(args) == 1 and isinstance(args[0], Expr):
                return {"t": "un", "op": un, "a": node(args[0]), "nc": ch}
            if bn and len(args) == 2 and all(isinstance(a, Expr) for a in args):
                b = args[1]
                if type(b).__name__ == "FromArray" and b.ndim == 0:
                    # the ufunc wrappers turn a Python scalar into a 0-d array
                    sv = np.asarray(b.operand("array"))
                    if sv.dtype.kind in "iu":
                        return {"t": "bins", "op": bn, "a": node(args[0]), "s": int(sv), "nc": ch}
                return {"t": "bin", "op": bn, "a": node(args[0]), "b": node(args[1]), "nc": ch}
            if bn and len(args) == 2 and isinstance(args[0], Expr) and isinstance(args[1], (int, np.integer)) \
                    and not isinstance(args[1], bool):
                return {"t": "bins", "op": bn, "a": node(args[0]), "s": int(args[1]), "nc": ch}
    elif name == "SliceSlicesIntegers" and ch is not None and len(ch) == 1:
        ix = e.operand("index")
        if len(ix) == 1 and isinstance(ix[0], slice) and ix[0].step in (None, 1):
            n = int(sum(e.array.chunks[0]))
            s, t, _ = ix[0].indices(n)
            return {"t": "slice", "s": s, "e": max(s, t), "a": node(e.array), "nc": ch}
    elif name in ("Rechunk", "TasksRechunk") and ch is not None and len(ch) == 1:
        return {"t": "rechunk", "chunks": ch[0], "a": node(e.array), "nc": ch}
    elif name == "Concatenate" and ch is not None and len(ch) == 1 and len(e.args) == 2 and e.axis == 0:
        return {"t": "concat", "a": node(e.args[0]), "b": node(e.args[1]), "nc": ch}
    elif name == "FinalizeComputeArray":
        return {"t": "finalize", "a": node(e.arr), "nc": None}
    return {"t": "other", "name": name, "kids": [node(k) for k in kids], "nc": ch}


_TAGS = {}


def _tag(e):
    """a small integer naming an opaque node's operation: its type and its non-expression operands (NOT its operands'
    names, so that the node keeps its tag when a pass rewrites its operands)"""
    from dask.tokenize import tokenize
    try:
        key = tokenize(type(e).__name__, *[o for o in e.operands if not isinstance(o, Expr)])
    except Exception:
        key = type(e).__name__ + repr([o for o in e.operands if not isinstance(o, Expr)])[:200]
    return _TAGS.setdefault(key, len(_TAGS))


def node_nd(e):
    """Encode an expression tree for the n-d Lean model (Model/ArrayExprNd.lean). Integer leaves, elementwise
    neg/abs/square/add/sub/mul/maximum (arrays with broadcasting, array ∘ integer scalar), SliceSlicesIntegers, Rechunk /
    TasksRechunk, Transpose, Concatenate, FinalizeComputeArray are modelled; every other node becomes `opq` (an opaque
    function of its operands: tag, reported chunks, operands)."""
    import operator
    name = type(e).__name__
    try:
        ch = [list(map(int, c)) for c in e.chunks] if name != "FinalizeComputeArray" else None
    except Exception:
        ch = None
    kids = [o for o in e.operands if isinstance(o, Expr)]
    if name == "FinalizeComputeArray":
        return {"t": "finalize", "a": node_nd(e.arr), "nc": None}
    if ch is None:
        return {"t": "bad", "name": name}
    if name == "FromArray":
        arr = np.asarray(e.operand("array"))
        if arr.dtype.kind in "iu":
            return {"t": "leaf", "shape": list(arr.shape), "data": arr.ravel().tolist(), "chunks": ch, "nc": ch}
    elif name in ("Ones", "Zeros", "Full", "Arange") and not kids:
        arr = np.asarray(da.Array(e).compute())
        if arr.dtype.kind in "iu":
            return {"t": "leaf", "shape": list(arr.shape), "data": arr.ravel().tolist(), "chunks": ch, "nc": ch, "creation": name}
    elif name == "Elemwise":
        args = list(e.elemwise_args)
        UN = {operator.neg: "neg", np.negative: "neg", operator.abs: "abs", np.absolute: "abs", np.abs: "abs", np.square: "square"}
        BIN = {operator.add: "add", np.add: "add", operator.sub: "sub", np.subtract: "sub", operator.mul: "mul",
               np.multiply: "mul", np.maximum: "max"}
        try:
            un, bn = UN.get(e.op), BIN.get(e.op)
        except TypeError:
            un = bn = None
        if e.where is True and e.dtype.kind in "iu":
            if un and len(args) == 1 and isinstance(args[0], Expr):
                return {"t": "un", "op": un, "a": node_nd(args[0]), "nc": ch}
            if bn and len(args) == 2 and all(isinstance(a, Expr) for a in args):
                b = args[1]
                if type(b).__name__ == "FromArray" and b.ndim == 0 and args[0].ndim > 0:
                    sv = np.asarray(b.operand("array"))
                    if sv.dtype.kind in "iu":
                        return {"t": "bins", "op": bn, "a": node_nd(args[0]), "s": int(sv), "nc": ch}
                return {"t": "bin", "op": bn, "a": node_nd(args[0]), "b": node_nd(args[1]), "nc": ch}
            if bn and len(args) == 2 and isinstance(args[0], Expr) and isinstance(args[1], (int, np.integer)) \
                    and not isinstance(args[1], bool):
                return {"t": "bins", "op": bn, "a": node_nd(args[0]), "s": int(args[1]), "nc": ch}
    elif name == "SliceSlicesIntegers":
        ix = []
        for i in e.operand("index"):
            if isinstance(i, slice):
                ix.append(["sl"] + [None if v is None else int(v) for v in (i.start, i.stop, i.step)])
            elif isinstance(i, (int, np.integer)) and int(i) >= 0:
                ix.append(["int", int(i)])
            else:
                ix = None
                break
        if ix is not None and len(ix) == e.array.ndim:
            return {"t": "slice", "ix": ix, "a": node_nd(e.array), "nc": ch}
    elif name in ("Rechunk", "TasksRechunk"):
        return {"t": "rechunk", "chunks": ch, "a": node_nd(e.array), "nc": ch}
    elif name == "Transpose":
        return {"t": "transpose", "axes": [int(a) for a in e.axes], "a": node_nd(e.array), "nc": ch}
    elif name == "Concatenate" and int(e.axis) >= 0:
        return {"t": "concat", "axis": int(e.axis), "kids": [node_nd(a) for a in e.args], "nc": ch}
    return {"t": "opq", "name": name, "tag": _tag(e), "chunks": ch, "kids": [node_nd(k) for k in kids], "nc": ch}


def trace(expr, node=node):
    """All passes of optimize_until(simplified-physical), replicated: simplify*, lower*, simplify*."""
    passes = [("start", node(expr))]
    e = expr
    for stage in ("simplify", "lower", "simplify2"):
        lowered = {}
        for _ in range(50):
            if stage == "lower":
                new = e.lower_once(lowered)
            else:
                new = e.simplify_once(dependents=collect_dependents(e), simplified={})
            if new._name == e._name:
                break
            e = new
            passes.append((stage, node(e)))
        else:
            passes.append(("no-convergence", None))
    return passes, e


def handle_joint(req):
    """several programs computed in one graph vs one by one (name/key collisions between expressions)"""
    try:
        xs = [P.build(p, da, True) for p in req["progs"]]
        joint = dask.compute(*xs)
        bad = []
        for i, (x, j) in enumerate(zip(xs, joint)):
            s = np.asarray(x.compute())
            j = np.asarray(j)
            if s.shape != j.shape or not np.array_equal(s, j, equal_nan=s.dtype.kind in "fc"):
                bad.append(i)
        solo = [np.asarray(x.compute()) for x in xs]
        bad_pairs = []
        for i in range(len(xs)):
            for j in range(i + 1, len(xs)):
                if solo[i].shape == solo[j].shape and solo[i].dtype.kind in "iuf" and solo[j].dtype.kind in "iuf" and len(bad_pairs) < 8:
                    d = np.asarray((xs[i] - xs[j]).compute())
                    w = solo[i] - solo[j]
                    if d.shape != w.shape or not np.array_equal(d, w, equal_nan=True):
                        bad_pairs.append([i, j])
        return {"status": "ok", "bad": bad, "bad_pairs": bad_pairs, "names": [x.name for x in xs],
                "values": [P.enc_value(v) for v in solo]}
    except NotImplementedError as ex:
        return {"status": "unsupported", "error": str(ex)[:200]}
    except Exception as ex:
        return {"status": "compute-error", "error": f"{type(ex).__name__}: {ex}"[:300]}


def _flat(x):
    if isinstance(x, list):
        out = []
        for e in x:
            out.extend(_flat(e))
        return out
    return [x]


def handle_tree(t):
    """the PartialReduce chain `_tree_reduce` builds for a reduction of a grid of 1-element blocks: per level the
    layer's key structure (output key -> input keys in lol order), the split_every dict of the node, the result's numblocks"""
    try:
        x = da.ones(tuple(t["numblocks"]), chunks=1)
        axis = t["axis"]
        axis = tuple(axis) if isinstance(axis, list) else axis
        se = t["split_every"]
        if isinstance(se, dict):
            se = {int(k): v for k, v in se.items()}
        r = getattr(da, t["fn"])(x, axis=axis, keepdims=t["keepdims"], split_every=se)
        e = r.expr
        levels = []
        while type(e).__name__ == "PartialReduce":
            lay = e._layer()
            rnd = [[list(k[1:]), [list(i[1:]) for i in _flat(task[1])]] for k, task in lay.items()]
            levels.append({"round": rnd, "split": {str(k): int(v) for k, v in e.split_every.items()}, "keepdims": bool(e.keepdims),
                           "nkeys": len(lay), "in_numblocks": [int(n) for n in e.array.numblocks]})
            e = e.array
        levels.reverse()
        return {"status": "ok", "levels": levels, "numblocks": [int(n) for n in r.numblocks],
                "value": P.enc_value(r.compute()), "lazy_shape": [int(s) for s in r.shape]}
    except NotImplementedError as ex:
        return {"status": "unsupported", "error": str(ex)[:200]}
    except Exception as ex:
        return {"status": "error", "error": f"{type(ex).__name__}: {ex}"[:300]}


def handle(req):
    if "progs" in req:
        return handle_joint(req)
    if "tree" in req:
        return handle_tree(req["tree"])
    prog = req["prog"]
    out = {}
    try:
        x = P.build(prog, da, True)
    except NotImplementedError as ex:
        return {"status": "unsupported", "error": str(ex)[:200]}
    except Exception as ex:
        return {"status": "build-error", "error": f"{type(ex).__name__}: {ex}"[:300]}
    try:
        out["lazy_shape"] = [int(s) for s in x.shape]
        out["lazy_chunks"] = [[int(c) for c in cs] for cs in x.chunks]
        out["lazy_dtype"] = str(x.dtype)
        out["engine"] = type(x).__module__
        if req.get("trace"):
            passes, final = trace(x.expr.finalize_compute(), node_nd if req["trace"] == "nd" else node)
            out["passes"] = passes
        v = x.compute()
        out["value"] = P.enc_value(v)
        # the optimized expression must still report the same chunks
        opt = x.expr.optimize()
        out["opt_chunks"] = [[int(c) for c in cs] for cs in opt.chunks]
        out["status"] = "ok"
    except NotImplementedError as ex:
        out.update({"status": "compute-notimplemented", "error": str(ex)[:200]})
    except Exception as ex:
        out.update({"status": "compute-error", "error": f"{type(ex).__name__}: {ex}"[:300]})
    return out


def main():
    for line in sys.stdin:
        line = line.strip()
        if not line:
            continue
        try:
            ans = handle(json.loads(line))
        except Exception as ex:  # never die silently
            ans = {"status": "child-error", "error": f"{type(ex).__name__}: {ex}"[:300]}
        sys.stdout.write(json.dumps(ans) + "\n")
        sys.stdout.flush()


if __name__ == "__main__":
    main()
