"""Helpers shared by the dfrows property modules (C36 C37 C42 C43 C46).

Cells are JSON-able: an int or None (None = NaN/NA). A "partitioned series" is a list of lists of
cells; the real dask collection is built with `dd.from_map` over explicit pandas partitions with
known divisions (index = 0..n-1), so that ANY partitioning (empty partitions included) can be fed to
the real code.
"""
from __future__ import annotations

import math

from sexp import Sym

NONE = Sym("none")
PYNONE = Sym("pynone")


def dd():
    from core import import_dd
    return import_dd()


_WARM = [False]


def warm():
    """import dask.dataframe and run one tiny graph BEFORE the per-case watchdog starts (the first import
    takes many seconds on a loaded machine and must not be charged to the first case)"""
    if _WARM[0]:
        return
    _WARM[0] = True
    try:
        import pandas as pd
        d = dd().from_pandas(pd.DataFrame({"a": [1.0, 2.0], "b": [1, 2]}), npartitions=2)
        d.assign(c=d.a + d.b)[["c"]].sum().compute(scheduler="sync")
        d.a.cumsum().compute(scheduler="sync")
    except Exception:
        pass


# ---------------------------------------------------------------------------------------------
# cells <-> pandas
# ---------------------------------------------------------------------------------------------

def cells_to_sexp(cells):
    return [NONE if c is None else int(c) for c in cells]


def parts_to_sexp(parts):
    return [cells_to_sexp(p) for p in parts]


def sexp_to_cells(x):
    return [None if (c is None or c == "none") else int(c) for c in x]


def sexp_to_parts(x):
    return [sexp_to_cells(p) for p in x]


def cell_of(v):
    """pandas/numpy scalar -> cell. Non-integral floats are kept as floats (never equal to a model cell)."""
    import pandas as pd
    if v is None or v is pd.NA or v is pd.NaT:
        return None
    try:
        f = float(v)
    except (TypeError, ValueError):
        return repr(v)
    if math.isnan(f):
        return None
    if math.isinf(f):
        return repr(f)
    if f == int(f):
        return int(f)
    return f


def series_cells(s):
    return [cell_of(v) for v in s.tolist()]


def mk_series(cells, dtype="float64", index=None, name="x"):
    import numpy as np
    import pandas as pd
    vals = [np.nan if c is None else c for c in cells]
    return pd.Series(vals, index=range(len(cells)) if index is None else index, dtype=dtype, name=name)


def bounds_of(lens):
    b = [0]
    for n in lens:
        b.append(b[-1] + n)
    return b


def split(cells, lens):
    b = bounds_of(lens)
    return [cells[b[i]:b[i + 1]] for i in range(len(lens))]


def from_parts(pobj, lens, known=True):
    """dask collection whose partition i is pobj.iloc[b_i:b_{i+1}] (pobj: Series or DataFrame with a sorted index)."""
    d = dd()
    b = bounds_of(lens)
    n = len(pobj)
    assert b[-1] == n
    if known:
        idx = list(pobj.index)
        divs = []
        for i in range(len(lens)):
            # division i = first index value of the first non-empty partition at or after i (or the last value)
            j = b[i]
            divs.append(idx[j] if j < n else (idx[-1] if n else 0))
        divs.append(idx[-1] if n else 0)
        divisions = tuple(divs)
    else:
        divisions = (None,) * (len(lens) + 1)
    pieces = [pobj.iloc[b[i]:b[i + 1]] for i in range(len(lens))]
    return d.from_map(_Pick(pieces), list(range(len(lens))), meta=pobj.iloc[:0], divisions=divisions)


_COUNTER = [0]


class _Pick:
    """partition selector with a unique token (two frames never share a name)"""

    def __init__(self, pieces):
        self.pieces = pieces
        _COUNTER[0] += 1
        self._tok = ("dfrows-pick", _COUNTER[0], id(self))

    def __dask_tokenize__(self):
        return self._tok

    def __call__(self, i):
        return self.pieces[i]


def compute_parts(coll):
    """all partitions of a dask collection, computed in one go"""
    import dask
    dels = coll.to_delayed()
    return list(dask.compute(*dels, scheduler="sync"))


def exc_sig(e):
    return type(e).__name__


# ---------------------------------------------------------------------------------------------
# generators
# ---------------------------------------------------------------------------------------------

def gen_lens(rng, n, maxparts=5, allow_empty=True):
    """random composition of n into k parts (zeros allowed)"""
    k = rng.randint(1, maxparts)
    if k == 1:
        return [n]
    cuts = sorted(rng.randint(0, n) for _ in range(k - 1))
    lens = [b - a for a, b in zip([0] + cuts, cuts + [n])]
    if not allow_empty:
        lens = [x for x in lens if x > 0] or [n]
    return lens


def snap_lens(index, lens):
    """move every partition boundary forward to the end of a run of equal (sorted) index labels: equal labels are never
    split over two partitions — the invariant dask itself maintains (from_pandas, set_index), and what index ALIGNMENT
    between co-partitioned operands relies on"""
    n = len(index)
    b = bounds_of(lens)
    out = [0]
    for cut in b[1:-1]:
        while 0 < cut < n and index[cut - 1] == index[cut]:
            cut += 1
        out.append(max(cut, out[-1]))
    out.append(n)
    return [y - x for x, y in zip(out, out[1:])]


def splits_equal_labels(index, lens):
    """True when a partition boundary separates two equal index labels (a partitioning dask never builds itself)"""
    return list(lens) != snap_lens(list(index), list(lens))


def gen_cells(rng, n, p_nan=None, lo=-3, hi=6):
    """cells with NaN runs"""
    if p_nan is None:
        p_nan = rng.choice([0.0, 0.15, 0.4, 0.7])
    out = []
    while len(out) < n:
        if rng.random() < p_nan:
            run = rng.choice([1, 1, 2, 3, 5])
            out.extend([None] * run)
        else:
            out.append(rng.randint(lo, hi))
    return out[:n]


def compositions(n, maxparts):
    """all compositions of n into 1..maxparts parts, zeros allowed"""
    def rec(rem, k):
        if k == 1:
            yield [rem]
            return
        for first in range(rem + 1):
            for rest in rec(rem - first, k - 1):
                yield [first] + rest
    for k in range(1, maxparts + 1):
        yield from rec(n, k)
