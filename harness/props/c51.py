"""C51 — term-rewrite matching is sound and complete.

Model:    lean/DaskModel/Model/Match.lean (dask/rewrite.py: Traverser, RuleSet.add, _match, _process_match,
          _instantiates, iter_matches, _substitute/_apply, _rewrite, _bottom_up)
Theorems: lean/DaskModel/Props/C51.lean
Tie:      function level — `list(Traverser(t))`, `rule._varlist`, the discrimination net (real trie flattened to
          rule-index -> edge path), the yields of `_match`, `_process_match`, `iter_matches`, `rewrite` (both
          strategies) against the model on the same rule sets / terms;
          property oracle — the real `iter_matches` against an independent brute-force one-way matcher
          (sound, complete, no duplicates, no exception), `_rewrite` against sigma(rhs) of the first yielded rule;
          separate stream with unhashable atoms (dicts) and callable right-hand sides, oracle only.
"""
from __future__ import annotations

import itertools

from sexp import Sym

PROP = "C51"
READY = True
DRIVER = "dm_stores"
LEAN_MODULES = ["DaskModel.Props.C51"]
CASE_TIMEOUT_S = 30
LEVEL_TEXT = (
    "Lean 4 theorems over a transliteration of dask/rewrite.py (after fix: commits 2ab889a and 88a2bf8): match_sound "
    "(every yielded (rule, sigma) has sigma(lhs) = term, via the exact specification instPattern), "
    "match_binds_varlist (sigma is the _process_match result: variables of the lhs in first-occurrence order, "
    "repeated variables bound consistently), match_terminates (the explicit-stack loop of _match needs at most "
    "2*(sum of path lengths + #rules)+3 iterations — proved via matchLoop_eq: the loop with its stack of saved "
    "(traverser, node, matches) frames and restore_state_flag computes exactly the recursive depth-first walk of "
    "the net), match_complete (for EVERY rule set and term, no arity discipline: every well-formed rule i and sigma "
    "with sigma(lhs_i) = term is yielded with a substitution agreeing with sigma on the variables of the lhs), "
    "rewrite_applies_iff (top-level rewrite = sigma(rhs) of the first yielded rule; unchanged iff no well-formed "
    "rule has an instance equal to the term). Refutation witnesses for the code before the fixes: "
    "old_match_unsound (arity forgotten by the preorder net), old_match_indexError (pop from the empty traverser "
    "stack), old_apply_captures (sequential substitution). match_yields_once: no rule is yielded twice, so "
    "iter_matches yields exactly the matching rules, each once. bottom_up is modelled and diffed but has no "
    "theorem of its own; unhashable atoms and callable right-hand sides are oracle-only.")
LEVEL_NOTE = ("Trusted: Lean kernel + standard axioms; the correspondence harness; Python == on terms as structural "
              "equality; the trie is modelled by its set of residual paths (checked against the real trie on every "
              "run); unhashable atoms and callable right-hand sides are exercised by oracle only.")
TECHNIQUE = ("Lean 4 proof (mutual structural induction on terms / patterns, DFS simulation) + differential "
             "correspondence of every stage of RuleSet against the model + brute-force matcher oracle")
ASSUMPTIONS = ["Python == on tasks/lists/atoms is structural equality of the modelled terms (no NaN, no arrays)",
               "variables are hashable atoms; function symbols are distinct callables"]

# ------------------------------------------------------------------------------------------------------------
# Python <-> wire.  JSON term: ["c", n] | ["f", n] | ["app", n, [args]] | ["lst", [items]] | ["d", n] (dict atom)
# ------------------------------------------------------------------------------------------------------------
_FUNCS = None


def funcs():
    global _FUNCS
    if _FUNCS is None:
        def mk(i):
            def fn(*a):
                return ("call", i, a)
            fn.__name__ = f"f{i}"
            return fn
        _FUNCS = [list] + [mk(i) for i in range(1, 8)]
    return _FUNCS


def const(n):
    return n if n < 50 else f"v{n}"


def to_py(t):
    k = t[0]
    if k == "c":
        return const(t[1])
    if k == "f":
        return funcs()[t[1]]
    if k == "app":
        return (funcs()[t[1]],) + tuple(to_py(a) for a in t[2])
    if k == "lst":
        return [to_py(a) for a in t[1]]
    if k == "d":
        return {"k": t[1]}
    raise ValueError(t)


def from_py(x):
    fs = funcs()
    if type(x) is tuple and x and callable(x[0]):
        return ["app", fs.index(x[0]), [from_py(a) for a in x[1:]]]
    if isinstance(x, list):
        return ["lst", [from_py(a) for a in x]]
    if callable(x):
        return ["f", fs.index(x)]
    if isinstance(x, dict):
        return ["d", x["k"]]
    if isinstance(x, str):
        return ["c", int(x[1:])]
    return ["c", int(x)]


def wire(t):
    k = t[0]
    if k == "c":
        return [Sym("c"), t[1]]
    if k == "f":
        return [Sym("f"), t[1]]
    if k == "app":
        return [Sym("app"), t[1], [wire(a) for a in t[2]]]
    if k == "lst":
        return [Sym("lst"), [wire(a) for a in t[1]]]
    raise ValueError(t)


def unwire(w):
    k = str(w[0])
    if k in ("c", "f"):
        return [k, w[1]]
    if k == "app":
        return ["app", w[1], [unwire(a) for a in w[2]]]
    return ["lst", [unwire(a) for a in w[1]]]


def wire_rule(r):
    return [wire(r["lhs"]), wire(r["rhs"]), [[Sym("c"), v] for v in r["vars"]]]


def mk_ruleset(rules):
    from dask.rewrite import RewriteRule, RuleSet
    rr = [RewriteRule(to_py(r["lhs"]), to_py(r["rhs"]), tuple(const(v) for v in r["vars"])) for r in rules]
    return rr, RuleSet(*rr)


# ------------------------------------------------------------------------------------------------------------
# independent reference: one-way matching on JSON terms
# ------------------------------------------------------------------------------------------------------------
def bf_match(p, t, vars, env):
    """extend env so that env(p) == t, or return None. Variables are data atoms ["c", v] with v in vars."""
    if p[0] == "c" and p[1] in vars:
        if p[1] in env:
            return env if env[p[1]] == t else None
        env = dict(env)
        env[p[1]] = t
        return env
    if p[0] in ("c", "f", "d"):
        return env if p == t else None
    if p[0] != t[0]:
        return None
    if p[0] == "app":
        if p[1] != t[1] or len(p[2]) != len(t[2]):
            return None
        ps, ts = p[2], t[2]
    else:
        if len(p[1]) != len(t[1]):
            return None
        ps, ts = p[1], t[1]
    for a, b in zip(ps, ts):
        env = bf_match(a, b, vars, env)
        if env is None:
            return None
    return env


def bf_subst(t, env):
    if t[0] == "c":
        return env.get(t[1], t)
    if t[0] == "app":
        return ["app", t[1], [bf_subst(a, env) for a in t[2]]]
    if t[0] == "lst":
        return ["lst", [bf_subst(a, env) for a in t[1]]]
    return t


def has_dict(t):
    if t[0] == "d":
        return True
    if t[0] == "app":
        return any(has_dict(a) for a in t[2])
    if t[0] == "lst":
        return any(has_dict(a) for a in t[1])
    return False


def _real_matches(rr, rs, term_py):
    out = []
    for rule, subs in rs.iter_matches(term_py):
        out.append((rr.index(rule), {int(k[1:]): from_py(v) for k, v in subs.items()}, list(subs)))
    return out


def _oracle(ctx, rules, term, real):
    """sound, complete, duplicate-free against the brute-force matcher; returns the expected set"""
    expected = {}
    for i, r in enumerate(rules):
        env = bf_match(r["lhs"], term, set(r["vars"]), {})
        if env is not None:
            expected[i] = env
    seen = set()
    for i, env, _order in real:
        if i in seen:
            ctx.fail("iter_matches yields the same rule twice", observed=[i, env])
        seen.add(i)
        if bf_subst(rules[i]["lhs"], env) != term:
            ctx.fail("iter_matches yields a rule whose lhs with the bindings substituted is not the term (unsound)",
                     observed=[i, env], expected=term)
        elif i not in expected or expected[i] != env:
            ctx.fail("iter_matches yields bindings that differ from the unique matcher", observed=[i, env],
                     expected=expected.get(i))
    for i, env in expected.items():
        if i not in seen:
            ctx.fail("iter_matches misses a rule that matches (incomplete)", observed=sorted(seen), expected=[i, env])
    return expected


def _mixed_arity(rules, term):
    ar = {}

    def walk(t):
        if t[0] == "app":
            ar.setdefault(t[1], set()).add(("app", len(t[2])))
            for a in t[2]:
                walk(a)
        elif t[0] == "lst":
            ar.setdefault(0, set()).add(("lst", len(t[1])))
            for a in t[1]:
                walk(a)
        elif t[0] == "f":
            ar.setdefault(t[1], set()).add(("bare",))
    for r in rules:
        walk(r["lhs"])
    walk(term)
    return any(len(v) > 1 for v in ar.values())


def case_match(ctx, inp):
    """every stage of RuleSet on one (rules, term) pair"""
    from dask.rewrite import Traverser, _match
    rules, term = inp["rules"], inp["term"]
    rr, rs = mk_ruleset(rules)
    tp = to_py(term)
    wr = [wire_rule(r) for r in rules]
    # Traverser / varlist / net
    ctx.eq("list(Traverser(term))", [unwire(s) for s in ctx.lean(Sym("rw-flatten"), wire(term))],
           [from_py(h) if h is not list else ["f", 0] for h in Traverser(tp)])
    from dask.rewrite import VAR

    def paths(node, pre, out):
        for i in node.patterns:
            out[i] = pre
        for e, n in node.edges.items():
            paths(n, pre + [Sym("var") if e is VAR else (["f", 0] if e is list else from_py(e))], out)
        return out
    real_paths = paths(rs._net, [], {})
    for i, r in enumerate(rules):
        m = ctx.lean(Sym("rw-rule"), wr[i])
        ctx.eq("rule._varlist", [s[1] for s in m[0]], [int(v[1:]) for v in rr[i]._varlist])
        ctx.eq("net path of the rule", [e if isinstance(e, Sym) else unwire(e) for e in m[1]], real_paths.get(i))
    # _match yields
    try:
        real_y = [[list(p), [from_py(s) for s in syms]] for p, syms in _match(Traverser(tp), rs._net)]
        impl = [Sym("ok"), real_y]
    except IndexError:
        impl = [Sym("IndexError")]
    my = ctx.lean(Sym("rw-match"), wr, wire(term))
    if my[0] == "ok":
        my = [Sym("ok"), [[y[0], [unwire(s) for s in y[1]]] for y in my[1]]]
    ctx.eq("_match yields", my, impl)
    # iter_matches: model, real, brute force
    try:
        real = _real_matches(rr, rs, tp)
    except Exception as e:  # noqa: BLE001 - any exception here is a property failure
        ctx.fail("iter_matches raised", observed=f"{type(e).__name__}: {e}")
        return
    mm = ctx.lean(Sym("rw-iter"), wr, wire(term))
    ctx.eq("iter_matches (order, bindings, binding order)",
           mm if mm[0] != "ok" else [[m[0], [[kv[0][1], unwire(kv[1])] for kv in m[1]]] for m in mm[1]],
           [[i, [[k, env[k]] for k in order_keys(order)]] for i, env, order in real])
    expected = _oracle(ctx, rules, term, real)
    if real:
        ctx.branch("matches-%d" % min(len(real), 3))
    if any(len(set(r["vars"])) < sum(1 for _ in _var_occ(r)) for r in rules):
        ctx.branch("repeated-variable")
    if _mixed_arity(rules, term):
        ctx.branch("mixed-arity")
        old = ctx.lean(Sym("rw-match-old"), wr, wire(term))
        if old[0] == "IndexError":
            ctx.branch("old-code-IndexError")
        elif old[0] == "ok" and my[0] == "ok":
            n_old = sum(len(y[0]) for y in old[1])
            if n_old > len(real) and len(expected) == len(real):
                ctx.branch("old-code-unsound-candidate")
    # ground rules (no variable in the lhs): the empty substitution {} is a valid match
    for i, env, _o in real:
        if not _var_occ(rules[i]):
            ctx.branch("ground-rule-yielded-with-empty-bindings")
            if env != {}:
                ctx.fail("a rule without variables was yielded with non-empty bindings", observed=[i, env])
    # rewrite: both strategies, the default (= bottom_up, documented), an unknown name (KeyError)
    for strat in ("top_level", "bottom_up", None, "no_such_strategy"):
        try:
            res_py = rs.rewrite(tp) if strat is None else rs.rewrite(tp, strategy=strat)
        except KeyError:
            ctx.eq(f"rewrite({strat})", ctx.lean(Sym("rw-rewrite"), wr, wire(term), strat), [Sym("KeyError")])
            if strat != "no_such_strategy":
                ctx.fail(f"rewrite(strategy={strat!r}) raised KeyError for a documented strategy")
            continue
        except Exception as e:  # noqa: BLE001
            ctx.fail(f"rewrite({strat}) raised", observed=f"{type(e).__name__}: {e}")
            continue
        if strat == "no_such_strategy":
            ctx.fail("rewrite with an unknown strategy name did not raise KeyError", observed=repr(res_py)[:200])
            continue
        if _py_size(res_py, 1500) > 1500:
            # a rule with a bare-variable lhs and a duplicating rhs makes bottom-up rewriting blow up exponentially
            # (the real code shares the subterms; writing the result out would take seconds): not compared
            ctx.branch("rewrite-result-too-large-skipped")
            continue
        res = from_py(res_py)
        m = ctx.lean(Sym("rw-rewrite"), wr, wire(term), strat)
        ctx.eq(f"rewrite({strat})", m if m[0] != "ok" else unwire(m[1]), res)
        if strat in (None, "bottom_up"):
            # structure of the strategy, independent of the model: arguments first, then one top-level rewrite
            ref = _bottom_up_reference(rs, tp)
            if ref != res_py:
                ctx.fail("bottom-up rewriting is not 'rewrite the arguments, then rewrite the rebuilt term at top level'",
                         observed=res, expected=from_py(ref) if _py_size(ref, 1500) <= 1500 else "large")
            if _normal_form(rules, term):
                ctx.branch("bottom-up-normal-form")
                if res != term:
                    ctx.fail("bottom-up rewriting changed a term in which no rule matches at any position",
                             observed=res, expected=term)
        if strat == "top_level":
            if real:
                i, env, _ = real[0]
                want = bf_subst(rules[i]["rhs"], env)
                if res != want:
                    ctx.fail("top-level rewrite is not sigma(rhs) of the first matching rule", observed=res, expected=want)
                if any(v[0] == "c" and v[1] in env for v in env.values()) or any(_mentions(v, set(env)) for v in env.values()):
                    ctx.branch("value-mentions-variable-name")
            elif res != term:
                ctx.fail("top-level rewrite changed a term that no rule matches", observed=res, expected=term)
        elif res != term:
            ctx.branch("bottom-up-rewrote")


def _bottom_up_reference(rs, t):
    from dask.core import istask
    if istask(t):
        t = (t[0],) + tuple(_bottom_up_reference(rs, a) for a in t[1:])
    elif isinstance(t, list):
        t = [_bottom_up_reference(rs, a) for a in t]
    return rs._rewrite(t)


def _normal_form(rules, t):
    """brute force: no rule matches t or any subterm of t"""
    if any(bf_match(r["lhs"], t, set(r["vars"]), {}) is not None for r in rules):
        return False
    if t[0] == "app":
        return all(_normal_form(rules, a) for a in t[2])
    if t[0] == "lst":
        return all(_normal_form(rules, a) for a in t[1])
    return True


def _py_size(x, cap):
    """number of nodes of a Python term, counted up to `cap` (iterative, so shared giant terms are cut off early)"""
    n, stack = 0, [x]
    while stack and n <= cap:
        y = stack.pop()
        n += 1
        if isinstance(y, (tuple, list)):
            stack.extend(y)
    return n


def _mentions(t, names):
    if t[0] == "c":
        return t[1] in names
    if t[0] == "app":
        return any(_mentions(a, names) for a in t[2])
    if t[0] == "lst":
        return any(_mentions(a, names) for a in t[1])
    return False


def order_keys(order):
    return [int(k[1:]) for k in order]


def _var_occ(r):
    vs = set(r["vars"])

    def walk(t):
        if t[0] == "c" and t[1] in vs:
            yield t[1]
        elif t[0] == "app":
            for a in t[2]:
                yield from walk(a)
        elif t[0] == "lst":
            for a in t[1]:
                yield from walk(a)
    return list(walk(r["lhs"]))


def case_process(ctx, inp):
    from dask.rewrite import RewriteRule, _process_match

    class R:
        pass
    r = R()
    r._varlist = [const(v) for v in inp["varlist"]]
    syms = tuple(to_py(s) for s in inp["syms"])
    try:
        res = _process_match(r, syms)
        impl = [None] if res is None else [Sym("ok"), [[int(k[1:]), from_py(v)] for k, v in res.items()]]
    except RuntimeError:
        impl = [Sym("RuntimeError")]
    m = ctx.lean(Sym("rw-process"), [[Sym("c"), v] for v in inp["varlist"]], [wire(s) for s in inp["syms"]])
    if m[0] == "ok":
        m = [Sym("ok"), [[kv[0][1], unwire(kv[1])] for kv in m[1]]]
    ctx.eq("_process_match", m, impl)
    ctx.branch("process-" + str(impl[0]))


def case_oracle_only(ctx, inp):
    """terms with unhashable atoms (dicts) and rules with a callable rhs: real code vs brute force only"""
    from dask.rewrite import RewriteRule, RuleSet
    rules, term = inp["rules"], inp["term"]
    called = []

    def mk_rhs(i):
        def rhs(sd):
            called.append((i, dict(sd)))
            return ("rewritten", i)
        return rhs
    rr = [RewriteRule(to_py(r["lhs"]), mk_rhs(i) if r.get("callable") else to_py(r["rhs"]),
                      tuple(const(v) for v in r["vars"])) for i, r in enumerate(rules)]
    rs = RuleSet(*rr)
    tp = to_py(term)
    try:
        real = _real_matches(rr, rs, tp)
    except Exception as e:  # noqa: BLE001
        ctx.fail("iter_matches raised", observed=f"{type(e).__name__}: {e}")
        return
    _oracle(ctx, rules, term, real)
    if has_dict(term):
        ctx.branch("unhashable-atom" + ("-bound-to-variable" if any(has_dict(v) for _, env, _ in real for v in env.values()) else ""))
    res = rs.rewrite(tp, strategy="top_level")
    if real and rules[real[0][0]].get("callable"):
        ctx.branch("callable-rhs")
        if res != ("rewritten", real[0][0]) or not called or called[-1][0] != real[0][0]:
            ctx.fail("callable rhs of the first matching rule was not used", observed=repr(res))
        elif {int(k[1:]): from_py(v) for k, v in called[-1][1].items()} != real[0][1]:
            ctx.fail("callable rhs received other bindings than iter_matches yielded", observed=repr(called[-1]))


CASES = {"match": case_match, "process": case_process, "oracle_only": case_oracle_only}

# ------------------------------------------------------------------------------------------------------------
# generators
# ------------------------------------------------------------------------------------------------------------
VARS = [100, 101, 102]
CONSTS = [1, 2, 3]


def gen_term(rng, depth, funcs_n=3, vars_p=0.0, dict_p=0.0, fixed_arity=None):
    r = rng.random()
    if depth <= 0 or r < 0.3:
        q = rng.random()
        if q < vars_p:
            return ["c", rng.choice(VARS)]
        if q < vars_p + dict_p:
            return ["d", rng.randint(1, 2)]
        if q < 0.85:
            return ["c", rng.choice(CONSTS + VARS[:2] if vars_p == 0.0 and rng.random() < 0.25 else CONSTS)]
        return ["f", rng.randint(1, funcs_n)]
    if r < 0.38:
        return ["lst", [gen_term(rng, depth - 1, funcs_n, vars_p, dict_p, fixed_arity) for _ in range(rng.randint(0, 3))]]
    f = rng.randint(0 if rng.random() < 0.08 else 1, funcs_n)
    n = fixed_arity[f] if fixed_arity and f in fixed_arity else (
        rng.randint(0, 3) if rng.random() < 0.92 else rng.randint(4, 6))
    return ["app", f, [gen_term(rng, depth - 1, funcs_n, vars_p, dict_p, fixed_arity) for _ in range(n)]]


def gen_rule(rng, fixed_arity=None):
    # one rule in six is ground (no variable in its lhs): it matches with the empty substitution
    lhs = gen_term(rng, rng.choice([1, 2, 2, 3]), vars_p=0.45 if rng.random() < 0.84 else 0.0, fixed_arity=fixed_arity)
    if lhs[0] == "c" and rng.random() < 0.8:
        lhs = ["app", rng.randint(1, 3), [lhs]]
    used = sorted(set(_var_occ({"lhs": lhs, "vars": VARS})))
    rhs = gen_term(rng, 2, vars_p=0.5)
    if rhs[0] == "f":
        rhs = ["app", rhs[1], []]      # a bare callable rhs means "call it with the bindings" (oracle_only stream)
    # rhs variables restricted to those of the lhs (others stay as plain data, like in the real code)
    extra = [v for v in VARS if v not in used and rng.random() < 0.2]
    return {"lhs": lhs, "rhs": rhs, "vars": used + extra}


def instantiate(rng, lhs, vars, depth=2):
    env = {v: gen_term(rng, rng.choice([0, 1, depth])) for v in vars}
    return bf_subst(lhs, env)


def perturb(rng, t):
    """small structural change that keeps the preorder head sequence (arity / list / nullary confusions)"""
    if t[0] == "app" and t[2]:
        i = rng.randrange(len(t[2]))
        a = t[2][i]
        if rng.random() < 0.5 and a[0] == "app" and a[2]:
            # move the last argument of a sub-call one level up: (f,(g,1,2)) -> (f,(g,1),2)
            return ["app", t[1], t[2][:i] + [["app", a[1], a[2][:-1]], a[2][-1]] + t[2][i + 1:]]
        return ["app", t[1], t[2][:i] + [perturb(rng, a)] + t[2][i + 1:]]
    if t[0] == "app" and not t[2]:
        return ["f", t[1]]                      # (g,) -> g
    if t[0] == "f":
        return ["app", t[1], []]
    if t[0] == "lst":
        return ["app", 0, t[1]]                 # [a, b] -> (list, a, b)
    return t


def generate(ctx):
    from props._stores_util import ensure_budget
    ensure_budget(ctx, quick_scale=3.0)
    rng = ctx.rng
    c = lambda n: ["c", n]  # noqa: E731
    # DESIGN.md section 6 #12 and relatives (all repaired), always
    yield "match", {"rules": [{"lhs": ["app", 1, [["app", 2, [c(100), c(101)]]]], "rhs": ["app", 3, [c(100), c(101)]], "vars": [100, 101]}],
                    "term": ["app", 1, [["app", 2, [c(1)]], c(2)]]}
    yield "match", {"rules": [{"lhs": ["app", 1, [c(100)]], "rhs": c(100), "vars": [100]},
                              {"lhs": ["app", 1, [c(100), c(101)]], "rhs": c(101), "vars": [100, 101]}],
                    "term": ["app", 1, [["app", 2, [c(1)]]]]}
    yield "match", {"rules": [{"lhs": ["app", 1, [c(100), c(101)]], "rhs": ["app", 3, [c(100), c(101)]], "vars": [100, 101]}],
                    "term": ["app", 1, [c(101), c(1)]]}
    yield "match", {"rules": [{"lhs": ["app", 0, [c(100)]], "rhs": ["app", 3, [c(100)]], "vars": [100]}], "term": ["lst", [c(7)]]}
    yield "match", {"rules": [{"lhs": ["app", 1, [["app", 2, []]]], "rhs": c(1), "vars": []}], "term": ["app", 1, [["f", 2]]]}
    # ground rules: `vars` omitted ("If there are no variables, this can be omitted"); alone, next to a more general
    # rule with variables (which must not shadow it), declared variables that do not occur in the lhs
    g0 = {"lhs": ["app", 1, [c(0), c(0)]], "rhs": c(0), "vars": []}
    yield "match", {"rules": [g0], "term": ["app", 1, [c(0), c(0)]]}
    yield "match", {"rules": [g0, {"lhs": ["app", 1, [c(100), c(101)]], "rhs": c(100), "vars": [100, 101]}],
                    "term": ["app", 1, [c(0), c(0)]]}
    yield "match", {"rules": [{"lhs": ["app", 1, [c(100), c(101)]], "rhs": c(100), "vars": [100, 101]}, g0],
                    "term": ["app", 2, [["app", 1, [c(0), c(0)]], ["app", 1, [c(0), c(1)]]]]}
    yield "match", {"rules": [{"lhs": c(7), "rhs": ["app", 3, []], "vars": [100]}], "term": c(7)}
    yield "match", {"rules": [{"lhs": ["lst", [c(1), ["lst", []]]], "rhs": c(2), "vars": [101]}], "term": ["lst", [c(1), ["lst", []]]]}
    # the pinned test-suite's rule set
    t_rules = [{"lhs": ["app", 1, [c(100), c(1)]], "rhs": ["app", 2, [c(100)]], "vars": [100, 101, 102]},
               {"lhs": ["app", 1, [c(100), c(100)]], "rhs": ["app", 3, [c(100)]], "vars": [100, 101, 102]},
               {"lhs": ["app", 1, [["app", 2, [c(100)]], ["app", 2, [c(100)]]]], "rhs": ["app", 1, [["app", 3, [c(100)]], c(2)]], "vars": [100, 101, 102]},
               {"lhs": ["app", 1, [["app", 2, [c(101)]], ["app", 2, [c(100)]]]], "rhs": ["app", 1, [["app", 1, [c(100), c(101)]], c(2)]], "vars": [100, 101, 102]},
               {"lhs": ["app", 4, [["lst", [c(102), c(101), c(100)]]]], "rhs": ["app", 1, [["app", 1, [c(100), c(101)]], c(102)]], "vars": [100, 101, 102]}]
    for term in (["app", 1, [c(2), c(1)]], ["app", 1, [c(1), c(1)]], ["app", 1, [["lst", [c(1)]], ["lst", [c(1)]]]],
                 ["app", 1, [["app", 2, [c(1)]], ["app", 2, [c(1)]]]], ["app", 1, [c(2), c(3)]],
                 ["app", 4, [["lst", [["app", 1, [c(1), c(1)]]] * 3]]]):
        yield "match", {"rules": t_rules, "term": term}
    # random rule sets; terms: random / instances of a rule / perturbed instances
    for _ in range(ctx.n(1200, 15000)):
        fixed = {1: rng.randint(1, 2), 2: rng.randint(1, 3), 3: rng.randint(0, 2)} if rng.random() < 0.35 else None
        rules = [gen_rule(rng, fixed) for _ in range(rng.randint(1, 5) if rng.random() < 0.9 else rng.randint(6, 12))]
        if rng.random() < 0.3 and len(rules) > 1:
            # near-duplicate rules: same lhs shape with a variable renamed / repeated
            base = rng.choice(rules)
            rules.append({"lhs": bf_subst(base["lhs"], {v: ["c", rng.choice(VARS)] for v in base["vars"]}),
                          "rhs": base["rhs"], "vars": VARS})
        q = rng.random()
        base = rng.choice(rules)
        if q < 0.25:
            term = gen_term(rng, 3 if rng.random() < 0.8 else 5, fixed_arity=fixed)
        elif q < 0.7:
            term = instantiate(rng, base["lhs"], base["vars"])
        else:
            term = perturb(rng, instantiate(rng, base["lhs"], base["vars"]))
        yield "match", {"rules": rules, "term": term}
    if ctx.thorough():
        # exhaustive: all terms of depth <= 2 over {f1/1-2 args, f2/1 arg, constants 1, 'v100'} against fixed rule sets
        atoms = [c(1), c(100), ["f", 2]]
        lvl1 = atoms + [["app", 1, list(a)] for n in (1, 2) for a in itertools.product(atoms, repeat=n)] + \
            [["app", 2, [a]] for a in atoms] + [["lst", [a]] for a in atoms] + [["app", 2, []]]
        lvl2 = lvl1 + [["app", 1, list(a)] for n in (1, 2) for a in itertools.product(lvl1, repeat=n)]
        rsets = [[{"lhs": ["app", 1, [c(100), c(101)]], "rhs": ["app", 2, [c(101)]], "vars": [100, 101]},
                  {"lhs": ["app", 1, [c(100)]], "rhs": c(100), "vars": [100]},
                  {"lhs": ["app", 1, [["app", 1, [c(100), c(100)]]]], "rhs": c(100), "vars": [100]}],
                 [{"lhs": ["app", 1, [["app", 2, [c(100)]], c(100)]], "rhs": c(100), "vars": [100]},
                  {"lhs": ["app", 1, [["app", 2, []], c(101)]], "rhs": c(101), "vars": [101]},
                  {"lhs": ["app", 0, [c(100)]], "rhs": c(100), "vars": [100]}]]
        for rules in rsets:
            for term in lvl2:
                yield "match", {"rules": rules, "term": term}
    for _ in range(ctx.n(150, 1500)):
        n = rng.randint(0, 4)
        varlist = [rng.choice(VARS) for _ in range(n)]
        pool = [gen_term(rng, 1) for _ in range(2)]
        syms = [rng.choice(pool) for _ in range(n if rng.random() < 0.9 else rng.randint(0, 4))]
        yield "process", {"varlist": varlist, "syms": syms}
    for _ in range(ctx.n(200, 2000)):
        rules = [gen_rule(rng) for _ in range(rng.randint(1, 3))]
        for r in rules:
            r["callable"] = rng.random() < 0.4
        base = rng.choice(rules)
        env = {v: gen_term(rng, 1, dict_p=0.4) for v in base["vars"]}
        term = bf_subst(base["lhs"], env) if rng.random() < 0.7 else gen_term(rng, 2, dict_p=0.2)
        yield "oracle_only", {"rules": rules, "term": term}
