"""C06 — static task ordering is a total order consistent with dependencies.

Model:    lean/DaskModel/Model/Order.lean (`validOrder` checker, `stripPrio` frame)
Theorems: lean/DaskModel/Props/C06.lean (`validOrder_iff`: the checker decides the statement; frame arithmetic)
Tie:      every real `dask.order.order` output for generated graphs is fed, together with the dependencies the real code
          sees (DependenciesMapping), to the compiled proved checker and to an independent Python oracle; cyclic
          variants must raise RuntimeError; the priorities of stripped non-task leaves are compared with the frame model.
"""
from __future__ import annotations

import itertools

from sexp import Sym
from props._graph_util import all_dags, has_cycle_from, random_dag

PROP = "C06"
READY = True
DRIVER = "dm_graph"
LEAN_MODULES = ["DaskModel.Props.C06"]
LEVEL_TEXT = ("PARTIAL by design (order() is ~600 lines of heuristics), two layers. (1) Proved checker: validOrder_iff -- the "
              "executable validOrder accepts a (graph, priority dict) pair iff the statement holds for it (a priority for exactly "
              "the graph's keys, pairwise distinct, every key above all its in-graph dependencies); every real order() output "
              "of the run goes through the compiled checker with the dependencies the real code reads. (2) Proved frame: "
              "order_frame_valid -- for the transliterated normalisation loop (stripping of non-task leaves, removal of shared "
              "data roots, DependenciesMapping._removed semantics) and ANY core that emits each remaining internal key once and "
              "after its dependencies (CoreOK), the returned dict (stripped leaves at expected_len-1-j, core keys 0,1,.., "
              "external keys deleted) satisfies the statement; via strip_inv (every dependent of a stripped leaf was stripped "
              "before it) and the stripPrio arithmetic; old_formula_collides shows why the unrepaired code was wrong. NOT proved: "
              "that the heuristic core (critical-path walk, process_runnables, add_to_result) satisfies CoreOK -- validated per "
              "output; cyclic graphs: rejection validated.")
LEVEL_NOTE = ("Trusted: Lean kernel + standard axioms; the harness that extracts dependencies (DependenciesMapping) and interns "
              "keys; an independent Python oracle is diffed against the proved checker on every case. Fixed in /repo: colliding "
              "priorities with >= 2 stripped non-task leaves (DESIGN 6 #2). Observation (not a violation of the statement, "
              "which only asks for an error): some cyclic graphs are rejected with KeyError instead of the RuntimeError.")
TECHNIQUE = "Lean 4 proof of a checker (validOrder_iff) applied to every real output (translation validation) + frame arithmetic + differential correspondence"
ASSUMPTIONS = ["keys are interned to Nat for the checker; the dependencies handed to the checker are the ones the real code reads (DependenciesMapping)"]
CASE_TIMEOUT_S = 20


def _f(*a):
    return 0


KINDS = ("task", "data", "nontask")


def build_graph(adj, kinds, ext, style):
    """adj[i] = dependencies of node i (indices); kinds[i] in KINDS; ext[i] = number of references to keys outside the
    graph (realised with task-spec nodes); style 'legacy' | 'mixed' | 'spec'."""
    from dask._task_spec import Alias, DataNode, Task, TaskRef
    n = len(adj)
    K = [f"k{i}" if i % 3 else ("x", i) for i in range(n)]
    K[0] = [0, "", ()][n % 3]          # one falsy key per graph: a key's truth value must not matter
    dsk = {}
    for i in range(n):
        deps = [K[j] for j in adj[i]]
        e = [f"ext{i}_{t}" for t in range(ext[i])]
        kind = kinds[i]
        if kind == "data" and not deps and not e:
            dsk[K[i]] = DataNode(K[i], i) if style == "spec" else i
        elif e or style == "spec" or (style == "mixed" and i % 2):
            if kind == "nontask" and len(deps) + len(e) == 1:
                dsk[K[i]] = Alias(K[i], (deps + e)[0])
            else:
                dsk[K[i]] = Task(K[i], _f, *[TaskRef(d) for d in deps + e])
        elif kind == "nontask" or (kind == "data" and deps):
            dsk[K[i]] = deps[0] if len(deps) == 1 else list(deps)
        else:
            dsk[K[i]] = (_f,) + tuple(deps)
    return K, dsk


def _oracle(ctx, dsk, deps, res):
    if set(res) != set(dsk):
        ctx.fail("order: priorities are not assigned to exactly the keys of the graph",
                 observed=[sorted(map(repr, set(res) - set(dsk))), sorted(map(repr, set(dsk) - set(res)))])
        return
    vals = list(res.values())
    if len(set(vals)) != len(vals):
        ctx.fail("order: priorities are not pairwise distinct", observed=sorted(vals))
    if any((not isinstance(v, int)) or v < 0 for v in vals):
        ctx.fail("order: a priority is not a non-negative int", observed=repr(vals))
    for k in dsk:
        for d in deps[k]:
            if d in dsk and not res[d] < res[k]:
                ctx.fail("order: a key's priority is not greater than its dependency's", observed=[repr(k), res[k], repr(d), res[d]])
                return


def _run_order(ctx, dsk, what="order"):
    from dask._task_spec import DependenciesMapping
    from dask.order import order
    deps = {k: list(DependenciesMapping(dsk)[k]) for k in dsk}
    idx = {k: i for i, k in enumerate(dsk)}
    nxt = len(idx)
    g = []
    for k in dsk:
        row = []
        for d in deps[k]:
            if d not in idx:
                idx[d] = nxt
                nxt += 1
            row.append(idx[d])
        g.append([idx[k], row])
    adj = [[idx[d] for d in deps[k] if d in dsk] for k in dsk]
    cyclic = has_cycle_from(adj, list(range(len(adj))))
    try:
        res = order(dsk)
    except RuntimeError as e:
        if not cyclic:
            ctx.fail(f"{what}: RuntimeError on an acyclic graph: {e}")
        else:
            ctx.branch("cycle-rejected")
        return None
    except Exception as e:
        if cyclic:
            # the statement only asks for "an error"; seen: KeyError from getcycle() on the graph whose shared data
            # roots were already stripped (the cycle message is lost) -- recorded in notes/graph.md, not a violation
            ctx.branch("cycle-rejected-" + type(e).__name__)
            return None
        ctx.fail(f"{what} raised {type(e).__name__}: {e}")
        return None
    if cyclic:
        ctx.fail(f"{what}: cyclic graph not rejected", observed=repr(res))
        return None
    _oracle(ctx, dsk, deps, res)
    p = [[idx[k], int(v)] for k, v in res.items() if k in idx and isinstance(v, int) and v >= 0]
    ok = ctx.lean(Sym("valid_order"), g, p)
    py_ok = set(res) == set(dsk) and len(set(res.values())) == len(res) and all(
        res[d] < res[k] for k in dsk for d in deps[k] if d in dsk and d in res and k in res)
    ctx.eq("proved checker vs python oracle", ok, py_ok)
    if ok is not True and py_ok:
        ctx.disagree("validOrder rejects an output the oracle accepts", ok, py_ok)
    # return_stats variant carries the same priorities
    try:
        st = order(dsk, return_stats=True)
        if {k: v.priority for k, v in st.items()} != res:
            # set iteration makes equal-quality orders possible; both must be valid
            _oracle(ctx, dsk, deps, {k: v.priority for k, v in st.items()})
    except Exception as e:
        ctx.fail(f"{what}(return_stats=True) raised {type(e).__name__}: {e}")
    return res


def case_order(ctx, inp):
    adj, kinds, ext, style = inp["adj"], inp["kinds"], inp["ext"], inp.get("style", "legacy")
    K, dsk = build_graph(adj, kinds, ext, style)
    from dask.core import istask
    res = _run_order(ctx, dsk)
    if res is None:
        return
    n = len(adj)
    dependents = {i: [j for j in range(n) if i in adj[j]] for i in range(n)}
    # frame: the model of the normalisation loop predicts which non-task leaves are stripped; they must carry exactly
    # the priorities expected_len-1 ... expected_len-S
    from dask._task_spec import DependenciesMapping
    dm = DependenciesMapping(dsk)
    idx = {k: i for i, k in enumerate(dsk)}
    all_ext = []
    for k in dsk:
        for d in dm[k]:
            if d not in dsk and d not in idx:
                idx[d] = len(idx)
                all_ext.append(d)
    g = [[idx[k], sorted(idx[d] for d in dm[k])] for k in dsk] + [[idx[e], []] for e in all_ext]
    tasks = [idx[k] for k in dsk if istask(dsk[k])]
    expected_len = len(dsk) + len(all_ext)
    m_stripped, m_roots = ctx.lean(Sym("strip"), g, tasks)
    back = {i: k for k, i in idx.items()}
    stripped = [back[i] for i in m_stripped]
    if stripped:
        ctx.branch("stripped-leaves")
        if len(stripped) > 1:
            ctx.branch("stripped>=2")
        got = sorted(res[k] for k in stripped)
        model = sorted(ctx.lean(Sym("strip_prios"), expected_len, len(stripped)))
        ctx.eq("priorities of stripped non-task leaves (frame model)", model, got)
        hi = [k for k in res if res[k] >= expected_len - len(stripped)]
        ctx.eq("keys carrying the top priorities = stripped leaves of the model", sorted(map(repr, stripped)), sorted(map(repr, hi)))
    if m_roots:
        ctx.branch("data-roots-removed")
    if all_ext:
        ctx.branch("external-keys")
    if any(kinds[i] == "data" and not adj[i] and len(dependents[i]) > 1 for i in range(n)):
        ctx.branch("data-root-shared")
    if any(len(a) > 1 for a in adj):
        ctx.branch("fan-in")


def case_collection(ctx, inp):
    """array / bag / delayed shaped graphs (task-spec nodes) up to a few hundred keys"""
    import dask
    kind = inp["kind"]
    if kind == "array":
        import dask.array as da
        x = da.ones(tuple(inp["shape"]), chunks=tuple(inp["chunks"]))
        y = {"sum": lambda: x.sum(axis=0), "T+": lambda: x + x.T if len(inp["shape"]) == 2 and inp["shape"][0] == inp["shape"][1] else x + 1,
             "rechunk": lambda: x.rechunk(tuple(max(1, c + 1) for c in inp["chunks"])).mean(),
             "matmul": lambda: (x @ x.T) if len(inp["shape"]) == 2 else x.cumsum(axis=0)}[inp["op"]]()
        dsk = dict(y.__dask_graph__())
    elif kind == "bag":
        import dask.bag as db
        b = db.from_sequence(range(inp["n"]), npartitions=inp["np"])
        y = b.map(lambda v: v + 1).fold(lambda a, c: a + c, split_every=inp["se"])
        dsk = dict(y.__dask_graph__())
    else:
        from dask import delayed
        vals = [delayed(_f)(i) for i in range(inp["n"])]
        while len(vals) > 1:
            vals = [delayed(_f)(*vals[i:i + inp["se"]]) for i in range(0, len(vals), inp["se"])]
        dsk = dict(vals[0].__dask_graph__())
    _run_order(ctx, dsk, what=f"order({kind})")
    ctx.branch("collection-" + kind)
    if len(dsk) > 50:
        ctx.branch("collection>50")


CASES = {"order": case_order, "collection": case_collection}


def _kinds_for(rng, adj, mode):
    n = len(adj)
    out = []
    for i in range(n):
        if mode == "tasks":
            out.append("task")
        else:
            out.append(rng.choice(KINDS) if rng.random() < 0.7 else "task")
    return out


def generate(ctx):
    rng = ctx.rng
    # witness of the repaired defect (two stripped alias leaves) and a chain of stripped leaves
    yield "order", {"adj": [[], [], [], [0, 1], [1, 2]], "kinds": ["task", "task", "task", "nontask", "nontask"], "ext": [0] * 5}
    yield "order", {"adj": [[], [], [], [0, 1], [1, 2], [3, 4]], "kinds": ["task", "task", "task", "nontask", "nontask", "nontask"], "ext": [0] * 6}
    yield "order", {"adj": [[], [0], [0, 1], [2, 0]], "kinds": ["data", "task", "nontask", "nontask"], "ext": [0, 1, 0, 2], "style": "mixed"}
    # exhaustive: all DAGs on <= 4 nodes x all kind assignments (quick: n<=3 fully, n=4 sampled; thorough n<=4 fully, 5 sampled)
    full = 4 if ctx.thorough() else 3
    for n in range(1, full + 1):
        for adj in all_dags(n):
            for kinds in itertools.product(KINDS, repeat=n):
                yield "order", {"adj": adj, "kinds": list(kinds), "ext": [0] * n}
    samp_n = full + 1
    dags = list(all_dags(samp_n))
    for _ in range(ctx.n(600, 6000)):
        adj = rng.choice(dags)
        yield "order", {"adj": adj, "kinds": [rng.choice(KINDS) for _ in range(samp_n)],
                        "ext": [rng.choice([0, 0, 0, 1, 2]) for _ in range(samp_n)],
                        "style": rng.choice(["legacy", "mixed", "spec"])}
    # random larger graphs, relabelled; external references; cyclic variants
    for _ in range(ctx.n(500, 5000)):
        n = rng.randint(2, rng.choice([6, 10, 25, 60]))
        adj = random_dag(rng, n, rng.choice([0.08, 0.2, 0.4]) if n > 10 else rng.choice([0.3, 0.5]))
        kinds = _kinds_for(rng, adj, rng.choice(["mixed", "mixed", "tasks"]))
        ext = [rng.choice([0, 0, 0, 0, 1, 2]) for _ in range(n)]
        inp = {"adj": adj, "kinds": kinds, "ext": ext, "style": rng.choice(["legacy", "legacy", "mixed", "spec"])}
        if rng.random() < 0.15:
            a, b = rng.randrange(n), rng.randrange(n)
            if b not in adj[a]:
                adj[a].append(b)     # may close a cycle (also self loops)
        yield "order", inp
    for _ in range(ctx.n(30, 300)):
        kind = rng.choice(["array", "bag", "delayed"])
        if kind == "array":
            nd = rng.choice([1, 2, 2])
            shape = [rng.randint(2, 12) for _ in range(nd)]
            if nd == 2 and rng.random() < 0.5:
                shape[1] = shape[0]
            chunks = [rng.randint(1, s) for s in shape]
            yield "collection", {"kind": kind, "shape": shape, "chunks": chunks, "op": rng.choice(["sum", "T+", "rechunk", "matmul"])}
        elif kind == "bag":
            yield "collection", {"kind": kind, "n": rng.randint(1, 60), "np": rng.randint(1, 20), "se": rng.randint(2, 5)}
        else:
            yield "collection", {"kind": kind, "n": rng.randint(1, 60), "se": rng.randint(2, 4)}
