"""C06 — static task ordering is a total order consistent with dependencies.

Model:    lean/DaskModel/Model/Order.lean (`validOrder` checker; `strip` = the normalisation loop; `framePrios` /
          `coreOKb` = the frame around the heuristic core; `ndependencies` + `orderPrelude` = the Kahn-style count
          and the cycle test `len(total_dependencies) != len(dsk)`)
Theorems: lean/DaskModel/Props/C06.lean (`validOrder_iff`, `order_frame_valid`, `coreOKb_iff`, `order_rejects_cyclic`,
          `order_accepts_acyclic`, `order_raises_iff_cyclic`, ...)
Tie:      * `ndeps`: real `dask.order.ndependencies(dependencies, dependents)` vs the model (both dicts, insertion order
            of `total_dependencies` included) on DAGs and on cyclic digraphs, plus a Python oracle of the statement
            "a key gets a total iff it lies on / depends on no cycle";
          * `order`: every real `dask.order.order` output for generated graphs is fed, together with the dependencies the
            real code sees (DependenciesMapping), to the compiled proved checker and to an independent Python oracle;
            "the model says `order` raises" (`orderPrelude`) is diffed against the real call raising; the whole real
            dict is compared with `framePrios expected_len stripped core` where `core` is read off the real priorities
            and must pass the compiled `coreOKb` -- so `order_frame_valid_checked` applies to the output literally;
          * `collection`: array / bag / delayed shaped graphs.
"""
from __future__ import annotations

import itertools

from sexp import Sym
from props._graph_util import all_dags, all_digraphs, has_cycle_from, random_dag, random_digraph

PROP = "C06"
READY = True
DRIVER = "dm_graph"
LEAN_MODULES = ["DaskModel.Props.C06"]
LEVEL_TEXT = ("PARTIAL by design (order() is ~600 lines of heuristics), three layers. (1) Proved checker: validOrder_iff -- "
              "the executable validOrder accepts a (graph, priority dict) pair iff the statement holds for it (a priority for "
              "exactly the graph's keys, pairwise distinct, every key above all its in-graph dependencies); every real order() "
              "output of the run goes through the compiled checker with the dependencies the real code reads. (2) Proved frame: "
              "order_frame_valid -- for the transliterated normalisation loop (stripping of non-task leaves, removal of shared "
              "data roots, DependenciesMapping._removed semantics) and ANY core that emits each remaining internal key once and "
              "after its dependencies (CoreOK, decided by the compiled coreOKb: coreOKb_iff), the returned dict (stripped leaves "
              "at expected_len-1-j, core keys 0,1,.., external keys deleted) satisfies the statement; every real output of the "
              "run is split into (stripped leaves, core order read off the priorities), must pass coreOKb and must equal "
              "framePrios key by key, so the theorem applies to it literally. (3) Proved for all graphs with duplicate-free "
              "keys and closed duplicate-free dependency sets, any task/non-task labelling: cyclic graphs are rejected -- "
              "order_rejects_cyclic: the transliteration of the normalisation loop + ndependencies (Kahn-style count with the "
              "explicit stack) + the test len(total_dependencies) != len(dsk), run with the driver's fuel, ends in the raising "
              "branch (keys on a cycle are never stripped or removed: SInv.noCyc; keys that receive a total form a topological "
              "list: ndependencies_deps_before); the converse order_accepts_acyclic (on a DAG every remaining key gets a "
              "total: counting invariant NdInv; no KeyError, fuel suffices: order_ndependencies_total) and "
              "order_raises_iff_cyclic. NOT proved: that the heuristic core (critical-path walk, process_runnables, "
              "add_to_result) satisfies CoreOK / terminates -- validated per output; that the raising branch's getcycle() call "
              "terminates is C07 (toposort_total).")
LEVEL_NOTE = ("Trusted: Lean kernel + standard axioms; the harness that extracts dependencies (DependenciesMapping), interns "
              "keys and reads the core order off the real priorities; an independent Python oracle is diffed against the proved "
              "checker on every case. The model's 'raises' means: the branch `if len(total_dependencies) != len(dsk)` is "
              "entered; every path through it raises (RuntimeError, or the KeyError of getcycle(dsk, None) when a shared data "
              "root was already removed -- observation, the statement only asks for an error). Set iteration order: the model "
              "sweeps leaves/roots in list order, theorems hold for every listing; the harness lists the graph so that the "
              "model's strip order is the one the real run took. A cyclic input counts as rejected only when the exception "
              "comes out of the cycle-test branch (RuntimeError 'Cycle detected', or whatever getcycle raises there): a later "
              "crash of the core (ZeroDivisionError/IndexError/KeyError, as with the test removed) is reported as a failure. "
              "Fixed in /repo: colliding priorities with >= 2 stripped non-task leaves (DESIGN 6 #2, 5bee7e7); IndexError on "
              "acyclic graphs whose shared data root was removed and all of whose dependents were stripped afterwards "
              "(389cb25, found by the exhaustive 6-node space; Lean witness orphaned_data_root_witness).")
TECHNIQUE = ("Lean 4 proofs: checker (validOrder_iff) applied to every real output (translation validation), frame theorem "
             "over the transliterated normalisation loop with a decidable side condition (coreOKb_iff) checked per output, "
             "cycle rejection by loop invariants (strip: SInv; ndependencies: TopoRev soundness + counting invariant, fuel "
             "bound) + differential correspondence at function level (ndependencies) and API level (order)")
ASSUMPTIONS = ["keys are interned to Nat; the dependencies handed to the model are the ones the real code reads (DependenciesMapping), external keys added as dependency-free data nodes as order() does",
               "dependents = reverse_dict(dependencies) (built that way by order(); the model's aliveDependents is its definition)",
               "the heuristic core emits every remaining key once, dependencies first, and terminates (CoreOK): checked on every real output, not proved"]
CASE_TIMEOUT_S = 90     # generous: a large collection graph under a loaded machine was reported as a hang once


def _f(*a):
    return 0


KINDS = ("task", "data", "nontask")


def build_graph(adj, kinds, ext, style):
    """adj[i] = dependencies of node i (indices); kinds[i] in KINDS; ext[i] = number of references to keys outside the
    graph (realised with task-spec nodes); style 'legacy' | 'mixed' | 'spec'."""
    from dask._task_spec import Alias, DataNode, Task, TaskRef
    n = len(adj)
    K = [f"k{i}" if i % 3 else ("x", i) for i in range(n)]
    K[0] = [0, "", ()][n % 3]          # one falsy key per graph: a key's truth value must not matter
    dsk = {}
    for i in range(n):
        deps = [K[j] for j in adj[i]]
        e = [f"ext{i}_{t}" for t in range(ext[i])]
        kind = kinds[i]
        if kind == "data" and not deps and not e:
            dsk[K[i]] = DataNode(K[i], i) if style == "spec" else i
        elif e or style == "spec" or (style == "mixed" and i % 2):
            if kind == "nontask" and len(deps) + len(e) == 1:
                dsk[K[i]] = Alias(K[i], (deps + e)[0])
            else:
                dsk[K[i]] = Task(K[i], _f, *[TaskRef(d) for d in deps + e])
        elif kind == "nontask" or (kind == "data" and deps):
            dsk[K[i]] = deps[0] if len(deps) == 1 else list(deps)
        else:
            dsk[K[i]] = (_f,) + tuple(deps)
    return K, dsk


def _oracle(ctx, dsk, deps, res):
    if set(res) != set(dsk):
        ctx.fail("order: priorities are not assigned to exactly the keys of the graph",
                 observed=[sorted(map(repr, set(res) - set(dsk))), sorted(map(repr, set(dsk) - set(res)))])
        return
    vals = list(res.values())
    if len(set(vals)) != len(vals):
        ctx.fail("order: priorities are not pairwise distinct", observed=sorted(vals))
    if any((not isinstance(v, int)) or v < 0 for v in vals):
        ctx.fail("order: a priority is not a non-negative int", observed=repr(vals))
    for k in dsk:
        for d in deps[k]:
            if d in dsk and not res[d] < res[k]:
                ctx.fail("order: a key's priority is not greater than its dependency's", observed=[repr(k), res[k], repr(d), res[d]])
                return


class _View:
    """what the model sees of a graph: interned keys, the dependencies the real code reads, external keys as data nodes"""

    def __init__(self, dsk):
        from dask._task_spec import DependenciesMapping
        from dask.core import istask
        dm = DependenciesMapping(dsk)
        self.dsk = dsk
        self.deps = {k: list(dm[k]) for k in dsk}
        self.idx = {k: i for i, k in enumerate(dsk)}
        self.ext = []
        for k in dsk:
            for d in self.deps[k]:
                if d not in self.idx:
                    self.idx[d] = len(self.idx)
                    self.ext.append(d)
        self.back = {i: k for k, i in self.idx.items()}
        idx = self.idx
        # graph as order() normalises it: external keys added as dependency-free data nodes
        self.rows = {idx[k]: sorted(idx[d] for d in self.deps[k]) for k in dsk}
        for e in self.ext:
            self.rows[idx[e]] = []
        self.tasks = [idx[k] for k in dsk if istask(dsk[k])]
        self.expected_len = len(dsk) + len(self.ext)
        adj = [[idx[d] for d in self.deps[k] if d in dsk] for k in dsk]
        self.cyclic = has_cycle_from(adj, list(range(len(adj))))
        self.selfloop = any(idx[k] in self.rows[idx[k]] for k in dsk)

    def g(self, first=()):
        """rows of the model graph; the keys in `first` are listed first, in that order"""
        order = list(first) + [i for i in self.rows if i not in set(first)]
        return [[i, self.rows[i]] for i in order]

    def g_internal(self):
        """dependencies handed to the checker: as read by the real code (external references kept, no extra rows)"""
        return [[self.idx[k], [self.idx[d] for d in self.deps[k]]] for k in self.dsk]


def _call_order(ctx, v, what):
    """real order(); returns ('ok', res) | ('raised', exception type name).
    A cyclic graph must be rejected *by the cycle test*: RuntimeError('Cycle detected ...') raised by order() itself, or
    whatever getcycle(dsk, None) raises inside that branch (seen: KeyError when a shared data root was already removed;
    the cycle message is lost -- recorded in notes/graph.md, the statement only asks for an error). An exception from
    anywhere else (ZeroDivisionError / IndexError / KeyError out of the ordering core, as happens when the test is
    removed) is a crash, not a rejection."""
    import traceback
    from dask.order import order
    try:
        return "ok", order(v.dsk)
    except Exception as e:
        name = type(e).__name__
        frames = [f.name for f in traceback.extract_tb(e.__traceback__)]
        in_cycle_branch = ((isinstance(e, RuntimeError) and str(e).startswith("Cycle detected") and frames[-1] == "order")
                           or "getcycle" in frames)
        if not v.cyclic:
            ctx.fail(f"{what} raised {name} on an acyclic graph: {e}")
        elif not in_cycle_branch:
            ctx.fail(f"{what}: cyclic graph got past the cycle test and crashed later with {name}: {str(e)[:80]}",
                     observed=frames[-3:])
        return "raised", name


def _run_order(ctx, dsk, what="order", frame=True):
    from dask.order import order
    v = _View(dsk)
    # --- the model's verdict on the cycle test (normalisation loop + ndependencies + len test)
    prel = ctx.lean(Sym("order_prelude"), v.g(), v.tasks)
    model_raises = prel[0] == "raises"
    if prel[0] not in ("raises", "proceeds"):
        ctx.disagree("orderPrelude ended in keyerror/fuel (excluded by order_ndependencies_total)", prel, None)
    ctx.eq("model raises (cycle test) vs python cycle oracle [order_raises_iff_cyclic]", model_raises, v.cyclic)
    status, res = _call_order(ctx, v, what)
    ctx.eq("model: order raises  vs  real order raises", model_raises, status == "raised")
    if v.cyclic:
        if status == "ok":
            ctx.fail(f"{what}: cyclic graph not rejected", observed=repr(res))
            return None
        ctx.branch("cycle-rejected" if res == "RuntimeError" else "cycle-rejected-" + res)
        if v.selfloop:
            ctx.branch("cyclic:self-loop")
        else:
            ctx.branch("cyclic:length>=2")
        m_stripped, m_roots = ctx.lean(Sym("strip"), v.g(), v.tasks)
        if m_stripped:
            ctx.branch("cyclic:below-stripped-leaf")
        if m_roots:
            ctx.branch("cyclic:shared-data-root-removed")
        if v.ext:
            ctx.branch("cyclic:external-keys")
        return None
    if status != "ok":
        return None
    deps = v.deps
    _oracle(ctx, dsk, deps, res)
    idx = v.idx
    p = [[idx[k], int(x)] for k, x in res.items() if k in idx and isinstance(x, int) and x >= 0]
    ok = ctx.lean(Sym("valid_order"), v.g_internal(), p)
    py_ok = set(res) == set(dsk) and len(set(res.values())) == len(res) and all(
        res[d] < res[k] for k in dsk for d in deps[k] if d in dsk and d in res and k in res)
    ctx.eq("proved checker vs python oracle", ok, py_ok)
    if ok is not True and py_ok:
        ctx.disagree("validOrder rejects an output the oracle accepts", ok, py_ok)
    # the totals the model hands to the core vs the real ndependencies on the normalised graph of the model
    if prel[0] == "proceeds":
        _ndeps_on_alive(ctx, v, prel)
    if frame and py_ok:
        _frame(ctx, v, res)
    # return_stats variant carries the same priorities
    try:
        st = order(dsk, return_stats=True)
        if {k: s.priority for k, s in st.items()} != res:
            # set iteration makes equal-quality orders possible; both must be valid
            _oracle(ctx, dsk, deps, {k: s.priority for k, s in st.items()})
    except Exception as e:
        ctx.fail(f"{what}(return_stats=True) raised {type(e).__name__}: {e}")
    return res


def _ndeps_on_alive(ctx, v, prel):
    """`proceeds num_needed total`: the same two dicts from the real ndependencies on the model's normalised graph"""
    from dask.core import reverse_dict
    from dask.order import ndependencies
    nn = {k: n for k, n in prel[1]}
    alive = set(nn)
    dependencies = {k: {d for d in v.rows[k] if d in alive} for k in nn}
    dependents = reverse_dict(dependencies)
    r_nn, r_total = ndependencies(dependencies, dependents)
    ctx.eq("order: num_needed handed to the core", sorted(nn.items()), sorted(r_nn.items()))
    ctx.eq("order: total_dependencies handed to the core", sorted(map(tuple, prel[2])), sorted(r_total.items()))


def _frame(ctx, v, res):
    """split the real output into (stripped leaves, core order), run the decidable CoreOK, compare the whole dict with
    framePrios -- then order_frame_valid_checked applies to this output"""
    idx, back = v.idx, v.back
    m_stripped, pairs, alive = ctx.lean(Sym("strip_full"), v.g(), v.tasks)
    m_roots = sorted({r for _, r in pairs})
    sset = set(m_stripped)
    # the order in which the real run stripped them: descending priority; list the graph accordingly (the model sweeps
    # in list order, the real code in set-iteration order; the theorem holds for every listing)
    real_strip = sorted(sset, key=lambda i: -res[back[i]])
    core = sorted((idx[k] for k in res if idx[k] not in sset), key=lambda i: res[back[i]])
    ext = [idx[e] for e in v.ext]
    ok, stripped, prios = ctx.lean(Sym("frame_check"), v.g(first=real_strip), v.tasks, ext, core)
    ctx.eq("frame: model strip order on the re-listed graph = real strip order (by priority)", stripped, real_strip)
    ctx.eq("frame: coreOKb on the core order read off the real priorities", ok, True)
    ctx.eq("frame: framePrios expected_len stripped core = the real dict", sorted(map(tuple, prios)),
           sorted((idx[k], x) for k, x in res.items()))
    if m_stripped:
        ctx.branch("stripped-leaves")
        if len(m_stripped) > 1:
            ctx.branch("stripped>=2")
            if stripped != m_stripped:
                ctx.branch("strip-order-differs-from-default-listing")
    if m_roots:
        ctx.branch("data-roots-removed")
        if _orphans(pairs, set(alive)):
            ctx.branch("orphaned-data-root (all dependents stripped later; fix 389cb25)")
    if v.ext:
        ctx.branch("external-keys")


def _orphans(pairs, alive):
    """removed data roots that requires_data_task remembers (transitively) only under stripped leaves"""
    req = {}
    for d, r in pairs:
        req.setdefault(r, set()).add(d)

    def reached(r, seen=()):
        return any(d in alive or (d in req and d not in seen and reached(d, seen + (r,))) for d in req[r])
    return [r for r in req if not reached(r)]


def case_order(ctx, inp):
    adj, kinds, ext, style = inp["adj"], inp["kinds"], inp["ext"], inp.get("style", "legacy")
    K, dsk = build_graph(adj, kinds, ext, style)
    res = _run_order(ctx, dsk)
    if res is None:
        return
    n = len(adj)
    dependents = {i: [j for j in range(n) if i in adj[j]] for i in range(n)}
    if any(kinds[i] == "data" and not adj[i] and len(dependents[i]) > 1 for i in range(n)):
        ctx.branch("data-root-shared")
    if any(len(a) > 1 for a in adj):
        ctx.branch("fan-in")


def _py_totals(adj):
    """oracle for ndependencies: a key gets a total iff it reaches no cycle; total = 1 + sum of the totals below"""
    n = len(adj)
    good = {}
    changed = True
    while changed:
        changed = False
        for i in range(n):
            if i not in good and all(j in good for j in adj[i]):
                good[i] = 1 + sum(good[j] for j in set(adj[i]))
                changed = True
    return good


def case_ndeps(ctx, inp):
    """function level: dask.order.ndependencies(dependencies, dependents) on arbitrary digraphs"""
    from dask.core import reverse_dict
    from dask.order import ndependencies
    adj = inp["adj"]
    n = len(adj)
    perm = inp.get("perm") or list(range(n))        # dict insertion order of `dependencies`
    keys = inp.get("keys", "int")
    name = (lambda i: i) if keys == "int" else (lambda i: [0, "", ()][i] if i < 3 else (f"k{i}" if i % 2 else ("x", i)))
    dependencies = {name(i): {name(j) for j in adj[i]} for i in perm}
    dependents = reverse_dict(dependencies)
    idx = {name(i): i for i in range(n)}
    # the model gets the dicts in the iteration orders the real call will see
    deps_rows = [[idx[k], [idx[d] for d in v]] for k, v in dependencies.items()]
    dnts_rows = [[idx[k], [idx[d] for d in v]] for k, v in dependents.items()]
    try:
        r_nn, r_total = ndependencies(dependencies, dependents)
    except Exception as e:
        ctx.fail(f"ndependencies raised {type(e).__name__}: {e}")
        return
    m = ctx.lean(Sym("ndeps"), deps_rows, dnts_rows)
    if m[0] != "ok":
        ctx.disagree("model of ndependencies ended in keyerror/fuel on a consistent input (excluded by ndependencies_total)", m, None)
        return
    ctx.eq("ndependencies: num_dependencies", [tuple(x) for x in m[1]], [(idx[k], x) for k, x in r_nn.items()])
    ctx.eq("ndependencies: total_dependencies (with insertion order)", [tuple(x) for x in m[2]],
           [(idx[k], x) for k, x in r_total.items()])
    good = _py_totals(adj)
    if {idx[k]: x for k, x in r_total.items()} != good:
        ctx.fail("ndependencies: a key has a total iff it reaches no cycle, total = 1 + sum below -- violated",
                 observed=sorted((idx[k], x) for k, x in r_total.items()), expected=sorted(good.items()))
    cyclic = len(good) < n
    if (len(r_total) != n) != cyclic:
        ctx.fail("the cycle test len(total_dependencies) != len(dsk) does not coincide with 'graph is cyclic'",
                 observed=[len(r_total), n, cyclic])
    if cyclic:
        ctx.branch("ndeps:cyclic")
        if any(i in adj[i] for i in range(n)):
            ctx.branch("ndeps:self-loop")
        if good:
            ctx.branch("ndeps:cyclic-partial-totals")
        if any(i not in good and not _on_cycle(adj, i) for i in range(n)):
            ctx.branch("ndeps:key-above-a-cycle")
    else:
        if any(len(a) > 1 for a in adj):
            ctx.branch("ndeps:dag-fan-in")
        if any(x > n for x in good.values()):
            ctx.branch("ndeps:total>n (shared sub-dag counted twice)")


def _on_cycle(adj, i):
    seen, stack = set(), list(adj[i])
    while stack:
        u = stack.pop()
        if u == i:
            return True
        if u not in seen:
            seen.add(u)
            stack.extend(adj[u])
    return False


def case_collection(ctx, inp):
    """array / bag / delayed shaped graphs (task-spec nodes) up to a few hundred keys"""
    import dask
    kind = inp["kind"]
    if kind == "array":
        import dask.array as da
        x = da.ones(tuple(inp["shape"]), chunks=tuple(inp["chunks"]))
        y = {"sum": lambda: x.sum(axis=0), "T+": lambda: x + x.T if len(inp["shape"]) == 2 and inp["shape"][0] == inp["shape"][1] else x + 1,
             "rechunk": lambda: x.rechunk(tuple(max(1, c + 1) for c in inp["chunks"])).mean(),
             "matmul": lambda: (x @ x.T) if len(inp["shape"]) == 2 else x.cumsum(axis=0)}[inp["op"]]()
        dsk = dict(y.__dask_graph__())
    elif kind == "bag":
        import dask.bag as db
        b = db.from_sequence(range(inp["n"]), npartitions=inp["np"])
        y = b.map(lambda v: v + 1).fold(lambda a, c: a + c, split_every=inp["se"])
        dsk = dict(y.__dask_graph__())
    else:
        from dask import delayed
        vals = [delayed(_f)(i) for i in range(inp["n"])]
        while len(vals) > 1:
            vals = [delayed(_f)(*vals[i:i + inp["se"]]) for i in range(0, len(vals), inp["se"])]
        dsk = dict(vals[0].__dask_graph__())
    _run_order(ctx, dsk, what=f"order({kind})")
    ctx.branch("collection-" + kind)
    if len(dsk) > 50:
        ctx.branch("collection>50")


CASES = {"order": case_order, "ndeps": case_ndeps, "collection": case_collection}


def _kinds_for(rng, adj, mode):
    n = len(adj)
    out = []
    for i in range(n):
        if mode == "tasks":
            out.append("task")
        else:
            out.append(rng.choice(KINDS) if rng.random() < 0.7 else "task")
    return out


def dag_shapes(n):
    """Every DAG on n nodes up to isomorphism at least once: topological numberings in which the level (longest path
    to a root) is non-decreasing and, inside a level, the dependency bitmask is non-decreasing. (Nodes of one level
    have no edges among them and their masks only mention lower levels, so every DAG has such a numbering.)"""
    for adj in all_dags(n):
        level = []
        ok = True
        for i in range(n):
            lv = 1 + max((level[j] for j in adj[i]), default=-1)
            mask = sum(1 << j for j in adj[i])
            if level and (lv < level[-1] or (lv == level[-1] and mask < prev_mask)):
                ok = False
                break
            level.append(lv)
            prev_mask = mask
        if ok:
            yield adj


def _cyclic_specials():
    """hand-made cyclic graphs: each cycle position relative to the normalisation loop"""
    T, D, N = "task", "data", "nontask"
    # self loop alone / next to a DAG part
    yield {"adj": [[0]], "kinds": [T], "ext": [0]}
    yield {"adj": [[], [1, 0]], "kinds": [T, T], "ext": [0, 0]}
    # 2-cycle, 3-cycle
    yield {"adj": [[1], [0]], "kinds": [T, T], "ext": [0, 0]}
    yield {"adj": [[2], [0], [1]], "kinds": [T, T, T], "ext": [0, 0, 0]}
    # cycle below a stripped non-task leaf (leaf 4 over cycle key 1 and task 3)
    yield {"adj": [[2], [0], [1], [], [1, 3]], "kinds": [T, T, T, T, N], "ext": [0] * 5}
    # ... below a chain of two stripped leaves
    yield {"adj": [[2], [0], [1], [], [1, 3], [4, 3]], "kinds": [T, T, T, T, N, N], "ext": [0] * 6}
    # cycle above a shared data root that the loop removes (getcycle then meets a dangling reference)
    yield {"adj": [[], [0, 2], [0, 1]], "kinds": [D, T, T], "ext": [0] * 3}
    yield {"adj": [[], [0, 2], [1], [0]], "kinds": [D, T, T, T], "ext": [0] * 4}
    # cycle reachable only through a removed data root's dependents + stripped leaf on top
    yield {"adj": [[], [0, 2], [0, 1], [1, 2]], "kinds": [D, T, T, N], "ext": [0] * 4}
    # cycle of non-task (alias / list) nodes, cycle with external references
    yield {"adj": [[1], [0]], "kinds": [N, N], "ext": [0, 0]}
    yield {"adj": [[1, 2], [0], []], "kinds": [N, N, T], "ext": [0, 0, 0]}
    yield {"adj": [[1], [0]], "kinds": [T, T], "ext": [1, 2], "style": "spec"}
    yield {"adj": [[0]], "kinds": [T], "ext": [1], "style": "spec"}


def _orphan_specials():
    """data roots whose dependents are all stripped after the root was removed (IndexError before fix 389cb25)"""
    T, D, N = "task", "data", "nontask"
    yield {"adj": [[], [], [], [0, 1, 2], [1, 2, 3], [2, 4]], "kinds": [T, T, D, N, N, N], "ext": [0] * 6}
    # two orphaned roots; a removed root (alias of a removed root) that is itself orphaned: emitted transitively
    yield {"adj": [[], [], [], [], [0, 1, 2, 3], [1, 2, 3, 4], [2, 3, 5]], "kinds": [T, T, D, D, N, N, N], "ext": [0] * 7}
    yield {"adj": [[], [], [], [2], [2], [0, 1, 3, 4], [1, 3, 4, 5], [3, 4, 6], [0, 7]],
           "kinds": [T, T, D, N, N, N, N, N, N], "ext": [0] * 9}
    # the orphaned root next to a root that keeps an alive dependent
    yield {"adj": [[], [], [], [0, 1, 2], [1, 2, 3], [2, 4], [2, 0]], "kinds": [T, T, D, N, N, N, T], "ext": [0] * 7}


def _tower(rng):
    """a tower of non-task list nodes over a few task / data roots: chains of stripped leaves, removed shared data roots"""
    m = rng.randint(2, 5)
    kinds = [rng.choice(["task", "task", "data"]) for _ in range(m)]
    adj = [[] for _ in range(m)]
    for _ in range(rng.randint(0, 2)):            # some tasks in the middle
        adj.append(rng.sample(range(len(adj)), rng.randint(1, min(3, len(adj)))))
        kinds.append("task")
    base = len(adj)
    for t in range(rng.randint(2, 5)):
        row = rng.sample(range(base), rng.randint(1, min(4, base)))
        if t:
            row.append(len(adj) - 1)
            if t > 1 and rng.random() < 0.3:
                row.append(len(adj) - 2)
        adj.append(row)
        kinds.append("nontask")
    return {"adj": adj, "kinds": kinds, "ext": [0] * len(adj), "style": rng.choice(["legacy", "legacy", "mixed"])}


def _close_cycle(rng, adj):
    """walk down from a random node along dependencies and let the node reached depend on the start: a cycle of
    length >= 2 whenever the start has a dependency"""
    cand = [i for i in range(len(adj)) if adj[i]]
    a = rng.choice(cand) if cand and rng.random() < 0.85 else rng.randrange(len(adj))
    b = a
    for _ in range(rng.randint(1, 4)):
        if not adj[b]:
            break
        b = rng.choice(adj[b])
    if a not in adj[b]:
        adj[b].append(a)


def generate(ctx):
    rng = ctx.rng
    # witness of the repaired defect (two stripped alias leaves) and a chain of stripped leaves
    yield "order", {"adj": [[], [], [], [0, 1], [1, 2]], "kinds": ["task", "task", "task", "nontask", "nontask"], "ext": [0] * 5}
    yield "order", {"adj": [[], [], [], [0, 1], [1, 2], [3, 4]], "kinds": ["task", "task", "task", "nontask", "nontask", "nontask"], "ext": [0] * 6}
    yield "order", {"adj": [[], [0], [0, 1], [2, 0]], "kinds": ["data", "task", "nontask", "nontask"], "ext": [0, 1, 0, 2], "style": "mixed"}
    for inp in _cyclic_specials():
        for style in ("legacy", "spec"):
            yield "order", dict(inp, style=inp.get("style", style))
    for inp in _orphan_specials():
        for style in ("legacy", "mixed"):
            yield "order", dict(inp, style=style)
    for _ in range(ctx.n(150, 2000)):
        inp = _tower(rng)
        if rng.random() < 0.1:
            _close_cycle(rng, inp["adj"])
        yield "order", inp
    # ndependencies at function level: every digraph (self loops included) on <= 3 nodes, sampled beyond
    for n in range(1, 4):
        for adj in all_digraphs(n):
            yield "ndeps", {"adj": adj}
    for _ in range(ctx.n(300, 4000)):
        n = rng.randint(2, rng.choice([4, 5, 8, 20]))
        if rng.random() < 0.7:
            adj = random_dag(rng, n, rng.choice([0.2, 0.4, 0.7]))
            if rng.random() < 0.3:
                _close_cycle(rng, adj)
        else:
            adj = random_digraph(rng, n, rng.choice([0.1, 0.25]) if n > 5 else rng.choice([0.2, 0.4]))
        perm = list(range(n))
        rng.shuffle(perm)
        yield "ndeps", {"adj": adj, "perm": perm, "keys": rng.choice(["int", "mixed"])}
    # exhaustive: every DAG x every kind assignment (quick: n <= 3, n = 4 sampled; thorough: n <= 4 over all topological
    # numberings x 3^n kinds; n = 5: every shape up to isomorphism (516 numberings) x every task/non-task labelling
    # (in a legacy graph a data node with dependencies IS a non-task node); n = 6: every shape (11622 numberings) x the
    # all-task labelling + 2 sampled labellings with external references)
    full = 4 if ctx.thorough() else 3
    for n in range(1, full + 1):
        for adj in all_dags(n):
            for kinds in itertools.product(KINDS, repeat=n):
                yield "order", {"adj": adj, "kinds": list(kinds), "ext": [0] * n}
    if ctx.thorough():
        for adj in dag_shapes(5):
            for kinds in itertools.product(("task", "nontask"), repeat=5):
                yield "order", {"adj": adj, "kinds": list(kinds), "ext": [0] * 5}
        for adj in dag_shapes(6):
            yield "order", {"adj": adj, "kinds": ["task"] * 6, "ext": [0] * 6}
            for _ in range(2):
                yield "order", {"adj": adj, "kinds": [rng.choice(KINDS) for _ in range(6)],
                                "ext": [rng.choice([0, 0, 0, 1]) for _ in range(6)],
                                "style": rng.choice(["legacy", "mixed", "spec"])}
    samp_n = full + 1
    dags = list(all_dags(samp_n)) if samp_n <= 4 else None
    for _ in range(ctx.n(500, 3000)):
        adj = rng.choice(dags) if dags else random_dag(rng, samp_n, rng.choice([0.3, 0.5, 0.7]), shuffle_labels=False)
        yield "order", {"adj": adj, "kinds": [rng.choice(KINDS) for _ in range(samp_n)],
                        "ext": [rng.choice([0, 0, 0, 1, 2]) for _ in range(samp_n)],
                        "style": rng.choice(["legacy", "mixed", "spec"])}
    # random larger graphs, relabelled; external references; cyclic variants
    for _ in range(ctx.n(400, 4000)):
        n = rng.randint(2, rng.choice([6, 10, 25, 60]))
        adj = random_dag(rng, n, rng.choice([0.08, 0.2, 0.4]) if n > 10 else rng.choice([0.3, 0.5]))
        kinds = _kinds_for(rng, adj, rng.choice(["mixed", "mixed", "tasks"]))
        ext = [rng.choice([0, 0, 0, 0, 1, 2]) for _ in range(n)]
        inp = {"adj": adj, "kinds": kinds, "ext": ext, "style": rng.choice(["legacy", "legacy", "mixed", "spec"])}
        r = rng.random()
        if r < 0.1:
            a, b = rng.randrange(n), rng.randrange(n)
            if b not in adj[a]:
                adj[a].append(b)     # may close a cycle (also self loops)
        elif r < 0.25:
            _close_cycle(rng, adj)
        yield "order", inp
    for _ in range(ctx.n(30, 300)):
        kind = rng.choice(["array", "bag", "delayed"])
        if kind == "array":
            nd = rng.choice([1, 2, 2])
            shape = [rng.randint(2, 12) for _ in range(nd)]
            if nd == 2 and rng.random() < 0.5:
                shape[1] = shape[0]
            chunks = [rng.randint(1, s) for s in shape]
            yield "collection", {"kind": kind, "shape": shape, "chunks": chunks, "op": rng.choice(["sum", "T+", "rechunk", "matmul"])}
        elif kind == "bag":
            yield "collection", {"kind": kind, "n": rng.randint(1, 60), "np": rng.randint(1, 20), "se": rng.randint(2, 5)}
        else:
            yield "collection", {"kind": kind, "n": rng.randint(1, 60), "se": rng.randint(2, 4)}
