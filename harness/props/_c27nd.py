"""C27 extension: `da.unique(ar, return_inverse=True)` on a 2-d array (model `Model/UniqueNd.lean`, theorems `Props/C27xNd.lean`).

Section
  unique_nd   `da.unique(2-d float array with NaN, return_inverse=True)` on a random 2-d chunking: the real result vs
              `np.unique`, and vs the Lean `uniqueNdInverse` fed with the chunks that the real `ar.ravel()` has (any
              chunking of the ravelled array is covered by the theorem); the inverse must have the shape of `ar`.
A float is an int >= 0 or -1 (NaN) on the wire.  Own seed-derived stream (the older streams are unchanged).
"""
from __future__ import annotations

import random

from sexp import Sym

from props._chunks_util import rand_comp, rand_comp_zeros, setup_dask
from props._c27x import _enc, _farr


def case_unique_nd(ctx, inp):
    import numpy as np
    import dask.array as da
    setup_dask()
    r, w, xs = inp["r"], inp["w"], inp["x"]
    x = _farr(xs).reshape((r, w))
    d = da.from_array(x, chunks=(tuple(inp["rchunks"]), tuple(inp["cchunks"])))
    ev, ei = np.unique(x, return_inverse=True)
    ei = np.asarray(ei).reshape(x.shape)   # NumPy 2.0.x returned the inverse flat for n-d input
    gv, gi = da.unique(d, return_inverse=True)
    flat_chunks = [int(c) for c in d.ravel().chunks[0]]
    gv, gi = np.asarray(gv.compute(scheduler="sync")), np.asarray(gi.compute(scheduler="sync"))
    ok = True
    if gi.shape != x.shape:
        ctx.fail("unique(return_inverse) on a 2-d array: the inverse does not have the shape of the input",
                 observed=list(gi.shape), expected=list(x.shape))
        ok = False
    elif not (np.array_equal(gv, ev, equal_nan=True) and np.array_equal(gi, ei)):
        ctx.fail("unique(return_inverse) on a 2-d array: differs from NumPy",
                 observed=[[_enc(v) for v in gv], gi.tolist()], expected=[[_enc(v) for v in ev], ei.tolist()])
        ok = False
    blocks, i = [], 0
    for c in flat_chunks:
        blocks.append(list(xs[i:i + c]))
        i += c
    m = ctx.lean(Sym("unique_nd_inverse"), r, w, blocks)
    if ok:
        ctx.eq("unique(return_inverse) 2-d: Lean uniqueNdInverse vs dask (values, inverse in the input's shape)", m,
               [[_enc(v) for v in gv], [[int(k) for k in row] for row in gi]])
    ctx.branch("unique_nd:nan" if any(v < 0 for v in xs) else "unique_nd:no-nan")
    if len(flat_chunks) > 1:
        ctx.branch("unique_nd:several-chunks-after-ravel")
    if any(c % w for c in flat_chunks if w):
        ctx.branch("unique_nd:ravel-chunk-not-a-multiple-of-the-row")
    if 0 in inp["rchunks"] or 0 in inp["cchunks"]:
        ctx.branch("unique_nd:empty-chunk")
    if r == 1 or w == 1:
        ctx.branch("unique_nd:length-one-axis")


CASES = {"unique_nd": case_unique_nd}


def gen_explicit():
    yield "unique_nd", {"r": 2, "w": 3, "x": [3, -1, -1, 1, -1, 3], "rchunks": [1, 1], "cchunks": [2, 1]}
    yield "unique_nd", {"r": 1, "w": 1, "x": [-1], "rchunks": [1], "cchunks": [1]}
    yield "unique_nd", {"r": 3, "w": 2, "x": [0, 0, 0, 0, 0, 0], "rchunks": [2, 0, 1], "cchunks": [2]}


def gen_api(ctx, count):
    rng = random.Random(f"C27xnd-api-{ctx.seed}")
    for _ in range(count):
        r, w = rng.randint(1, 5), rng.randint(1, 5)
        hi = rng.choice([1, 3, 8])
        pn = rng.choice([0.0, 0.15, 0.4])
        x = [-1 if rng.random() < pn else rng.randint(0, hi) for _ in range(r * w)]
        rc = rand_comp_zeros(rng, r) if rng.random() < 0.25 else rand_comp(rng, r)
        cc = rand_comp_zeros(rng, w) if rng.random() < 0.25 else rand_comp(rng, w)
        yield "unique_nd", {"r": r, "w": w, "x": x, "rchunks": list(rc), "cchunks": list(cc)}
