"""C11 — equal task nodes compute equal values.

Model:    lean/DaskModel/Model/TaskNode.lean (what every node class feeds to tokenize, ==, hash, node(values))
Theorems: lean/DaskModel/Props/C11.lean
Tie:      `tok`   function level: md5(model pre-image) == tokenize(node), for every node class
          `pair`  model equality pattern vs real `==` / token equality / hash; property oracle: nodes that compare
                  equal or share a token evaluate to equal results on random dependency values
          `eval`  node(values) vs the model's evaluator
          `hist`  stateful histories: build a node, force its token (hash / == / tokenize / set membership), derive
                  nodes by substitute (rewiring, renaming), copy, pickle, fuse; then (a) the token every node answers
                  with == the token of its current fields (rebuilt afresh, and the model's), (b) derived nodes that
                  compare equal or share a token evaluate alike
"""
from __future__ import annotations

import json

from sexp import Sym
from props import _token_util as U

PROP = "C11"
READY = True
DRIVER = "dm_token"
LEAN_MODULES = ["DaskModel.Props.C11", "DaskModel.Props.C11Cache"]
TABLES = ["TaskSpecIdentity"]
CASE_TIMEOUT_S = 90
LEVEL_TEXT = ("Lean proof: for task-spec nodes (Alias, DataNode, Task with args/kwargs, List/Tuple/Set/Dict containers, "
              "TaskRef and literal arguments, nested arbitrarily) equality of the normal forms fed to tokenize implies "
              "equal evaluation on every environment, over any value algebra in which sets ignore element order and dicts "
              "with distinct keys ignore item order (node_identity_sound, by structural induction); == is same class and "
              "same token; a == b implies hash a == hash b. The token cache of Task objects is explicit state: along every "
              "history of force / substitute / copy / pickle from freshly built nodes the token the code answers with is the "
              "token of the node's current fields (cached_token_sound, history_token_sound), so derived nodes that compare "
              "equal evaluate alike (derived_nodes_sound) and substitute evaluates like the original under the substituted "
              "environment (substN_eval). The exact md5 pre-image of every node class is compared with the real tokenize on "
              "each run, also after such histories.")
LEVEL_NOTE = ("md5 assumed injective; a literal str argument that happens to be a token is not distinguished from the node "
              "it names (hypothesis: literals are user values); pickle of functions / TaskRef assumed faithful; Dict "
              "containers whose keys coincide after evaluation are outside the theorem (known finding).")
TECHNIQUE = "Lean 4 proof (mutual structural induction over nested node terms) + differential correspondence on the md5 pre-image"
ASSUMPTIONS = ["hashlib.md5 injective on the pre-images compared", "pickle.dumps is injective on functions and TaskRef keys",
               "functions do not observe the order of keyword arguments",
               "no literal str argument equals the token of a node (digest strings are not user data)"]
TRUSTED = ["harness/props/_token_util.py: encoding of real nodes as Lean `Node` (reads obj.args / obj.kwargs), placeholder resolution"]

KEYS = [["str", "x"], ["str", "y"], ["tuple", [["str", "x"], ["int", 0]]], ["tuple", [["str", "z"], ["int", 1]]], ["str", "w"]]
SIG_DUP = "dict:keys-collide-after-evaluation:equal-nodes-different-values"


def _tokenize(x):
    from dask.tokenize import tokenize
    return tokenize(x)


def _is_graphnode(o):
    from dask._task_spec import GraphNode
    return isinstance(o, GraphNode)


def _values(envspec):
    return {U.build(k) if k[0] != "tuple" else tuple(U.build(e) for e in k[1]): U.build(v) for k, v in envspec}


def _call(node, values):
    from dask._task_spec import GraphNode, TaskRef
    if isinstance(node, GraphNode):
        return node({k: values[k] for k in node.dependencies})
    if isinstance(node, TaskRef):
        return values[node.key]
    return node


def _classes(ctx, spec, pref=""):
    t = spec[0]
    ctx.branch(pref + t)
    if t == "task":
        if spec[3]:
            ctx.branch(pref + "task-kwargs")
        for a in spec[2]:
            _classes(ctx, a, pref)
        for _, a in spec[3]:
            _classes(ctx, a, pref)
    elif t in ("List", "Tuple", "Set"):
        for a in spec[1]:
            _classes(ctx, a, pref)
    elif t == "Dict":
        for k, v in spec[1]:
            _classes(ctx, k, pref)
            _classes(ctx, v, pref)


def case_tok(ctx, inp):
    node = U.build_node(inp["node"])
    real = _tokenize(node)
    tok, pre = U.model_node_token(ctx, node)
    if tok != real:
        ctx.disagree("tokenize(node) pre-image", pre, real)
    if _is_graphnode(node):
        table = U.Table()
        ctx.eq("class name", str(ctx.lean(Sym("nodeclass"), U.enc_node(node, table))), type(node).__name__)
        if not (node == node):
            ctx.fail("node != itself", observed=repr(node))
    _classes(ctx, inp["node"])


def _dup_keys_possible(spec, values):
    """Does some Dict in the spec have two items whose keys are equal after evaluation?"""
    t = spec[0]
    if t == "Dict":
        ks = []
        for k, v in spec[1]:
            kv = _call(U.build_node(k), values)
            try:
                if any(kv == o and hash(kv) == hash(o) for o in ks):
                    return True
            except TypeError:
                return True
            ks.append(kv)
            if _dup_keys_possible(k, values) or _dup_keys_possible(v, values):
                return True
        return False
    if t == "task":
        return any(_dup_keys_possible(a, values) for a in spec[2]) or any(_dup_keys_possible(a, values) for _, a in spec[3])
    if t in ("List", "Tuple", "Set"):
        return any(_dup_keys_possible(a, values) for a in spec[1])
    return False


def case_pair(ctx, inp):
    a, b = U.build_node(inp["a"]), U.build_node(inp["b"])
    label = inp.get("label", "?")
    ta, tb = _tokenize(a), _tokenize(b)
    ma, _ = U.model_node_token(ctx, a)
    mb, _ = U.model_node_token(ctx, b)
    ctx.eq("token equality pattern (model vs tokenize)", ma == mb, ta == tb)
    ga, gb = _is_graphnode(a), _is_graphnode(b)
    eq = bool(a == b) if (ga or gb) else None
    if ga and gb:
        from dask._task_spec import Alias
        same_class = type(a) is type(b)
        if isinstance(a, Alias) and isinstance(b, Alias):
            model_eq = (a.key == b.key and a.target == b.target)
        else:
            model_eq = same_class and ma == mb
        ctx.eq("== (model: same class and same token)", model_eq, eq)
        # hash consistency
        if eq:
            try:
                ha, hb = hash(a), hash(b)
            except TypeError:
                ha = hb = None
            if ha != hb:
                ctx.fail("a == b but hash(a) != hash(b)", sig="hash:" + type(a).__name__, observed=[repr(a), repr(b)])
    ctx.branch(("same:" if ta == tb else "differ:") + label)
    if ta == tb or eq:
        for envspec in inp["envs"]:
            values = _values(envspec)
            try:
                ra, rb = _call(a, values), _call(b, values)
            except TypeError as e:       # unhashable set element / dict key: both sides are built from the same items
                ctx.note("eval-typeerror")
                continue
            if not (U.canon_repr(ra) == U.canon_repr(rb) or ra == rb):
                dup = _dup_keys_possible(inp["a"], values) or _dup_keys_possible(inp["b"], values)
                ctx.fail("nodes compare equal / share a token but evaluate to different values",
                         sig=SIG_DUP if dup else f"equal-nodes-different-values:{inp['a'][0]}|{inp['b'][0]}:{label}",
                         observed=[U.canon_repr(ra), U.canon_repr(rb)], expected="equal results")
                break


def case_eval(ctx, inp):
    node = U.build_node(inp["node"])
    values = _values(inp["env"])
    table = U.Table()
    envs = [[U.enc(k, table), U.enc(v, table)] for k, v in values.items()]
    try:
        real = U.canon_repr(_call(node, values))
    except TypeError:
        ctx.note("eval-typeerror")
        return
    model = ctx.lean(Sym("nodeeval"), U.enc_node(node, table), envs)
    ctx.eq("node(values)", str(model), real)
    _classes(ctx, inp["node"], "eval-")


# ----------------------------------------------------------------------------------------------
# stateful histories: force the token, then derive nodes by substitute / rename / copy / pickle / fuse
# ----------------------------------------------------------------------------------------------

def _rebuild(obj):
    """the same node built afresh through the constructors, from the fields the object holds NOW (no cached state)"""
    from dask import _task_spec as ts
    if isinstance(obj, ts.Dict):
        return ts.Dict(*[_rebuild(a) for a in obj.args])
    if isinstance(obj, ts.NestedContainer):
        args = [_rebuild(a) for a in obj.args]
        cls = type(obj)
        if len(args) == 1 and isinstance(args[0], cls.klass):
            return cls(cls.klass([args[0]]))
        return cls(*args)
    if isinstance(obj, ts.Task):
        kwargs = {k: _rebuild(v) for k, v in obj.kwargs.items()}
        return type(obj)(obj.key, obj.func, *[_rebuild(a) for a in obj.args], **kwargs)
    if isinstance(obj, ts.Alias):
        return ts.Alias(obj.key, obj.target)
    if isinstance(obj, ts.DataNode):
        return ts.DataNode(obj.key, obj.value)
    if isinstance(obj, ts.TaskRef):
        return ts.TaskRef(obj.key)
    if isinstance(obj, dict):
        return {k: _rebuild(v) for k, v in obj.items()}
    if isinstance(obj, (list, tuple)):
        return type(obj)(_rebuild(v) for v in obj)
    return obj


def _key(spec):
    return U.build(spec) if spec[0] != "tuple" else tuple(U.build(e) for e in spec[1])


def _force(obj, how, others):
    if how == "hash":
        try:
            hash(obj)
        except TypeError:
            _tokenize(obj)
    elif how == "eq":
        obj == (others[0] if others else obj)
    elif how == "set":
        try:
            {obj}
        except TypeError:
            _tokenize(obj)
    else:
        _tokenize(obj)


def case_hist(ctx, inp):
    import pickle
    from dask import _task_spec as ts
    base = U.build_node(inp["base"])
    if not _is_graphnode(base):
        return
    pop = [base]
    how_made = ["base"]
    for op in inp["ops"]:
        kind = op[0]
        src = pop[op[1] % len(pop)]
        try:
            if kind == "force":
                _force(src, op[2], pop)
                ctx.branch("hist-force-" + op[2])
                continue
            if kind == "subst":
                subs = {_key(k): _key(v) for k, v in op[2]}
                new = src.substitute(subs)
                real = any(k in src.dependencies and subs[k] != k for k in subs)
                lab = "subst-rewire" if real else "subst-miss"
            elif kind == "rename":
                new = src.substitute({}, key=op[2])
                lab = "rename"
            elif kind == "substrename":
                subs = {_key(k): _key(v) for k, v in op[2]}
                new = src.substitute(subs, key=op[3])
                lab = "subst+rename"
            elif kind == "copy":
                new = src.copy()
                lab = "copy"
            elif kind == "pickle":
                new = pickle.loads(pickle.dumps(src))
                lab = "pickle"
            elif kind == "fuse":
                if not isinstance(src, ts.Task) or isinstance(src, ts.NestedContainer):
                    continue
                consumer = ts.Task("consumer-%d" % len(pop), U.FUNCS[1], ts.TaskRef(src.key), ts.TaskRef("y"))
                new = ts.GraphNode.fuse(src, consumer)
                lab = "fuse"
            else:
                raise ValueError(op)
        except NotImplementedError:
            ctx.note("hist-not-implemented")
            continue
        except (TypeError, AssertionError) as e:
            # NestedContainer inherits Task.copy, which calls the container constructor with Task arguments and raises
            # (TypeError "multiple values for keyword argument 'constructor'", AssertionError for Dict): no node is derived
            if kind == "copy" and isinstance(src, ts.NestedContainer):
                ctx.note("hist-container-copy-raises")
                continue
            raise
        if not _is_graphnode(new):
            continue
        # substitution lemma (substN_eval): the rewired node evaluates like the original on the substituted values
        if kind in ("subst", "substrename"):
            for envspec in inp["envs"]:
                values = _values(envspec)
                seen_through = dict(values)
                for k, v in subs.items():
                    if k in values and v in values:
                        seen_through[k] = values[v]
                try:
                    r_new, r_old = _call(new, values), _call(src, seen_through)
                except (TypeError, KeyError):
                    ctx.note("eval-typeerror")
                    continue
                if not (U.canon_repr(r_new) == U.canon_repr(r_old) or r_new == r_old):
                    ctx.fail("node.substitute(subs) does not evaluate like the node on the substituted dependency values",
                             sig=None, observed={"node": repr(src)[:150], "subs": repr(subs)[:100], "new": repr(new)[:150],
                                                 "values": [U.canon_repr(r_new)[:120], U.canon_repr(r_old)[:120]]})
                    break
        pop.append(new)
        how_made.append(lab)
        ctx.branch("hist-" + lab + ":" + type(src).__name__)
    # (a) what the code answers for the token == the token of the node's current fields
    toks = []
    for obj, lab in zip(pop, how_made):
        t = _tokenize(obj)
        toks.append(t)
        fresh = _tokenize(_rebuild(obj))
        if t != fresh:
            ctx.fail("the token the node answers with is not the token of its current fields (stale cached token)",
                     sig=None, observed={"made_by": lab, "node": repr(obj)[:200], "answered": t, "recomputed": fresh},
                     expected=fresh)
        try:
            mt, _ = U.model_node_token(ctx, obj)
            ctx.eq("tokenize(node) after a history == model token of the current fields", mt, t)
        except U.Unsupported:
            ctx.note("hist-unsupported")
    # (b) nodes that compare equal / share a token evaluate alike
    nfail = 0
    for i in range(len(pop)):
        for j in range(i):
            a, b = pop[i], pop[j]
            eq = bool(a == b)
            same_tok = toks[i] == toks[j]
            if eq:
                try:
                    if hash(a) != hash(b):
                        ctx.fail("a == b but hash(a) != hash(b)", sig="hash:" + type(a).__name__, observed=[repr(a)[:150], repr(b)[:150]])
                except TypeError:
                    pass
            if not (eq or same_tok) or nfail:
                continue
            for envspec in inp["envs"]:
                values = _values(envspec)
                try:
                    ra, rb = _call(a, values), _call(b, values)
                except TypeError:
                    ctx.note("eval-typeerror")
                    continue
                if not (U.canon_repr(ra) == U.canon_repr(rb) or ra == rb):
                    dup = False
                    ctx.fail("nodes derived from one another compare equal / share a token but evaluate to different values",
                             sig=None, observed={"made_by": [how_made[i], how_made[j]], "a": repr(a)[:150], "b": repr(b)[:150],
                                                 "values": [U.canon_repr(ra)[:150], U.canon_repr(rb)[:150]]},
                             expected="equal results")
                    nfail += 1
                    break
    ctx.branch("hist")


CASES = {"tok": case_tok, "pair": case_pair, "eval": case_eval, "hist": case_hist}


# ----------------------------------------------------------------------------------------------
# generators
# ----------------------------------------------------------------------------------------------

def gen_lit(rng):
    r = rng.random()
    if r < 0.6:
        return ["lit", rng.choice([["int", 1], ["int", 2], ["int", 0], ["bool", True], ["float", "1.0"], ["str", "a"],
                                   ["str", "b"], ["str", "x"], ["none"], ["bytes", [97]], ["str", "1"]])]
    if r < 0.8:
        return ["lit", U.gen_value(rng, 2, arrays=False)]
    return ["lit", ["list", [["int", rng.randint(0, 3)] for _ in range(rng.randint(0, 3))]]]


_NO_COLLIDE = [False]   # eval stream: no 1 / True / 1.0 among set elements and dict keys (the model does not merge them)


def gen_hashable_arg(rng):
    r = rng.random()
    if r < 0.55:
        pool = [["int", 1], ["int", 2], ["int", 3], ["str", "a"], ["str", "b"], ["str", "c"], ["none"],
                ["tuple", [["int", 1], ["str", "a"]]]]
        if not _NO_COLLIDE[0]:
            pool += [["bool", True], ["float", "1.0"]]
        return ["lit", rng.choice(pool)]
    return ["ref", rng.choice(KEYS)]


def gen_arg(rng, depth):
    r = rng.random()
    if depth >= 3 or r < 0.35:
        return gen_lit(rng)
    if r < 0.55:
        return ["ref", rng.choice(KEYS)]
    return gen_node(rng, depth + 1)


def gen_node(rng, depth=0):
    r = rng.random()
    if r < 0.3:
        kws = [[k, gen_arg(rng, depth + 1)] for k in rng.sample(["a", "b", "c", "kw"], rng.choice([0, 0, 1, 2, 3]))]
        return ["task", rng.randrange(3), [gen_arg(rng, depth + 1) for _ in range(rng.randint(0, 3))], kws]
    if r < 0.45:
        return ["List", [gen_arg(rng, depth + 1) for _ in range(rng.randint(0, 4))]]
    if r < 0.57:
        return ["Tuple", [gen_arg(rng, depth + 1) for _ in range(rng.randint(0, 4))]]
    if r < 0.69:
        return ["Set", [gen_hashable_arg(rng) for _ in range(rng.randint(0, 4))]]
    if r < 0.84:
        return ["Dict", [[gen_hashable_arg(rng), gen_arg(rng, depth + 1)] for _ in range(rng.randint(0, 3))]]
    if r < 0.92:
        return ["alias", rng.choice(KEYS), rng.choice(KEYS)]
    return ["data", gen_lit(rng)[1]]


def mutate_node(rng, spec):
    t = spec[0]
    c = rng.random()
    if t == "lit":
        m, lab = U.mutate(rng, spec[1])
        return ["lit", m], "lit:" + lab.split(":")[0]
    if t == "ref":
        return rng.choice([(["ref", rng.choice(KEYS)], "ref-rename"), (["lit", spec[1]], "ref->lit"),
                           (["alias", spec[1], spec[1]], "ref->alias")])
    if t == "alias":
        return rng.choice([(["alias", spec[1], rng.choice(KEYS)], "alias-target"), (["alias", rng.choice(KEYS), spec[2]], "alias-key"),
                           (["ref", spec[2]], "alias->ref")])
    if t == "data":
        if c < 0.3:
            return ["data", spec[1], "otherkey"], "same:data-key"
        if c < 0.5:
            return ["lit", spec[1]], "data->lit"
        m, lab = U.mutate(rng, spec[1])
        return ["data", m], "data:" + lab.split(":")[0]
    if t == "task":
        _, f, args, kws = spec[:4]
        if c < 0.1:
            return ["task", f, args, kws, "otherkey"], "same:task-key"
        if c < 0.2:
            return ["task", (f + 1) % 3, args, kws], "task-func"
        if c < 0.4 and len(args) >= 2:
            i, j = rng.sample(range(len(args)), 2)
            a2 = list(args)
            a2[i], a2[j] = a2[j], a2[i]
            return ["task", f, a2, kws], "task-args-swap"
        if c < 0.55 and len(kws) >= 2:
            k2 = list(kws)
            rng.shuffle(k2)
            return ["task", f, args, k2], "same:task-kwargs-reorder"
        if c < 0.65 and len(kws) >= 2:
            k2 = [list(p) for p in kws]
            k2[0][1], k2[1][1] = k2[1][1], k2[0][1]
            return ["task", f, args, k2], "task-kwargs-swap-values"
        if c < 0.75 and kws:
            return ["task", f, args + [kws[0][1]], kws[1:]], "task-kw->positional"
        if c < 0.85 and args:
            i = rng.randrange(len(args))
            m, lab = mutate_node(rng, args[i])
            return ["task", f, args[:i] + [m] + args[i + 1:], kws], "task-arg:" + lab.replace("same:", "")
        if kws:
            i = rng.randrange(len(kws))
            m, lab = mutate_node(rng, kws[i][1])
            return ["task", f, args, kws[:i] + [[kws[i][0], m]] + kws[i + 1:]], "task-kwvalue:" + lab.replace("same:", "")
        return ["task", f, args + [["lit", ["none"]]], kws], "task-arg-append"
    if t in ("List", "Tuple", "Set"):
        args = spec[1]
        if c < 0.35 and len(args) >= 2:
            a2 = list(args)
            i, j = rng.sample(range(len(a2)), 2)
            a2[i], a2[j] = a2[j], a2[i]
            return [t, a2], ("same:" if t == "Set" else "") + t + "-permute"
        if c < 0.5:
            other = rng.choice([k for k in ("List", "Tuple", "Set") if k != t])
            if other == "Set":
                args = [a for a in args if a[0] in ("lit", "ref") and (a[0] == "ref" or a[1][0] in ("int", "str", "none", "bool", "float", "tuple"))]
            return [other, args], t + "->" + other
        if c < 0.62 and len(args) >= 2:
            return [t, [[t, args[:1]]] + args[1:]] if t != "Set" else [t, args[1:]], t + "-renest"
        if c < 0.72 and t != "Set":
            return ["lit", [t.lower(), [a[1] for a in args if a[0] == "lit"]]] if all(a[0] == "lit" for a in args) else [t, args + args[:1]], t + "->literal"
        if c < 0.8 and args:
            return [t, args + [args[0]]], ("same:" if t == "Set" else "") + t + "-duplicate"
        if args:
            i = rng.randrange(len(args))
            m, lab = mutate_node(rng, args[i]) if t != "Set" else (gen_hashable_arg(rng), "replace")
            return [t, args[:i] + [m] + args[i + 1:]], t + "-elem:" + lab.replace("same:", "")
        return [t, [["lit", ["int", 0]]]], t + "-add"
    if t == "Dict":
        items = spec[1]
        if c < 0.3 and len(items) >= 2:
            it = list(items)
            rng.shuffle(it)
            return ["Dict", it], "same:Dict-reorder"
        if c < 0.55 and len(items) >= 2:
            it = [list(p) for p in items]
            i, j = rng.sample(range(len(it)), 2)
            it[i][1], it[j][1] = it[j][1], it[i][1]
            return ["Dict", it], "Dict-swap-values"
        if c < 0.65 and items:
            flat = [x for p in items for x in p]
            return ["List", flat], "Dict->List"
        if c < 0.75 and len(items) >= 1:
            it = [list(p) for p in items]
            i = rng.randrange(len(it))
            if it[i][1][0] in ("lit", "ref") and (it[i][1][0] == "ref" or it[i][1][1][0] in ("int", "str", "none", "bool")):
                it[i][0], it[i][1] = it[i][1], it[i][0]
                return ["Dict", it], "Dict-swap-key-value"
        if items:
            i = rng.randrange(len(items))
            m, lab = mutate_node(rng, items[i][1])
            return ["Dict", items[:i] + [[items[i][0], m]] + items[i + 1:]], "Dict-value:" + lab.replace("same:", "")
        return ["Dict", [[["lit", ["str", "a"]], ["lit", ["int", 1]]]]], "Dict-add"
    return spec, "same:identity"


def gen_envs(rng, n=2):
    envs = []
    for _ in range(n):
        vals = [["int", 1], ["int", 2], ["str", "a"], ["str", "b"], ["int", 3], ["none"], ["tuple", [["int", 1], ["str", "a"]]]]
        env = []
        distinct = rng.random() < 0.7
        pool = list(vals)
        rng.shuffle(pool)
        for i, k in enumerate(KEYS):
            env.append([k, pool[i] if distinct else rng.choice(vals[:3])])
        envs.append(env)
    return envs


EXPLICIT = [
    (["List", [["lit", ["int", 1]], ["lit", ["int", 2]]]], ["List", [["lit", ["int", 2]], ["lit", ["int", 1]]]], "List-permute"),
    (["Tuple", [["lit", ["int", 1]], ["lit", ["int", 2]]]], ["Tuple", [["lit", ["int", 2]], ["lit", ["int", 1]]]], "Tuple-permute"),
    (["Set", [["lit", ["int", 1]], ["lit", ["int", 2]]]], ["Set", [["lit", ["int", 2]], ["lit", ["int", 1]]]], "same:Set-permute"),
    (["Dict", [[["lit", ["str", "a"]], ["lit", ["int", 1]]], [["lit", ["str", "b"]], ["lit", ["int", 2]]]]],
     ["Dict", [[["lit", ["str", "a"]], ["lit", ["int", 2]]], [["lit", ["str", "b"]], ["lit", ["int", 1]]]]], "Dict-swap-values"),
    (["Dict", [[["lit", ["str", "a"]], ["lit", ["int", 1]]], [["lit", ["str", "b"]], ["lit", ["int", 2]]]]],
     ["Dict", [[["lit", ["str", "b"]], ["lit", ["int", 2]]], [["lit", ["str", "a"]], ["lit", ["int", 1]]]]], "same:Dict-reorder"),
    (["List", [["ref", ["str", "x"]], ["ref", ["str", "y"]]]], ["List", [["ref", ["str", "y"]], ["ref", ["str", "x"]]]], "List-permute"),
    (["task", 0, [["List", [["lit", ["int", 1]], ["lit", ["int", 2]]]]], []], ["task", 0, [["List", [["lit", ["int", 2]], ["lit", ["int", 1]]]]], []], "task-arg:List-permute"),
    (["task", 0, [], [["a", ["lit", ["int", 1]]], ["b", ["lit", ["int", 2]]]]], ["task", 0, [], [["b", ["lit", ["int", 2]]], ["a", ["lit", ["int", 1]]]], "k2"], "same:task-kwargs-reorder"),
    (["List", [["List", [["lit", ["int", 1]]]], ["lit", ["int", 2]]]], ["List", [["lit", ["int", 1]], ["List", [["lit", ["int", 2]]]]]], "List-renest"),
    (["data", ["int", 1]], ["data", ["bool", True]], "data:int->bool"),
    (["List", [["lit", ["int", 1]], ["lit", ["int", 2]]]], ["Tuple", [["lit", ["int", 1]], ["lit", ["int", 2]]]], "List->Tuple"),
    (["List", [["lit", ["int", 1]], ["lit", ["int", 2]]]], ["lit", ["list", [["int", 1], ["int", 2]]]], "List->literal"),
    # known finding: keys that coincide after evaluation
    (["Dict", [[["lit", ["str", "a"]], ["lit", ["int", 1]]], [["lit", ["str", "a"]], ["lit", ["int", 2]]]]],
     ["Dict", [[["lit", ["str", "a"]], ["lit", ["int", 2]]], [["lit", ["str", "a"]], ["lit", ["int", 1]]]]], "same:Dict-reorder-dupkeys"),
]


def gen_ref_task(rng, depth=0):
    """tasks / containers that really depend on keys (so that substitute rewires something)"""
    def arg(d):
        r = rng.random()
        if r < 0.5:
            return ["ref", rng.choice(KEYS)]
        if r < 0.65:
            return ["lit", rng.choice([["int", 1], ["str", "a"], ["list", [["int", 2]]]])]
        if r < 0.75:
            return ["alias", rng.choice(KEYS), rng.choice(KEYS)]
        if d >= 2:
            return ["ref", rng.choice(KEYS)]
        return node(d + 1)

    def node(d):
        r = rng.random()
        if r < 0.55:
            kws = [[k, arg(d)] for k in rng.sample(["a", "b"], rng.choice([0, 0, 1, 2]))]
            return ["task", rng.randrange(3), [arg(d) for _ in range(rng.randint(1, 3))], kws]
        if r < 0.7:
            return ["List", [arg(d) for _ in range(rng.randint(1, 3))]]
        if r < 0.8:
            return ["Tuple", [arg(d) for _ in range(rng.randint(1, 3))]]
        if r < 0.9:
            return ["Dict", [[["lit", ["str", k]], arg(d)] for k in rng.sample(["p", "q", "r"], rng.randint(1, 2))]]
        return ["Set", [["ref", k] for k in rng.sample(KEYS, rng.randint(1, 2))]]
    return node(depth)


def gen_hist(rng):
    base = gen_ref_task(rng) if rng.random() < 0.85 else rng.choice([["alias", rng.choice(KEYS), rng.choice(KEYS)], gen_node(rng)])
    ops = []
    n = 1
    for _ in range(rng.randint(2, 7)):
        r = rng.random()
        i = rng.randrange(n)
        if r < 0.3:
            ops.append(["force", i, rng.choice(["hash", "eq", "tokenize", "set"])])
            continue
        if r < 0.6:
            ks = rng.sample(KEYS, rng.randint(1, 2))
            ops.append(["subst", i, [[k, rng.choice(KEYS)] for k in ks]])
        elif r < 0.7:
            ops.append(["rename", i, "renamed-%d" % n])
        elif r < 0.78:
            ops.append(["substrename", i, [[rng.choice(KEYS), rng.choice(KEYS)]], "renamed-%d" % n])
        elif r < 0.86:
            ops.append(["copy", i])
        elif r < 0.94:
            ops.append(["pickle", i])
        else:
            ops.append(["fuse", i])
        n += 1
    return {"base": base, "ops": ops, "envs": gen_envs(rng, 2)}


EXPLICIT_HIST = [
    # token computed first, then the dependency is rewired: the rewired task must not keep the old token
    {"base": ["task", 0, [["ref", ["str", "x"]]], []],
     "ops": [["force", 0, "hash"], ["subst", 0, [[["str", "x"], ["str", "y"]]]], ["subst", 0, [[["str", "x"], ["str", "w"]]]],
             ["rename", 0, "other"], ["copy", 0], ["pickle", 0]]},
    {"base": ["task", 1, [["List", [["ref", ["str", "x"]], ["task", 0, [["ref", ["str", "y"]]], []]]]], [["a", ["ref", ["str", "x"]]]]],
     "ops": [["force", 0, "tokenize"], ["subst", 0, [[["str", "y"], ["str", "w"]]]], ["force", 1, "set"],
             ["subst", 1, [[["str", "x"], ["str", "y"]]]], ["substrename", 0, [[["str", "x"], ["str", "w"]]], "k2"]]},
    {"base": ["task", 2, [["ref", ["str", "x"]], ["ref", ["str", "y"]]], []],
     "ops": [["force", 0, "eq"], ["fuse", 0], ["force", 1, "hash"], ["subst", 1, [[["str", "x"], ["str", "w"]]]],
             ["subst", 1, [[["str", "y"], ["str", "w"]]]]]},
    {"base": ["alias", ["str", "x"], ["str", "y"]],
     "ops": [["force", 0, "tokenize"], ["subst", 0, [[["str", "y"], ["str", "w"]]]], ["subst", 0, [[["str", "x"], ["str", "w"]]]]]},
]


def generate(ctx):
    rng = ctx.rng
    for a, b, label in EXPLICIT:
        yield "pair", {"a": a, "b": b, "label": label, "envs": gen_envs(rng)}
        yield "tok", {"node": a}
        yield "tok", {"node": b}
    for _ in range(ctx.n(250, 6000)):
        yield "tok", {"node": gen_node(rng)}
    for _ in range(ctx.n(400, 9000)):
        a = gen_node(rng)
        r = rng.random()
        if r < 0.75:
            b, label = mutate_node(rng, a)
        elif r < 0.85:
            b, label = json.loads(json.dumps(a)), "same:identity"
        else:
            b, label = gen_node(rng), "independent"
        yield "pair", {"a": a, "b": b, "label": label, "envs": gen_envs(rng)}
    for h in EXPLICIT_HIST:
        yield "hist", dict(h, envs=gen_envs(rng, 2))
    for _ in range(ctx.n(200, 3000)):
        yield "hist", gen_hist(rng)
    _NO_COLLIDE[0] = True
    try:
        evals = [{"node": gen_node(rng), "env": gen_envs(rng, 1)[0]} for _ in range(ctx.n(100, 3000))]
    finally:
        _NO_COLLIDE[0] = False
    for e in evals:
        yield "eval", e


def search(ctx):
    yield from generate(ctx)
