"""C12 extension: MultiIndex, Categorical, nullable (masked) arrays, tz-aware / period / timedelta / interval values and
pandas scalars — specs, builders, the encoding for Model/NormalFormPandasX.lean, an independent observation oracle and
near-miss mutations.  Used by c12.py (sections `ppx`, `pxpair`).

value spec   ["np", dtype, vals] | ["obj", strs] | ["str", strs, "str"|"string"] | ["masked", dtypename, data, mask]
             | ["cat", codes, catsIdxSpec, ordered] | ["dt", i8s, unit, tz|None] | ["td", i8s, unit] | ["period", ordinals, freq]
             | ["interval", leftIdxSpec, rightIdxSpec, closed]
index spec   ["range", start, stop, step, name] | ["idx", valueSpec, name] | ["multi", [idxSpec…], [[codes]…], [names…]]
object spec  ["index", idxSpec] | ["vals", valueSpec] | ["series", valueSpec, name, idxSpec] | ["frame", [[col, valueSpec]…], idxSpec]
             | ["ts", i8, unit, tz|None] | ["tdelta", i8, unit] | ["nat"] | ["na"]
A tz is a name ("UTC", "Europe/Berlin") or ["fixed", minutes, name] (datetime.timezone with a chosen name).
"""
from __future__ import annotations

import copy
import json

from sexp import Sym
from props import _token_util as U


# ----------------------------------------------------------------------------------------------
# builders
# ----------------------------------------------------------------------------------------------

def _tz(t):
    import datetime as dt
    if t is None or isinstance(t, str):
        return t
    return dt.timezone(dt.timedelta(minutes=t[1]), t[2])


def build_vals(s):
    import numpy as np
    import pandas as pd
    k = s[0]
    if k == "np":
        return np.array(s[2], dtype=s[1])
    if k == "obj":
        return np.array(s[1], dtype=object)
    if k == "str":
        return pd.array(s[1], dtype=s[2])
    if k == "masked":
        dt = pd.api.types.pandas_dtype(s[1])
        cls = dt.construct_array_type()
        return cls(np.array(s[2], dtype=dt.numpy_dtype), np.array(s[3], dtype=bool))
    if k == "cat":
        return pd.Categorical.from_codes(s[1], categories=build_idx(s[2]), ordered=s[3])
    if k == "dt":
        ix = pd.DatetimeIndex(np.array(s[1], dtype="i8").view(f"M8[{s[2]}]"))
        if s[3] is not None:
            ix = ix.tz_localize("UTC").tz_convert(_tz(s[3]))
        return ix.array
    if k == "td":
        return pd.TimedeltaIndex(np.array(s[1], dtype="i8").view(f"m8[{s[2]}]")).array
    if k == "period":
        return pd.arrays.PeriodArray(np.array(s[1], dtype="i8"), dtype=pd.PeriodDtype(s[2]))
    if k == "interval":
        return pd.arrays.IntervalArray.from_arrays(build_idx(s[1]), build_idx(s[2]), closed=s[3])
    raise ValueError(s)


def build_idx(s):
    import pandas as pd
    k = s[0]
    if k == "range":
        return pd.RangeIndex(s[1], s[2], s[3], name=s[4])
    if k == "idx":
        return pd.Index(build_vals(s[1]), name=s[2])
    if k == "multi":
        return pd.MultiIndex(levels=[build_idx(l) for l in s[1]], codes=s[2], names=s[3], verify_integrity=False)
    raise ValueError(s)


def build(s):
    import pandas as pd
    k = s[0]
    if k == "index":
        return build_idx(s[1])
    if k == "vals":
        return build_vals(s[1])
    if k == "series":
        return pd.Series(build_vals(s[1]), name=s[2], index=build_idx(s[3]))
    if k == "frame":
        ix = build_idx(s[2])
        df = pd.DataFrame({c: pd.Series(build_vals(v), index=ix) for c, v in s[1]}, index=ix)
        return df
    if k == "ts":
        t = pd.Timestamp(s[1], unit=s[2]).as_unit(s[2])
        return t if s[3] is None else t.tz_localize("UTC").tz_convert(_tz(s[3]))
    if k == "tdelta":
        return pd.Timedelta(s[1], unit=s[2]).as_unit(s[2])
    if k == "nat":
        return pd.NaT
    if k == "na":
        return pd.NA
    raise ValueError(s)


def spec_len(s):
    """number of rows of a value / index spec"""
    k = s[0]
    if k in ("np",):
        return len(s[2])
    if k in ("obj", "str", "cat", "dt", "td", "period"):
        return len(s[1])
    if k == "masked":
        return len(s[2])
    if k == "interval":
        return spec_len(s[1])
    if k == "range":
        return len(range(s[1], s[2], s[3]))
    if k == "idx":
        return spec_len(s[1])
    if k == "multi":
        return len(s[2][0]) if s[2] else 0
    raise ValueError(s)


# ----------------------------------------------------------------------------------------------
# encoding for the Lean model: reads the object (public attributes, `._values`, and `_data` / `_mask` of nullable arrays)
# ----------------------------------------------------------------------------------------------

def enc_vals(arr, table):
    import numpy as np
    import pandas as pd
    if type(arr) is np.ndarray:
        return [Sym("np"), U.enc(arr, table)]
    name = type(arr).__name__
    if name in ("NumpyExtensionArray", "StringArray"):
        return [Sym("ea"), U.enc(np.asarray(arr), table), arr.dtype.name]
    if name in ("DatetimeArray", "TimedeltaArray", "PeriodArray"):
        dt = arr.dtype
        return [Sym("ea"), U.enc(arr.asi8, table), dt.str if isinstance(dt, np.dtype) else dt.name]
    if name in ("IntegerArray", "FloatingArray", "BooleanArray"):
        nd = arr.dtype.numpy_dtype
        data, mask = arr._data, arr._mask
        isz = nd.itemsize
        raw = np.ascontiguousarray(data).tobytes()
        cells = [[bool(m), table.code(raw[i * isz:(i + 1) * isz])] for i, m in enumerate(mask)]
        zero = table.code(np.zeros(1, dtype=nd).tobytes())
        return [Sym("masked"), repr(nd), cells, zero, arr.dtype.name]
    if name == "IntervalArray":
        return [Sym("interval"), enc_idx(arr.left, table), enc_idx(arr.right, table), arr.closed]
    if name == "Categorical":
        return [Sym("cat"), U.enc(arr.codes, table), enc_idx(arr.dtype.categories, table), bool(arr.dtype.ordered)]
    raise U.Unsupported(f"values of class {name}")


def enc_idx(ind, table):
    import pandas as pd
    if type(ind) is pd.RangeIndex:
        return [Sym("prange"), repr(type(ind)), int(ind.start), int(ind.stop), int(ind.step), repr(ind.dtype), U.enc(ind.name, table)]
    if type(ind) is pd.MultiIndex:
        return [Sym("pmulti"), U.enc(ind.name, table), [enc_idx(l, table) for l in ind.levels], [U.enc(c, table) for c in ind.codes]]
    if isinstance(ind, pd.Index):
        return [Sym("pplain"), repr(type(ind)), U.enc(ind.name, table), enc_vals(ind.array, table)]
    raise U.Unsupported(f"index of class {type(ind).__name__}")


def enc_obj(o, table):
    import numpy as np
    import pandas as pd
    if isinstance(o, pd.Index):
        return [Sym("pindex"), enc_idx(o, table)]
    if type(o) is pd.Series:
        return [Sym("pseries"), U.enc(o.name, table), repr(o.dtype), enc_vals(o._values, table), enc_idx(o.index, table)]
    if type(o) is pd.DataFrame:
        return [Sym("pframe"), [enc_vals(o.iloc[:, i]._values, table) for i in range(o.shape[1])],
                enc_idx(o.columns, table), enc_idx(o.index, table)]
    if isinstance(o, (pd.Timestamp, pd.Timedelta)) or o is pd.NaT or o is pd.NA:
        return [Sym("pscalar"), repr(o)]
    if isinstance(o, (pd.api.extensions.ExtensionArray, np.ndarray)):
        return [Sym("pvals"), enc_vals(o, table)]
    raise U.Unsupported(type(o).__name__)


# ----------------------------------------------------------------------------------------------
# the independent observation: what a user can see of the object through its public interface
# ----------------------------------------------------------------------------------------------

def _py(x):
    import numpy as np
    import pandas as pd
    if x is pd.NA:
        return "<NA>"
    if x is pd.NaT:
        return "NaT"
    if isinstance(x, (np.generic,)):
        x = x.item()
    if isinstance(x, float) and x != x:
        return "nan"
    if isinstance(x, (bool, int, float, str)) or x is None:
        return [type(x).__name__, x]
    return [type(x).__name__, repr(x)]


def obs_vals(arr):
    import numpy as np
    import pandas as pd
    if type(arr) is np.ndarray:
        return ["ndarray", arr.dtype.str, list(arr.shape), [_py(x) for x in arr.ravel().tolist()]]
    name = type(arr).__name__
    if name == "Categorical":
        return ["Categorical", obs_idx(arr.categories), bool(arr.ordered), [int(c) for c in arr.codes]]
    if name == "IntervalArray":
        return ["IntervalArray", arr.closed, obs_idx(arr.left), obs_idx(arr.right)]
    if name in ("DatetimeArray",):
        offs = [None if x is pd.NaT else str(x.utcoffset()) for x in arr]
        return [name, str(arr.dtype), [int(v) for v in arr.asi8], offs]
    if name in ("TimedeltaArray", "PeriodArray"):
        return [name, str(arr.dtype), [int(v) for v in arr.asi8]]
    # nullable and other extension arrays: element by element
    return [name, str(arr.dtype), [_py(x) for x in arr]]


def obs_idx(ind):
    import pandas as pd
    if type(ind) is pd.RangeIndex:
        return ["RangeIndex", ind.start, ind.stop, ind.step, _py(ind.name)]
    if type(ind) is pd.MultiIndex:
        return ["MultiIndex", [_py(n) for n in ind.names], [obs_idx(l) for l in ind.levels], [[int(c) for c in cs] for cs in ind.codes]]
    return [type(ind).__name__, _py(ind.name), obs_vals(ind.array)]


def obs(o):
    import numpy as np
    import pandas as pd
    if isinstance(o, pd.Index):
        return obs_idx(o)
    if type(o) is pd.Series:
        return ["Series", _py(o.name), str(o.dtype), obs_vals(o._values), obs_idx(o.index)]
    if type(o) is pd.DataFrame:
        return ["DataFrame", [obs_vals(o.iloc[:, i]._values) for i in range(o.shape[1])], obs_idx(o.columns), obs_idx(o.index)]
    if isinstance(o, pd.Timestamp):
        return ["Timestamp", int(o.value), o.unit, str(o.tz), str(o.utcoffset()), o.fold]
    if isinstance(o, pd.Timedelta):
        return ["Timedelta", int(o.value), o.unit]
    if o is pd.NaT:
        return ["NaT"]
    if o is pd.NA:
        return ["NA"]
    return ["array", obs_vals(o)]


# ----------------------------------------------------------------------------------------------
# generators and near-miss mutations
# ----------------------------------------------------------------------------------------------

TZS = ["UTC", "Europe/Berlin", "America/New_York", ["fixed", 60, "X"], ["fixed", 120, "X"], ["fixed", 60, "UTC+01:00"]]
MASKED = ["Int64", "Int8", "UInt64", "Int32", "Float64", "boolean"]
BIG = 2 ** 53


def gen_vals(rng, n, depth=0):
    k = rng.randrange(10 if depth < 2 else 7)
    if k == 0:
        return ["np", rng.choice(["<i8", "<f8", "<i4"]), [rng.randint(0, 3) for _ in range(n)]]
    if k == 1:
        return rng.choice([["obj", [rng.choice(["a", "b", "a-b", ""]) for _ in range(n)]],
                           ["str", [rng.choice(["a", "b", "a-b", "c"]) for _ in range(n)], rng.choice(["str", "string"])]])
    if k in (2, 3):
        dn = rng.choice(MASKED)
        if dn == "boolean":
            data = [rng.random() < 0.5 for _ in range(n)]
        elif dn == "Float64":
            data = [rng.choice([0.0, 1.5, 2.0]) for _ in range(n)]
        elif dn in ("Int64", "UInt64") and rng.random() < 0.4:
            data = [BIG + rng.randint(0, 2) for _ in range(n)]
        else:
            data = [rng.randint(0, 3) for _ in range(n)]
        return ["masked", dn, data, [rng.random() < 0.35 for _ in range(n)]]
    if k == 4:
        return ["dt", [rng.randint(0, 3) * 3_600_000_000 for _ in range(n)], rng.choice(["us", "ns", "s"]), rng.choice([None] + TZS)]
    if k == 5:
        return rng.choice([["td", [rng.randint(0, 3) for _ in range(n)], rng.choice(["us", "ns", "s"])],
                           ["period", [rng.randint(0, 3) for _ in range(n)], rng.choice(["M", "D", "Y"])]])
    if k == 6:
        ncat = rng.randint(1, 3)
        cats = ["idx", ["obj", ["a", "b", "c"][:ncat]], None] if rng.random() < 0.6 else ["idx", ["np", "<i8", [10, 20, 30][:ncat]], None]
        return ["cat", [rng.randint(-1, ncat - 1) for _ in range(n)], cats, rng.random() < 0.3]
    if k in (7, 8):
        left = [rng.randint(0, 3) for _ in range(n)]
        return ["interval", ["idx", ["np", "<i8", left], None], ["idx", ["np", "<i8", [l + rng.randint(1, 2) for l in left]], None],
                rng.choice(["right", "left", "both", "neither"])]
    ncat = rng.randint(1, 2)
    cats = ["idx", gen_vals(rng, ncat, 2), None]
    if cats[1][0] in ("cat",) or (cats[1][0] == "masked" and any(cats[1][3])) or len(set(json.dumps(x) for x in _rows(cats[1]))) < ncat:
        cats = ["idx", ["obj", ["a", "b"][:ncat]], None]
    return ["cat", [rng.randint(0, ncat - 1) for _ in range(n)], cats, False]


def _rows(v):
    """row-wise view of a value spec (for uniqueness of categories)"""
    k = v[0]
    if k == "np":
        return v[2]
    if k == "masked":
        return list(zip(v[2], v[3]))
    if k == "interval":
        return list(zip(_rows(v[1][1]), _rows(v[2][1])))
    return v[1]


def gen_idx(rng, n, depth=0):
    k = rng.randrange(6 if depth == 0 else 3)
    name = rng.choice([None, None, "i", "j", 0])
    if k == 0:
        return ["range", 0, n, 1, name]
    if k in (1, 2):
        return ["idx", gen_vals(rng, n, depth + 1), name]
    nlev = rng.randint(1, 3)
    levels, codes = [], []
    for _ in range(nlev):
        m = rng.randint(1, 3)
        lv = rng.choice([["idx", ["np", "<i8", [10, 20, 30][:m]], None], ["idx", ["obj", ["a", "b", "c"][:m]], None],
                         ["idx", ["dt", [0, 3_600_000_000, 7_200_000_000][:m], "us", rng.choice([None, "UTC", "Europe/Berlin"])], None],
                         ["idx", ["cat", list(range(m)), ["idx", ["obj", ["p", "q", "r"][:m]], None], False], None]])
        levels.append(lv)
        codes.append([rng.randint(-1 if rng.random() < 0.2 else 0, m - 1) for _ in range(n)])
    return ["multi", levels, codes, [rng.choice([None, "x", "y", "z", 1]) for _ in range(nlev)]]


def gen_obj(rng):
    n = rng.randint(0, 4)
    k = rng.randrange(10)
    if k < 2:
        return ["index", gen_idx(rng, n)]
    if k < 4:
        v = gen_vals(rng, n)
        return ["vals", v] if v[0] not in ("np", "obj") else ["series", v, None, ["range", 0, n, 1, None]]
    if k < 7:
        return ["series", gen_vals(rng, n), rng.choice([None, "s", "t", 0]), gen_idx(rng, n)]
    if k < 9:
        return ["frame", [[c, gen_vals(rng, n)] for c in rng.sample(["p", "q", "r"], rng.randint(0, 3))], gen_idx(rng, n)]
    return rng.choice([["ts", rng.randint(0, 3) * 86_400, "s", rng.choice([None] + TZS)], ["ts", rng.randint(0, 3), "ns", None],
                       ["tdelta", rng.randint(0, 3) * 86_400, "s"], ["tdelta", rng.randint(0, 3), "ns"], ["nat"], ["na"]])


def _perm_remap(rng, m):
    p = list(range(m))
    rng.shuffle(p)
    if p == sorted(p) and m > 1:
        p = p[1:] + p[:1]
    return p            # new position j holds old element p[j]


def mutate_vals(rng, v):
    """(mutant, label); labels starting with `same:` keep the observable value"""
    v = copy.deepcopy(v)
    k = v[0]
    n = spec_len(v)
    if k == "masked":
        c = rng.randrange(6)
        if c == 0 and any(v[3]):
            i = rng.choice([j for j, m in enumerate(v[3]) if m])
            v[2][i] = (not v[2][i]) if v[1] == "boolean" else v[2][i] + 1
            return v, "same:masked-hidden-data"
        if c == 1 and any(v[3]):
            i = rng.choice([j for j, m in enumerate(v[3]) if m])
            v[3][i] = False
            v[2][i] = False if v[1] == "boolean" else 0
            return v, "masked-na-vs-fill-value"
        if c == 2 and n and not all(v[3]):
            i = rng.choice([j for j, m in enumerate(v[3]) if not m])
            v[3][i] = True
            return v, "masked-value-vs-na"
        if c == 3 and n and not all(v[3]) and v[1] != "boolean":
            i = rng.choice([j for j, m in enumerate(v[3]) if not m])
            v[2][i] = v[2][i] + 1
            return v, "masked-value+1"
        if c == 4 and v[1] in ("Int64", "Int32", "Int8") and all(0 <= x < 100 for x in v[2]):
            v[1] = {"Int64": "Int32", "Int32": "Int8", "Int8": "Int64"}[v[1]]
            return v, "masked-dtype"
        if v[1] in ("Int64", "UInt64"):
            return ["masked", v[1], [BIG, 0], [False, True]], "masked-big"  # compared with its neighbour below
        return v, "same:identity"
    if k == "cat":
        cats = v[2]
        m = spec_len(cats)
        c = rng.randrange(5)
        if c == 0:
            v[3] = not v[3]
            return v, "cat-ordered-flag"
        if c == 1 and m > 1 and cats[1][0] in ("obj", "np"):
            p = _perm_remap(rng, m)
            vals = cats[1][1] if cats[1][0] == "obj" else cats[1][2]
            newvals = [vals[p[j]] for j in range(m)]
            inv = {p[j]: j for j in range(m)}
            if cats[1][0] == "obj":
                cats[1][1] = newvals
            else:
                cats[1][2] = newvals
            v[1] = [(-1 if x < 0 else inv[x]) for x in v[1]]
            return v, "cat-same-values-other-category-order"
        if c == 2 and m > 1 and cats[1][0] in ("obj", "np"):
            vals = cats[1][1] if cats[1][0] == "obj" else cats[1][2]
            vals.reverse()
            return v, "cat-same-codes-other-category-order"
        if c == 3 and n:
            i = rng.randrange(n)
            v[1][i] = -1 if v[1][i] >= 0 else 0
            return v, "cat-na-vs-value"
        if cats[1][0] == "obj":
            cats[1][1] = cats[1][1] + ["zz"]
            return v, "cat-unused-category"
        return v, "same:identity"
    if k == "dt":
        c = rng.randrange(4)
        if c == 0:
            old = v[3]
            v[3] = rng.choice([t for t in [None] + TZS if t != old])
            return v, "dt-other-tz" + (":same-name-other-offset" if isinstance(old, list) and isinstance(v[3], list) and old[2] == v[3][2] else "")
        if c == 1:
            scale = {"s": 1, "us": 10 ** 6, "ns": 10 ** 9}
            new = rng.choice([u for u in scale if u != v[2]])
            if all((x * scale[new]) % scale[v[2]] == 0 and abs(x * scale[new] // scale[v[2]]) < 2 ** 62 for x in v[1]):
                v[1] = [x * scale[new] // scale[v[2]] for x in v[1]]
                v[2] = new
                return v, "dt-other-unit"
            return v, "same:identity"
        if c == 2 and n:
            v[1][rng.randrange(n)] += 1
            return v, "dt-value+1"
        return v, "same:identity"
    if k == "td":
        if rng.random() < 0.5 and n:
            v[1][rng.randrange(n)] += 1
            return v, "td-value+1"
        v[2] = rng.choice([u for u in ("s", "us", "ns") if u != v[2]])
        return v, "td-other-unit-other-value" if any(v[1]) else "td-other-unit"
    if k == "period":
        v[2] = rng.choice([f for f in ("M", "D", "Y") if f != v[2]])
        return v, "period-freq"
    if k == "interval":
        c = rng.randrange(3)
        if c == 0:
            v[3] = rng.choice([x for x in ("right", "left", "both", "neither") if x != v[3]])
            return v, "interval-closed"
        if c == 1 and n:
            v[2][1][2][rng.randrange(n)] += 1
            return v, "interval-right+1"
        v[1][1][1] = "<f8"
        v[2][1][1] = "<f8"
        return v, "interval-subtype"
    if k == "str":
        v[2] = "str" if v[2] == "string" else "string"
        return v, "string-dtype"
    if k == "np" and n:
        v[2][rng.randrange(n)] += 1
        return v, "np-value+1"
    return v, "same:identity"


def mutate_idx(rng, s):
    s = copy.deepcopy(s)
    if s[0] == "multi":
        nlev = len(s[1])
        c = rng.randrange(6)
        if c == 0:
            i = rng.randrange(nlev)
            s[3][i] = "w" if s[3][i] != "w" else "x"
            return s, "multi-level-name"
        if c == 1 and nlev > 1:
            i, j = rng.sample(range(nlev), 2)
            for part in (s[1], s[2], s[3]):
                part[i], part[j] = part[j], part[i]
            same = json.dumps([s[1][i], s[2][i], s[3][i]]) == json.dumps([s[1][j], s[2][j], s[3][j]])
            return s, "same:identity" if same else "multi-levels-swapped"
        if c == 2:
            i = rng.randrange(nlev)
            lv = s[1][i]
            m = spec_len(lv)
            if m > 1 and lv[1][0] in ("np", "obj"):
                p = _perm_remap(rng, m)
                vals = lv[1][1] if lv[1][0] == "obj" else lv[1][2]
                newvals = [vals[p[j]] for j in range(m)]
                inv = {p[j]: j for j in range(m)}
                if lv[1][0] == "obj":
                    lv[1][1] = newvals
                else:
                    lv[1][2] = newvals
                s[2][i] = [(-1 if x < 0 else inv[x]) for x in s[2][i]]
                return s, "multi-same-tuples-other-level-order"
            return s, "same:identity"
        if c == 3 and s[2][0]:
            i = rng.randrange(nlev)
            r = rng.randrange(len(s[2][i]))
            m = spec_len(s[1][i])
            old = s[2][i][r]
            s[2][i][r] = (old + 1) % m if m > 1 and old >= 0 else (-1 if old >= 0 else 0)
            return s, "multi-code"
        if c == 4 and nlev > 1 and len(set(s[3])) > 1:
            s[3] = s[3][1:] + s[3][:1]
            return s, "multi-names-rotated"
        i = rng.randrange(nlev)
        v2, lab = mutate_vals(rng, s[1][i][1])
        if spec_len(v2) != spec_len(s[1][i][1]) or lab in ("masked-big",):
            return s, "same:identity"
        s[1][i][1] = v2
        return s, ("same:" if lab.startswith("same:") else "") + "multi-level:" + lab.replace("same:", "")
    if s[0] == "idx":
        if rng.random() < 0.25:
            s[2] = "k" if s[2] != "k" else None
            return s, "index-name"
        v2, lab = mutate_vals(rng, s[1])
        if spec_len(v2) != spec_len(s[1]):
            return s, "same:identity"
        s[1] = v2
        return s, ("same:" if lab.startswith("same:") else "") + "index:" + lab.replace("same:", "")
    if rng.random() < 0.5:
        s[4] = "k" if s[4] != "k" else None
        return s, "range-name"
    return ["idx", ["np", "<i8", list(range(s[1], s[2], s[3]))], s[4]], "range-vs-index"


def mutate(rng, s):
    s = copy.deepcopy(s)
    k = s[0]

    def wrap(lab, where):
        return ("same:" if lab.startswith("same:") else "") + where + ":" + lab.replace("same:", "")
    if k == "index":
        i2, lab = mutate_idx(rng, s[1])
        return ["index", i2], lab
    if k == "vals":
        v2, lab = mutate_vals(rng, s[1])
        return ["vals", v2], lab
    if k == "series":
        c = rng.randrange(4)
        if c == 0:
            s[2] = "u" if s[2] != "u" else None
            return s, "series-name"
        if c == 1:
            i2, lab = mutate_idx(rng, s[3])
            if spec_len(i2) != spec_len(s[3]):
                return s, "same:identity"
            s[3] = i2
            return s, wrap(lab, "series-index")
        v2, lab = mutate_vals(rng, s[1])
        if spec_len(v2) != spec_len(s[1]):
            if lab == "masked-big":
                return ["series", v2, s[2], ["range", 0, 2, 1, None]], "masked-big"
            return s, "same:identity"
        s[1] = v2
        return s, wrap(lab, "series")
    if k == "frame":
        c = rng.randrange(4)
        if c == 0 and len(s[1]) > 1:
            s[1] = s[1][1:] + s[1][:1]
            return s, "same:identity" if json.dumps(s[1][0]) == json.dumps(s[1][-1]) and len(s[1]) == 2 and False else "frame-columns-rotated"
        if c == 1 or not s[1]:
            i2, lab = mutate_idx(rng, s[2])
            if spec_len(i2) != spec_len(s[2]):
                return s, "same:identity"
            s[2] = i2
            return s, wrap(lab, "frame-index")
        j = rng.randrange(len(s[1]))
        if c == 2:
            s[1][j][0] = s[1][j][0] + "2"
            return s, "frame-column-name"
        v2, lab = mutate_vals(rng, s[1][j][1])
        if spec_len(v2) != spec_len(s[1][j][1]):
            return s, "same:identity"
        s[1][j][1] = v2
        return s, wrap(lab, "frame-column")
    if k == "ts":
        c = rng.randrange(3)
        if c == 0:
            old = s[3]
            s[3] = rng.choice([t for t in [None] + TZS if t != old])
            return s, "ts-other-tz"
        if c == 1:
            scale = {"s": 1, "us": 10 ** 6, "ns": 10 ** 9}
            new = rng.choice([u for u in scale if scale[u] > scale[s[2]]] or ["s"])
            if scale[new] > scale[s[2]]:
                return ["ts", s[1] * scale[new] // scale[s[2]], new, s[3]], "scalar-unit"
            return s, "same:identity"
        s[1] += 1
        return s, "ts-value+1"
    if k == "tdelta":
        if rng.random() < 0.5:
            scale = {"s": 1, "us": 10 ** 6, "ns": 10 ** 9}
            new = rng.choice([u for u in scale if scale[u] > scale[s[2]]] or ["s"])
            if scale[new] > scale[s[2]]:
                return ["tdelta", s[1] * scale[new] // scale[s[2]], new], "scalar-unit"
            return s, "same:identity"
        s[1] += 1
        return s, "tdelta-value+1"
    return rng.choice([["nat"], ["na"], ["ts", 0, "s", None]]), "scalar-other-class"


EXPLICIT = [
    # the defect repaired by the fix commit of this round: nullable integers beyond 2**53 next to a missing value
    (["vals", ["masked", "Int64", [BIG, 0], [False, True]]], ["vals", ["masked", "Int64", [BIG + 1, 0], [False, True]]], "masked-big"),
    (["series", ["masked", "UInt64", [2 ** 63, 0], [False, True]], None, ["range", 0, 2, 1, None]],
     ["series", ["masked", "UInt64", [2 ** 63 + 1, 0], [False, True]], None, ["range", 0, 2, 1, None]], "masked-big"),
    (["vals", ["masked", "Int64", [1, 7], [False, True]]], ["vals", ["masked", "Int64", [1, 9], [False, True]]], "same:masked-hidden-data"),
    (["vals", ["masked", "Int64", [1, 0], [False, True]]], ["vals", ["masked", "Int64", [1, 0], [False, False]]], "masked-na-vs-fill-value"),
    (["vals", ["masked", "boolean", [True, False], [False, True]]], ["vals", ["masked", "boolean", [True, False], [False, False]]], "masked-na-vs-fill-value"),
    (["vals", ["masked", "Int64", [1, 2], [False, False]]], ["vals", ["masked", "Float64", [1.0, 2.0], [False, False]]], "masked-dtype"),
    (["vals", ["cat", [0, 1, 0], ["idx", ["obj", ["a", "b"]], None], False]], ["vals", ["cat", [1, 0, 1], ["idx", ["obj", ["b", "a"]], None], False]],
     "cat-same-values-other-category-order"),
    (["vals", ["cat", [0, 1, 0], ["idx", ["obj", ["a", "b"]], None], False]], ["vals", ["cat", [0, 1, 0], ["idx", ["obj", ["a", "b"]], None], True]],
     "cat-ordered-flag"),
    (["index", ["multi", [["idx", ["np", "<i8", [1, 2]], None], ["idx", ["obj", ["a", "b"]], None]], [[0, 1], [0, 1]], ["x", "y"]]],
     ["index", ["multi", [["idx", ["np", "<i8", [2, 1]], None], ["idx", ["obj", ["a", "b"]], None]], [[1, 0], [0, 1]], ["x", "y"]]],
     "multi-same-tuples-other-level-order"),
    (["index", ["multi", [["idx", ["np", "<i8", [1, 2]], None], ["idx", ["obj", ["a", "b"]], None]], [[0, 1], [0, 1]], ["x", "y"]]],
     ["index", ["multi", [["idx", ["obj", ["a", "b"]], None], ["idx", ["np", "<i8", [1, 2]], None]], [[0, 1], [0, 1]], ["y", "x"]]],
     "multi-levels-swapped"),
    (["index", ["multi", [["idx", ["np", "<i8", [1, 2]], None], ["idx", ["np", "<i8", [1, 2]], None]], [[0, 1], [0, 1]], ["x", "y"]]],
     ["index", ["multi", [["idx", ["np", "<i8", [1, 2]], None], ["idx", ["np", "<i8", [1, 2]], None]], [[0, 1], [0, 1]], ["y", "x"]]],
     "multi-names-rotated"),
    (["index", ["idx", ["dt", [0, 3_600_000_000], "us", "UTC"], None]], ["index", ["idx", ["dt", [0, 3_600_000_000], "us", "Europe/Berlin"], None]], "dt-other-tz"),
    (["index", ["idx", ["dt", [0, 3_600_000_000], "us", "UTC"], None]], ["index", ["idx", ["dt", [0, 3_600_000_000], "us", None], None]], "dt-other-tz"),
    (["index", ["idx", ["dt", [0], "us", ["fixed", 60, "X"]], None]], ["index", ["idx", ["dt", [0], "us", ["fixed", 120, "X"]], None]],
     "dt-other-tz:same-name-other-offset"),
    (["ts", 946684800, "s", None], ["ts", 946684800 * 10 ** 9, "ns", None], "scalar-unit"),
    (["tdelta", 86400, "s"], ["tdelta", 86400 * 10 ** 9, "ns"], "scalar-unit"),
    (["ts", 946684800, "s", "UTC"], ["ts", 946684800, "s", "Europe/Berlin"], "ts-other-tz"),
    (["nat"], ["na"], "scalar-other-class"),
    (["vals", ["interval", ["idx", ["np", "<i8", [0, 1]], None], ["idx", ["np", "<i8", [1, 2]], None], "right"]],
     ["vals", ["interval", ["idx", ["np", "<i8", [0, 1]], None], ["idx", ["np", "<i8", [1, 2]], None], "left"]], "interval-closed"),
    (["vals", ["period", [0, 1], "M"]], ["vals", ["period", [0, 1], "D"]], "period-freq"),
]
