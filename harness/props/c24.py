"""C24 — structural array operations equal NumPy.

Models:   lean/DaskModel/Model/Structural.lean (concatenate plan, Python slices, roll, repeat, pad reuse modes and NumPy's
          periodic extension, pad chunk arithmetic, expand_tuple / contract_tuple, packGroups / shuffleChunk),
          Model/ShufflePlan.lean (_shuffle as a whole: _validate_indexer, the "already shuffled" shortcut, the single-source
          branch; slicing.take's arange shortcut and indexer),
          Model/ReshapeRechunk.lean (reshape_rechunk in full: walk, merge / split branches, _smooth_chunks, n-ary
          _calc_lower_dimension_chunks; blocksFlat = block-level semantics of reshape's graph),
          Model/StructuralOps.lean (block plans of transpose / flip / rot90 / tril / triu / stack / broadcast_to / tile / diff)
Theorems: lean/DaskModel/Props/C24.lean
Tie:      function-level diffs (expand_tuple, contract_tuple, _calc_lower_dimension_chunks, reshape_rechunk, _shuffle,
          slicing.take, concatenate's key map, stack's key map, get_pad_shapes_chunks), block-level diffs (every block of
          the real result vs the Lean plan: pad / roll 1-d, shuffle / take, reshape (rechunked input and result),
          transpose / flip / rot90 / tril / triu / stack / broadcast_to / tile), property oracles on real outputs
          (proved-plan checker groupsOK on every reshape_rechunk output, no-op shortcut only for the identity indexer),
          API level: every operation of the statement vs NumPy for irregular chunkings, empty axes, zero-length chunks.
"""
from __future__ import annotations

import itertools
import math

from sexp import Sym

from props._chunks_util import comps, rand_comp, rand_comp_zeros, valid_dim, setup_dask, blocks_match_chunks
from props import _c24x

PROP = "C24"
READY = True
DRIVER = "dm_chunks"
LEAN_MODULES = ["DaskModel.Props.C24", "DaskModel.Props.C24xPadEdge"]
CASE_TIMEOUT_S = 30
LEVEL_TEXT = ("Lean 4 theorems, all for every chunking (irregular, size-1, zero-length chunks) over exact values and without size "
              "bounds. (1) reshape: the real reshape_rechunk is modelled in full (two-pointer walk, merge / split branches, the "
              "'moving blocks' special case, _smooth_chunks rounds, expand_tuple / contract_tuple); reshape_rechunk_groupsOK: every "
              "plan it returns for valid input chunks assigns every axis, adds up to both shapes and is a product of contiguous "
              "axis groups with equal block sizes (invariant of the walk); reshape_blocks_den / reshape_den: for such plans the "
              "k-th block of the rechunked input reshaped in C order IS the k-th block of the reshaped array (any number of "
              "axes); plus expand_tuple_spec, contract_tuple_spec, reshape_merge_den, reshape_merge_ones_den. (2) take / shuffle: "
              "_shuffle as a whole - shuffle_noop_iff_identity (the 'already shuffled' shortcut is taken exactly for the identity "
              "chunking), shuffle_den (per-source-chunk fancy getitem of the sorted taker + concatenate + take(argsort(sorter))), "
              "packGroups_flatten (extracted tolerance), shuffle_blocks_den, take_den (slicing.take's arange shortcut and "
              "indexer), totality for valid indexers. (3) one-axis plans: concat_den / concat_blocks, roll_den, repeat_den, "
              "pad_reuse_den (reflect / symmetric / wrap for every width), flip1d_den, tile_den, diff_den. (4) 2-d block plans: "
              "transpose_den (also .T / swapaxes / moveaxis; n-d with any permutation: transpose_nd_den), flip_den, rot90_den (k = 1, 2, 3), tril_den, triu_den, stack_den, "
              "broadcast_to_den, squeeze_expand_den (+ expand_dims_plan: reshape_rechunk answers expand_dims without a rechunk), "
              "concat2d_den, block_den ([[a, b], [c, d]]), tile2d_den, pad_const_den (pad chunks add up to the width). "
              "(5) pad mode='edge' (Props/C24xPadEdge): pad_edge_den - for every chunking (zero-length blocks included) and every "
              "pair of widths the blocks built by one pass of pad_edge's loop assemble to np.pad(x, (l, r), 'edge') = "
              "x[clip(i - l, 0, n - 1)] (np_pad_edge_index), and dask raises exactly when NumPy does (pad_edge_raises_iff: empty "
              "axis, non-zero width); pad_edge_chunks (chunks = (l,) + chunks + (r,) without zero widths); pad_edge2_den / "
              "np_pad_edge2_index: the loop over two axes (any row and column chunking) equals NumPy's axis-by-axis pad, entry "
              "(i, j) = x[clip(i - l0), clip(j - l1)]. "
              "Validated against NumPy only (not proved): the n-d product structure of the 1-d / 2-d plans (n-d flip / rot90 / "
              "tril / stack / broadcast_to / concatenate, deeper block nestings), edge pads of three and more axes, linear_ramp / statistics pads, "
              "repeat's slab cutting, shuffle's _rechunk_other_dimensions, positivity of _smooth_chunks' output chunks (checked "
              "on every real output), x.rechunk(result_inchunks) itself (C23).")
LEVEL_NOTE = ("Trusted: Lean kernel + standard axioms; the harness; NumPy kernels on one block; model = code is a checked tie "
              "(function-level diff of reshape_rechunk on every factorisation pair of n<=6 (9 thorough) x every chunking and of "
              "_shuffle / slicing.take on every permutation of n<=4 (5) cut at every chunking, block-level diffs, proved-plan "
              "checker on every real reshape_rechunk output), not a proof. _shuffle's chunk_size_limit is computed with the "
              "code's float formula by the harness. No known finding is left for this property.")
TECHNIQUE = ("Lean 4 proof (loop invariant of reshape_rechunk's walk; blocksFlat over concatenated axis groups; index-map and "
             "list lemmas per operation plan) + differential correspondence at function, block and API level")
ASSUMPTIONS = [
    "n-d operations act axis by axis (product structure): the 1-d / 2-d theorems cover one / two axes, the n-d behaviour is validated against NumPy",
    "np.pad's reflect/symmetric/wrap = the periodic extension `padSpec` (validated against np.pad on every pad case, widths up to several periods)",
    "NumPy kernels on one block (reshape keeps the C-order data, transpose, fancy getitem, concatenate, repeat, where, broadcast_to, arange) are NumPy's",
    "reshape is applied to chunk tuples of the input shape (non-empty, positive): reshape() drops zero-length chunks and handles empty / single-block arrays before reshape_rechunk",
    "x.rechunk(result_inchunks) delivers the blocks of the same array under the new chunking (C23: rechunk_values_unchanged)",
    "_shuffle: int(sum(chunks)/len(chunks)*tolerance) is evaluated in floating point by the code; the model takes the value as a parameter",
    "pad_edge (mode='edge'): result[:1] / result[-1:] along the axis rechunked to one chunk is the first / last slab (slicing: C20, rechunk: C23), broadcast_to of that slab to ONE chunk of w repeats it (broadcast_to_den), concatenate drops inputs of size 0 and chains the block lists (concat_den) - the composition is diffed block by block against padEdgeBlocks",
]
TRUSTED = ["arange block values are the global positions (C34 arange_den) - used by tril_den / triu_den's mask"]
TABLES = ["ChunkTolerance"]
REUSE = ("reflect", "symmetric", "wrap")


def _arr(shape, dtype="i8", seed=0):
    import numpy as np
    n = int(np.prod(shape)) if len(shape) else 1
    return ((np.arange(n, dtype="i8") * 7 + seed) % 31 - 5).astype(dtype).reshape(shape)


def _mk(chunks, dtype="i8", seed=0, as_numpy=False):
    import dask.array as da
    chunks = tuple(tuple(c) for c in chunks)
    x = _arr(tuple(sum(c) for c in chunks), dtype, seed)
    return x, (x if as_numpy else da.from_array(x, chunks=chunks))


def _same(ctx, what, r, e, sig=None, blocks=True):
    import numpy as np
    e = np.asarray(e)
    if tuple(r.shape) != e.shape:
        ctx.fail(f"{what}: lazy shape differs from NumPy", sig=sig, observed=list(r.shape), expected=list(e.shape))
        return False
    if not all(valid_dim(c, s) or (sum(c) == s and all(v >= 0 for v in c)) for c, s in zip(r.chunks, r.shape)):
        ctx.fail(f"{what}: chunks do not add up to the shape", sig=sig, observed=r.chunks)
        return False
    try:
        g = np.asarray(r.compute(scheduler="sync"))
    except Exception as ex:
        ctx.fail(f"{what}: compute raised {type(ex).__name__}", sig=sig, observed=str(ex)[:200])
        return False
    if g.shape != e.shape or g.dtype != e.dtype or r.dtype != e.dtype:
        ctx.fail(f"{what}: computed shape/dtype differs from NumPy", sig=sig,
                 observed=[list(g.shape), str(g.dtype), str(r.dtype)], expected=[list(e.shape), str(e.dtype)])
        return False
    if g.dtype.kind in "fc":
        # floats are never compared exactly (linear_ramp / mean pads compute in a different order)
        scale = max(1.0, float(np.max(np.abs(e)))) if e.size else 1.0
        ok = np.allclose(g, e, rtol=0, atol=64 * float(np.finfo(g.dtype).eps) * scale, equal_nan=True)
    else:
        ok = np.array_equal(g, e)
    if not ok:
        ctx.fail(f"{what}: values differ from NumPy", sig=sig, observed=g.tolist(), expected=e.tolist())
        return False
    if blocks and math.prod(len(c) for c in r.chunks) <= 60:
        why = blocks_match_chunks(r)
        if why:
            ctx.fail(f"{what}: {why}", sig=sig, observed=r.chunks)
            return False
    return True


# ---------------------------------------------------------------------------
# function level
# ---------------------------------------------------------------------------

def case_fn(ctx, inp):
    import importlib
    R = importlib.import_module("dask.array.reshape")
    op = inp["op"]
    if op == "expand":
        cs, f = inp["cs"], inp["f"]
        got = list(map(int, R.expand_tuple(tuple(cs), f)))
        ctx.eq("expand_tuple", ctx.lean(Sym("expand_tuple"), cs, f), got)
        if sum(got) != sum(cs) or any(c <= 0 for c in got):
            ctx.fail("expand_tuple: result does not add up / has empty chunks", observed=got)
        if len(got) > len(cs):
            ctx.branch("expand:splits")
    elif op == "contract":
        cs, f = inp["cs"], inp["f"]
        try:
            got = list(map(int, R.contract_tuple(tuple(cs), f)))
            impl = [Sym("ok"), got]
        except (AssertionError, ZeroDivisionError):
            got, impl = None, [Sym("raised")]
        ctx.eq("contract_tuple", ctx.lean(Sym("contract_tuple"), cs, f), impl)
        if got is not None:
            if sum(got) != sum(cs) or any(c % f for c in got) or any(c <= 0 for c in got):
                ctx.fail("contract_tuple: result does not add up / has an element not divisible by factor", observed=got)
            if len(got) < len(cs):
                ctx.branch("contract:merges")
    elif op == "lower":
        a, b = inp["a"], inp["b"]
        got = list(map(int, R._calc_lower_dimension_chunks([tuple(a), tuple(b)], 0, 1)))
        ctx.eq("_calc_lower_dimension_chunks", ctx.lean(Sym("lower_dim"), a, b), got)
    elif op == "reshape_rechunk":
        # reshape() drops zero-length chunks before it calls reshape_rechunk
        inchunks = tuple(tuple(n for n in c if n) or (0,) for c in inp["inchunks"])
        inshape = tuple(sum(c) for c in inchunks)
        outshape = tuple(inp["outshape"])
        single = math.prod(len(c) for c in inchunks) == 1   # reshape() never calls reshape_rechunk for a single-block input
        trace = []
        orig_smooth = R._smooth_chunks

        def traced(ileft, ii, max_in_chunk, result_inchunks):
            # measurement only: which branch of _smooth_chunks this call takes
            mr = R._cal_max_chunk_size(result_inchunks, ileft, ii)
            if mr == max_in_chunk:
                trace.append("equal-max")
            else:
                k = ileft
                while k <= ii and all(v == 1 for v in result_inchunks[k]):
                    k += 1
                trace.append("past-group" if k > ii else "single-chunk" if len(result_inchunks[k]) == 1 else "multi-chunk")
            return orig_smooth(ileft, ii, max_in_chunk, result_inchunks)
        R._smooth_chunks = traced
        try:
            ri, ro, _, _ = R.reshape_rechunk(inshape, outshape, inchunks)
            impl = [Sym("ok"), [list(map(int, c)) if c is not None else None for c in ri],
                    [list(map(int, c)) if c is not None else None for c in ro]]
        except NotImplementedError:
            ri, impl = None, [Sym("raised"), Sym("NotImplementedError")]
        except IndexError:
            ri, impl = None, [Sym("raised"), Sym("IndexError")]
        except (TypeError, AssertionError, ZeroDivisionError, ValueError):
            ri, impl = None, [Sym("raised"), Sym("other")]
        finally:
            R._smooth_chunks = orig_smooth
        for t in set(trace):
            ctx.branch("reshape_rechunk:_smooth_chunks:" + t)
        if len(trace) > 1:
            ctx.branch("reshape_rechunk:_smooth_chunks:%d-rounds" % min(len(trace), 4))
        # function level: the whole two-pointer walk (branches, expand/contract, _smooth_chunks) vs the Lean reshapeRechunk
        m = ctx.lean(Sym("reshape_rechunk"), list(inshape), list(outshape), [list(c) for c in inchunks])
        ctx.eq("reshape_rechunk vs Lean reshapeRechunk", m[:3] if m[0] == Sym("ok") else m, impl)
        if ri is None:
            ctx.branch("reshape_rechunk:" + ("not-implemented" if impl[1] == Sym("NotImplementedError") else "raised"))
            if impl[1] != Sym("NotImplementedError") and not single and min(inshape + outshape) > 0 \
                    and math.prod(inshape) == math.prod(outshape):
                ctx.fail("reshape_rechunk raised something other than NotImplementedError on valid shapes", observed=str(impl[1]))
            return
        if min(inshape + outshape) == 0:
            return
        # post-condition the graph construction of `reshape` relies on
        if any(c is None for c in ri + ro) or not all(valid_dim(c, s) for c, s in zip(ri, inshape)) \
                or not all(valid_dim(c, s) for c, s in zip(ro, outshape)):
            ctx.fail("reshape_rechunk: returned chunks are not valid chunkings of the shapes", observed=[ri, ro])
            return
        bi = [math.prod(t) for t in itertools.product(*ri)]
        bo = [math.prod(t) for t in itertools.product(*ro)]
        if bi != bo:
            ctx.fail("reshape_rechunk: input and output blocks (in product order) do not have equal sizes", observed=[ri, ro])
        # proved-plan checker (theorem reshape_blocks_den): with the axis groups the walk consumed, both sides of every group
        # must be contiguous (all-ones axes, one arbitrary axis, single-chunk axes) with equal block sizes -- then the k-th
        # block of the rechunked input, reshaped in C order, IS the k-th block of the reshaped array
        if m[0] == Sym("ok"):
            groups = m[3]
            ok_real = ctx.lean(Sym("reshape_check"), [list(map(int, c)) for c in ri], [list(map(int, c)) for c in ro], groups)
            if ok_real is not True or (m[4] is not True and m[:3] == impl):
                ctx.fail("reshape_rechunk: the plan is not a product of contiguous axis groups with equal block sizes "
                         "(block-wise reshape would not be the global reshape)", observed=[ri, ro, groups])
            kinds = set()
            pi, po = 0, 0
            for a, b in groups:
                if a > 1 and b == 1:
                    ii = pi + a - 1
                    special = all(len(inchunks[t]) == inshape[t] for t in range(ii))
                    red = math.prod(len(inchunks[t]) for t in range(pi + 1, ii + 1))
                    g0 = (R.expand_tuple(inchunks[pi], red),) + tuple((inshape[t],) for t in range(pi + 1, ii + 1))
                    smoothed = (not special) and tuple(map(tuple, ri[pi:ii + 1])) != tuple(map(tuple, g0))
                    rounds = sum(1 for x, y in zip(ri[pi:ii + 1], g0) if tuple(x) != tuple(y))
                    kinds.add("merge:" + ("moving-blocks" if special else ("smoothed-%d-axes" % min(rounds, 3)) if smoothed else "plain")
                              + (":%d-axes" % min(a, 4)))
                elif a == 1 and b > 1:
                    g0 = tuple((outshape[t],) for t in range(po + 1, po + b))
                    smoothed = tuple(map(tuple, ro[po + 1:po + b])) != g0 or \
                        tuple(ro[po]) != tuple(c // math.prod(outshape[po + 1:po + b]) for c in R.contract_tuple(inchunks[pi], math.prod(outshape[po + 1:po + b])))
                    kinds.add("split:" + ("smoothed" if smoothed else "plain") + (":%d-axes" % min(b, 4)))
                elif (a, b) == (1, 0):
                    kinds.add("in-one")
                elif (a, b) == (0, 1):
                    kinds.add("out-one")
                pi, po = pi + a, po + b
            for k in kinds:
                ctx.branch("reshape_rechunk:" + k + (":single-block-input" if single else ""))
        ctx.branch("reshape_rechunk:" + ("merge" if len(inshape) > len(outshape) else "split" if len(inshape) < len(outshape) else "same-ndim"))
    elif op == "pad_chunks":
        import dask.array as da
        from dask.array.creation import get_pad_shapes_chunks
        cs, w, mode = inp["cs"], inp["w"], inp["mode"]
        x = da.zeros(sum(cs), chunks=(tuple(cs),))
        _, pc = get_pad_shapes_chunks(x, ((w[0], w[1]),), (0,), mode)
        for i in range(2):
            ctx.eq("get_pad_shapes_chunks", ctx.lean(Sym("pad_chunks"), mode == "constant", cs, w[i]), list(map(int, pc[i][0])))
        ctx.branch("pad_chunks:" + ("constant" if mode == "constant" else "other"))


def case_concat(ctx, inp):
    import numpy as np
    import dask.array as da
    setup_dask()
    axis = inp["axis"]
    pairs = [_mk(c, seed=i, as_numpy=(i in inp.get("numpy", []))) for i, c in enumerate(inp["chunkss"])]
    xs = [p[0] for p in pairs]
    ds = [p[1] for p in pairs]
    op = inp.get("op", "concatenate")
    if op == "concatenate":
        r, e = da.concatenate(ds, axis=axis), np.concatenate(xs, axis=axis)
        dask_in = [d for d in ds if isinstance(d, da.Array)]
        if any(x.size == 0 for x in xs):
            ctx.branch("concat:empty-input-dropped")
        if len(ds) > 1 and len(dask_in) == len(ds) and r.name.startswith("concatenate-") \
                and len({d.name for d in dask_in}) == len(ds):   # equal (e.g. empty) inputs share one name
            # function level: the key map of the concatenate layer vs the Lean plan
            ax = axis % xs[0].ndim
            layer = r.dask.layers[r.name]
            # arrays after unify_chunks: recover their names and block counts from the mapping itself
            plan = {}
            for key, val in layer.items():
                v = val.target.key if hasattr(val, "target") else (val.args[0] if hasattr(val, "args") else val)
                v = getattr(v, "key", v)
                plan.setdefault(key[1 + ax], set()).add((v[0], v[1 + ax]))
            if all(len(s) == 1 for s in plan.values()):
                seq = [next(iter(plan[b])) for b in sorted(plan)]
                names = []
                for nm, _ in seq:
                    if nm not in names:
                        names.append(nm)
                counts = [max(j for nm, j in seq if nm == name) + 1 for name in names]
                model = ctx.lean(Sym("concat_plan"), counts)
                ctx.eq("concatenate: output block -> (array, local block)", model, [[names.index(nm), j] for nm, j in seq])
                ctx.branch("concat:plan-diffed")
        ctx.branch("concat:%d-arrays" % min(len(ds), 4))
    elif op == "stack":
        r, e = da.stack(ds, axis=axis), np.stack(xs, axis=axis)
        ctx.branch("stack")
    else:
        f = {"vstack": (da.vstack, np.vstack), "hstack": (da.hstack, np.hstack), "dstack": (da.dstack, np.dstack)}[op]
        r, e = f[0](ds), f[1](xs)
        ctx.branch(op)
    _same(ctx, op, r, e)


def case_pad1d(ctx, inp):
    import numpy as np
    import dask.array as da
    setup_dask()
    cs, l, rr, mode = inp["cs"], inp["l"], inp["r"], inp["mode"]
    x, d = _mk([cs])
    n = len(x)
    m = ctx.lean(Sym("pad"), Sym(mode), [int(v) for v in x], l, rr)
    try:
        e = np.pad(x, (l, rr), mode=mode)
    except ValueError:
        e = None  # NumPy refuses to extend an empty axis
    try:
        r = da.pad(d, (l, rr), mode=mode)
        g = np.asarray(r.compute(scheduler="sync")).tolist()
        impl = [Sym("ok"), g]
    except ValueError as ex:
        r, impl = None, [Sym("raised")]
    ctx.eq("da.pad (1-d) vs Lean padReuse plan", m[0], impl)
    if e is None:
        if r is not None:
            ctx.fail("pad extended an empty axis although NumPy raises ValueError", observed=impl)
        ctx.branch("pad1d:empty-axis-rejected")
        return
    ctx.eq("np.pad vs Lean padSpec (periodic extension)", m[1], e.tolist())
    lim = n - 1 if mode == "reflect" else n
    excess = max(l, rr) > lim
    ctx.branch(f"pad1d:{mode}" + (":excess" if excess else ""))
    if r is None:
        ctx.fail(f"pad({mode}) raised ValueError although NumPy pads", observed=impl)
        return
    _same(ctx, f"pad({mode})" + (" with pad width > axis length" if excess else ""), r, e)


def case_roll1d(ctx, inp):
    import numpy as np
    import dask.array as da
    setup_dask()
    cs, s = inp["cs"], inp["shift"]
    x, d = _mk([cs])
    m = ctx.lean(Sym("roll"), [int(v) for v in x], s)
    e = np.roll(x, s)
    ctx.eq("np.roll vs Lean rollSpec", m[1], e.tolist())
    r = da.roll(d, s)
    ctx.eq("da.roll vs Lean roll plan", m[0], np.asarray(r.compute(scheduler="sync")).tolist())
    _same(ctx, "roll", r, e)
    ctx.branch("roll1d" + (":wrap" if abs(s) >= max(len(x), 1) else ""))


def _reshape_blocks_tie(ctx, x, d, r, merge_chunks):
    """block level: the Lean `blocksFlat` of the C-order data (the semantics the theorem reshape_blocks_den is about) vs the
    real blocks on both sides of `reshape`'s graph: the rechunked input and the result, blocks in product order."""
    import importlib
    import numpy as np
    R = importlib.import_module("dask.array.reshape")
    if x.size == 0 or r.ndim == 0 or x.ndim == 0 or tuple(r.shape) == tuple(x.shape):
        return
    d0 = d
    if any(0 in c for c in d0.chunks):
        d0 = d0.rechunk(tuple(tuple(n for n in c if n) for c in d0.chunks))
    if d0.npartitions == 1:
        return
    if not merge_chunks and d0.ndim > r.ndim:
        d0 = d0.rechunk(dict.fromkeys(range(d0.ndim - r.ndim), 1))
    try:
        ri, ro, _, _ = R.reshape_rechunk(d0.shape, tuple(r.shape), d0.chunks)
    except NotImplementedError:
        return
    if math.prod(len(c) for c in ri) > 48:
        return
    if tuple(map(tuple, ro)) != tuple(map(tuple, r.chunks)):
        ctx.fail("reshape: the result's chunks are not reshape_rechunk's output chunks", observed=r.chunks, expected=ro)
        return
    flat = [int(v) for v in x.ravel()]
    x2 = d0.rechunk(ri)
    for what, arr, dims in (("rechunked input", x2, ri), ("result", r, ro)):
        model = ctx.lean(Sym("blocks_flat"), [list(map(int, c)) for c in dims], flat)
        real = [np.asarray(arr.blocks[idx].compute(scheduler="sync")).ravel().tolist()
                for idx in itertools.product(*[range(len(c)) for c in dims])]
        ctx.eq(f"reshape: C-order data of every block of the {what} vs Lean blocksFlat", model, real)
    ctx.branch("reshape:blocks-diffed")


def case_op(ctx, inp):
    import numpy as np
    import dask.array as da
    setup_dask()
    op = inp["op"]
    x, d = _mk(inp["chunks"], dtype=inp.get("dtype", "i8"))
    sig = None
    if op == "reshape":
        tgt = tuple(inp["target"])
        e = x.reshape(tgt)
        try:
            r = d.reshape(tgt, merge_chunks=inp.get("merge_chunks", True))
        except NotImplementedError:
            ctx.branch("reshape:not-implemented")  # documented: uneven splits are not offered
            return
        ctx.branch("reshape:" + ("merge" if len(tgt) < x.ndim else "split" if len(tgt) > x.ndim else "same") +
                   ("" if inp.get("merge_chunks", True) else ":no-merge-chunks"))
        _reshape_blocks_tie(ctx, x, d, r, inp.get("merge_chunks", True))
    elif op == "transpose":
        axes = inp["axes"]
        r, e = d.transpose(axes), x.transpose(axes)
    elif op == "moveaxis":
        r, e = da.moveaxis(d, inp["src"], inp["dst"]), np.moveaxis(x, inp["src"], inp["dst"])
    elif op == "swapaxes":
        r, e = da.swapaxes(d, *inp["axes"]), np.swapaxes(x, *inp["axes"])
    elif op == "squeeze":
        ax = inp.get("axis")
        ax = tuple(ax) if isinstance(ax, list) else ax
        r, e = da.squeeze(d, axis=ax), np.squeeze(x, axis=ax)
    elif op == "expand_dims":
        ax = inp["axis"]
        ax = tuple(ax) if isinstance(ax, list) else ax
        r, e = da.expand_dims(d, ax), np.expand_dims(x, ax)
    elif op == "broadcast_to":
        shape = tuple(inp["shape"])
        r, e = da.broadcast_to(d, shape, chunks=inp.get("bchunks")), np.broadcast_to(x, shape)
    elif op == "flip":
        ax = inp.get("axis")
        ax = tuple(ax) if isinstance(ax, list) else ax
        r, e = da.flip(d, ax), np.flip(x, ax)
    elif op == "rot90":
        r, e = da.rot90(d, inp["k"], tuple(inp["axes"])), np.rot90(x, inp["k"], tuple(inp["axes"]))
    elif op == "take":
        idx, ax = inp["idx"], inp["axis"]
        if inp.get("np_source"):
            # a NumPy array indexed by a dask array of indices (_take_dask_array_from_numpy)
            di = da.from_array(np.asarray(idx), chunks=inp.get("idx_chunks", 2))
            r, e = da.take(x, di, axis=ax), np.take(x, np.asarray(idx), axis=ax)
            ctx.branch("op:take:numpy-source-dask-indices")
        else:
            r, e = da.take(d, idx, axis=ax), np.take(x, idx, axis=ax)
    elif op == "shuffle":
        groups, ax = inp["groups"], inp["axis"]
        r = d.shuffle(groups, axis=ax)
        e = np.take(x, [i for g in groups for i in g], axis=ax)
        # function level: the grouping loop and (1-d) the gathered values vs the Lean plan
        import dask
        from dask.array._shuffle import _shuffle
        axc = d.chunks[ax]
        tol = dask.config.get("array.chunk-size-tolerance")
        limit = int(sum(axc) / len(axc) * tol)
        if x.ndim > 1 and max(map(len, groups)) > max(axc) * tol:
            ctx.branch("shuf:rechunk-other-dimensions")
        out_chunks, layer = _shuffle(d.chunks, groups, ax, d.name, "out", "tok")
        if layer:
            m = ctx.lean(Sym("shuffle"), list(axc), groups, limit, [int(v) for v in x] if x.ndim == 1 else [0] * sum(axc))
            ctx.eq("_shuffle: output chunks vs Lean packGroups (extracted tolerance)", [len(t) for t in m[0]], list(out_chunks[ax]))
            if x.ndim == 1 and r.chunks[0] == tuple(out_chunks[ax]):
                blocks = [np.asarray(r.blocks[i].compute(scheduler="sync")).tolist() for i in range(len(r.chunks[0]))]
                ctx.eq("shuffle: block values vs Lean shuffleChunk", m[1], blocks)
            ctx.branch("shuffle:model")
    elif op == "repeat":
        r, e = da.repeat(d, inp["repeats"], axis=inp["axis"]), np.repeat(x, inp["repeats"], axis=inp["axis"])
    elif op == "tile":
        reps = inp["reps"]
        reps = tuple(reps) if isinstance(reps, list) else reps
        r, e = da.tile(d, reps), np.tile(x, reps)
        if not all(reps if isinstance(reps, tuple) else (reps,)):
            # a zero repetition count: only shape/dtype are defined (dask returns `empty`)
            if tuple(r.shape) != e.shape or r.dtype != e.dtype:
                ctx.fail("tile with a zero count: shape/dtype differ", observed=[r.shape, str(r.dtype)], expected=[e.shape, str(e.dtype)])
            ctx.branch("op:tile:zero")
            return
    elif op == "pad":
        pw, mode = [tuple(p) for p in inp["pad_width"]], inp["mode"]
        kw = {}
        if mode == "constant" and "cv" in inp:
            kw["constant_values"] = inp["cv"]
        if mode == "linear_ramp" and "ev" in inp:
            kw["end_values"] = inp["ev"]
        if mode in ("maximum", "minimum", "mean") and inp.get("stat_length") is not None:
            kw["stat_length"] = inp["stat_length"]
        try:
            e = np.pad(x, pw, mode=mode, **kw)
        except ValueError:
            ctx.note("np.pad rejects the arguments (e.g. extending an empty axis)")
            return
        excess = mode in REUSE and any(max(p) > (s - 1 if mode == "reflect" else s) for p, s in zip(pw, x.shape))
        try:
            r = da.pad(d, pw, mode=mode, **kw)
        except Exception as ex:
            ctx.fail(f"pad({mode}) raised {type(ex).__name__}", sig=sig, observed=str(ex)[:200])
            return
        ctx.branch("op:pad:" + mode + (":excess" if excess else ""))
    elif op in ("tril", "triu"):
        r, e = getattr(da, op)(d, inp["k"]), getattr(np, op)(x, inp["k"])
    elif op == "diff":
        kw = {}
        for nm in ("prepend", "append"):
            if inp.get(nm) is not None:
                kw[nm] = inp[nm] if not isinstance(inp[nm], list) else np.array(inp[nm]).reshape(
                    [s if i != inp["axis"] % x.ndim else len(inp[nm]) // max(1, int(np.prod([t for j, t in enumerate(x.shape) if j != inp["axis"] % x.ndim]))) for i, s in enumerate(x.shape)])
        r, e = da.diff(d, n=inp["n"], axis=inp["axis"], **kw), np.diff(x, n=inp["n"], axis=inp["axis"], **kw)
    elif op == "roll":
        sh, ax = inp["shift"], inp.get("axis")
        sh = tuple(sh) if isinstance(sh, list) else sh
        ax = tuple(ax) if isinstance(ax, list) else ax
        r, e = da.roll(d, sh, ax), np.roll(x, sh, ax)
    elif op == "block":
        # a 2-level nesting of the same array pieces
        a, b = x, x + 100
        da_, db_ = d, d + 100
        if x.ndim == 1:
            r, e = da.block([da_, db_, a]), np.block([a, b, a])
        else:
            r, e = da.block([[da_, db_], [b, da_]]), np.block([[a, b], [b, a]])
    else:
        raise ValueError(op)
    if op != "pad" and op != "reshape":
        ctx.branch("op:" + op)
    if any(len(c) > 1 for c in inp["chunks"]):
        ctx.branch("multi-block-input")
    _same(ctx, op, r, e, sig=sig)


# ---------------------------------------------------------------------------
# `_shuffle` as a whole: validation, the "already shuffled" shortcut and its near misses, take / getitem / shuffle paths
# ---------------------------------------------------------------------------

def _identity_groups(old):
    out, s = [], 0
    for c in old:
        out.append(list(range(s, s + c)))
        s += c
    return out


def _classify_indexer(old, groups):
    """where an indexer sits relative to `_shuffle`'s no-op test (independent of model and code)"""
    ident = _identity_groups(old)
    if groups == ident:
        return "identity"
    flat = [i for g in groups for i in g]
    if len(groups) != len(old):
        return "identity-other-grouping" if flat == list(range(sum(old))) else "other-length"
    if [len(g) for g in groups] != list(old):
        return "identity-shifted-boundaries" if flat == list(range(sum(old))) else "other"
    if all(sorted(g) == i for g, i in zip(groups, ident)):
        if all((not g) or (g[0] == i[0] and g[-1] == i[-1]) for g, i in zip(groups, ident)):
            return "near-miss:first-last-fixed"
        return "near-miss:same-set-per-chunk"
    if sorted(flat) == list(range(sum(old))):
        if all((not g) or (g[0] == i[0] and g[-1] == i[-1]) for g, i in zip(groups, ident)):
            return "near-miss:cross-chunk-swap:first-last-fixed"
        return "near-miss:cross-chunk-swap"
    return "same-lengths-other"


def _refines(new, old):
    """every old chunk is a run of consecutive new chunks (zero-length chunks aside)"""
    new, old = [c for c in new if c], [c for c in old if c]
    i = 0
    for c in old:
        acc = 0
        while acc < c and i < len(new):
            acc += new[i]
            i += 1
        if acc != c:
            return False
    return i == len(new)


def _exc(f):
    try:
        return f(), None
    except (ValueError, IndexError, ZeroDivisionError) as ex:
        return None, type(ex).__name__


def case_shuf(ctx, inp):
    """inp: chunks (all axes), axis, and either `groups` (shuffle) or `index` (take / getitem)."""
    import numpy as np
    import dask
    import dask.array as da
    from dask.array._shuffle import _shuffle
    setup_dask()
    chunks, ax = [list(c) for c in inp["chunks"]], inp["axis"]
    old = chunks[ax]
    x, d = _mk(chunks)
    tol = dask.config.get("array.chunk-size-tolerance")
    limit = int(sum(old) / len(old) * tol)
    line = [int(v) for v in x] if x.ndim == 1 else list(range(sum(old)))   # n-d: the model tracks positions along the axis
    if "groups" in inp:
        groups = [list(g) for g in inp["groups"]]
        kind = _classify_indexer(old, groups)
        # ---- function level: _shuffle vs the Lean shufflePlan / shuffleBlocks -------------------------------------
        got, err = _exc(lambda: _shuffle(d.chunks, [list(g) for g in groups], ax, d.name, "out-tok", "tok"))
        m = ctx.lean(Sym("shuffle_plan"), old, groups, limit, line)
        if err is not None:
            ctx.eq("_shuffle raises vs Lean validateIndexer", m, [Sym("raised"), Sym(err)])
            ctx.branch("shuf:raised:" + err)
            flat = [i for g in groups for i in g]
            if groups and all(groups) and max(flat) < sum(old):
                ctx.fail("_shuffle raised for a valid indexer", observed=err)
            return
        out_chunks, layer = got
        noop = len(layer) == 0
        if m[0] != Sym("ok"):
            ctx.disagree("_shuffle returned but the Lean model raises", m, [list(out_chunks[ax]), noop])
            return
        ctx.eq("_shuffle: 'already shuffled' shortcut taken (empty layer) vs Lean alreadyShuffled", m[1], noop)
        ctx.eq("_shuffle: output chunks along the axis vs Lean (shortcut: unchanged; else packGroups, extracted tolerance)",
               [len(b) for b in m[3]], list(map(int, out_chunks[ax])))
        # ---- property oracle, independent of the model --------------------------------------------------------------
        if noop and kind != "identity":
            ctx.fail("_shuffle took the 'already shuffled' shortcut (returned the input unchanged) for an indexer that is "
                     "not the identity chunking: " + kind, observed=groups, expected=_identity_groups(old))
        if noop and tuple(map(tuple, out_chunks)) != d.chunks:
            ctx.fail("_shuffle: shortcut taken but the chunks changed", observed=out_chunks, expected=d.chunks)
        if sum(out_chunks[ax]) != sum(map(len, groups)) or any(c <= 0 for c in out_chunks[ax]):
            ctx.fail("_shuffle: output chunks do not add up to the indexer's length / contain an empty chunk", observed=out_chunks[ax])
        if any(tuple(out_chunks[i]) != d.chunks[i] for i in range(x.ndim) if i != ax):
            ctx.fail("_shuffle changed the chunks of another axis", observed=out_chunks)
        ctx.branch("shuf:" + kind + (":shortcut" if noop else ""))
        if x.ndim > 1 and max(map(len, groups)) > max(old) * tol:
            ctx.branch("shuf:rechunk-other-dimensions")
        # ---- API level: x.shuffle / da.shuffle -------------------------------------------------------------------------
        flat = [i for g in groups for i in g]
        e = np.take(x, flat, axis=ax)
        r = d.shuffle([list(g) for g in groups], axis=ax) if inp.get("api", "method") == "method" else da.shuffle(d, [list(g) for g in groups], ax)
        if not _same(ctx, "shuffle (" + kind + ")", r, e):
            return
        # _rechunk_other_dimensions: the other axes may only be split ("chunks are only split and not combined")
        for a in range(x.ndim):
            if a != ax and not _refines(r.chunks[a], d.chunks[a]):
                ctx.fail("shuffle: the chunks of another axis are not a refinement of the input's chunks", observed=r.chunks, expected=d.chunks)
        if x.ndim == 1:
            blocks = [np.asarray(r.blocks[i].compute(scheduler="sync")).tolist() for i in range(len(r.chunks[0]))]
            ctx.eq("shuffle: computed blocks vs Lean shuffleBlocks", m[3], blocks)
        if len(set(map(len, groups))) > 1:
            ctx.branch("shuf:uneven-groups")
        return
    # ---- take / getitem with an integer list ----------------------------------------------------------------------------
    from dask.array.slicing import take as slicing_take
    index = list(inp["index"])
    posidx = [i % sum(old) for i in index] if sum(old) else list(index)
    m = ctx.lean(Sym("take_plan"), old, posidx, limit, line)
    got, err = _exc(lambda: slicing_take("out-tok", d.name, d.chunks, np.asarray(posidx), ax))
    if err is not None:
        ctx.eq("slicing.take raises vs Lean takeBlocks", m[0], Sym("raised"))
        ctx.branch("take:raised:" + err)
        if posidx and sum(old):
            ctx.fail("slicing.take raised for a valid index", observed=err)
        return
    tchunks, tgraph = got
    if m[0] != Sym("ok"):
        ctx.disagree("slicing.take returned but the Lean model raises", m, list(tchunks[ax]))
        return
    from dask._task_spec import Alias
    alias = len(tgraph) > 0 and all(isinstance(v, Alias) for v in tgraph.values())
    ctx.eq("slicing.take: full-arange alias graph vs Lean isArange", m[1], alias)
    ctx.eq("slicing.take: output chunks vs Lean takeBlocks", [len(b) for b in m[3]], list(map(int, tchunks[ax])))
    if len(tgraph) == 0:
        ctx.fail("slicing.take returned an empty graph (the shortcut of _shuffle leaked into take)", observed=posidx)
    if not alias:
        indexer = m[2]
        kind = _classify_indexer(old, indexer)
        ctx.branch("take:indexer:" + kind)
        got2, err2 = _exc(lambda: _shuffle(d.chunks, [list(g) for g in indexer], ax, d.name, "out-tok", "tok"))
        if got2 is not None and len(got2[1]) == 0:
            ctx.fail("_shuffle took the 'already shuffled' shortcut for the indexer slicing.take built from a non-arange index: "
                     + kind, observed=indexer)
    else:
        ctx.branch("take:full-arange")
    e = np.take(x, index, axis=ax)
    api = inp.get("api", "take")
    if api == "take":
        r = da.take(d, index, axis=ax)
    elif api == "getitem-list":
        r = d[(slice(None),) * ax + (index,)]
    else:
        r = d[(slice(None),) * ax + (np.asarray(index),)]
    if not _same(ctx, f"{api} with an integer list", r, e):
        return
    if x.ndim == 1 and list(map(int, r.chunks[0])) == [len(b) for b in m[3]]:
        blocks = [np.asarray(r.blocks[i].compute(scheduler="sync")).tolist() for i in range(len(r.chunks[0]))]
        ctx.eq(f"{api}: computed blocks vs Lean takeBlocks", m[3], blocks)
        ctx.branch("take:blocks-diffed")



# ---------------------------------------------------------------------------
# blockwise / key-map plans (Model/StructuralOps.lean): chunks and every block vs the Lean plan
# ---------------------------------------------------------------------------

def _blocks2(r):
    import numpy as np
    return [[np.asarray(r.blocks[i, j].compute(scheduler="sync")).tolist() for j in range(len(r.chunks[1]))]
            for i in range(len(r.chunks[0]))]


def _nz_grid(c0, c1, blocks):
    """drop zero-length chunks and their (empty) blocks: slicing / arange-based plans drop them, the values are unaffected"""
    keep0 = [i for i, c in enumerate(c0) if c]
    keep1 = [j for j, c in enumerate(c1) if c]
    return [[c0[i] for i in keep0], [c1[j] for j in keep1], [[blocks[i][j] for j in keep1] for i in keep0]]


def _grid_eq(ctx, what, m, r):
    real = [list(map(int, r.chunks[0])), list(map(int, r.chunks[1]))]
    if [m[0], m[1]] != real and (0 in m[0] + m[1] + real[0] + real[1]):
        # only zero-length chunks may be dropped
        ctx.branch("grid:zero-length-chunks-dropped")
        if _nz_grid(m[0], m[1], m[2])[:2] == [[c for c in real[0] if c], [c for c in real[1] if c]]:
            ctx.eq(f"{what}: every non-empty block of the result vs the Lean plan", _nz_grid(m[0], m[1], m[2]),
                   _nz_grid(real[0], real[1], _blocks2(r)))
            return
    ctx.eq(f"{what}: chunks of the result vs the Lean plan", [m[0], m[1]], real)
    if [m[0], m[1]] == real:
        ctx.eq(f"{what}: every block of the result vs the Lean plan", m[2], _blocks2(r))


def case_grid(ctx, inp):
    import numpy as np
    import dask.array as da
    setup_dask()
    op = inp["op"]
    if op in ("transpose", "flip0", "flip1", "rot90", "tril", "triu", "swapaxes", "moveaxis", "T"):
        rc, cc, k = inp["rc"], inp["cc"], inp.get("k", 0)
        x, d = _mk([rc, cc])
        lop = "transpose" if op in ("swapaxes", "moveaxis", "T") else op
        m = ctx.lean(Sym("grid_op"), Sym(lop), k, rc, cc, x.tolist())
        r, e = {"transpose": lambda: (d.transpose((1, 0)), x.transpose((1, 0))),
                "T": lambda: (d.T, x.T),
                "swapaxes": lambda: (da.swapaxes(d, 0, -1), np.swapaxes(x, 0, -1)),
                "moveaxis": lambda: (da.moveaxis(d, 0, 1), np.moveaxis(x, 0, 1)),
                "flip0": lambda: (da.flip(d, 0), np.flip(x, 0)),
                "flip1": lambda: (da.flip(d, -1), np.flip(x, -1)),
                "rot90": lambda: (da.rot90(d, k), np.rot90(x, k)),
                "tril": lambda: (da.tril(d, k), np.tril(x, k)),
                "triu": lambda: (da.triu(d, k), np.triu(x, k))}[op]()
        if not _same(ctx, op, r, e, blocks=False):
            return
        if op == "rot90" and k % 4 == 0:
            ctx.branch("grid:rot90:k=0")
            return
        if len(rc) * len(cc) <= 36:
            _grid_eq(ctx, op, m, r)
        ctx.branch("grid:" + op + (":k=%d" % (k % 4) if op == "rot90" else "") +
                   (":zero-chunk" if 0 in rc + cc else "") + (":multi" if len(rc) * len(cc) > 1 else ""))
    elif op == "stack":
        cs, n, axis = inp["cs"], inp["n"], inp["axis"]
        pairs = [_mk([cs], seed=i) for i in range(n)]
        r, e = da.stack([p[1] for p in pairs], axis=axis), np.stack([p[0] for p in pairs], axis=axis)
        m = ctx.lean(Sym("stack_op"), axis % 2, cs, [p[0].tolist() for p in pairs])
        if not _same(ctx, "stack", r, e, blocks=False):
            return
        if r.size:   # stack drops nothing here; an all-empty stack is a single `empty`
            _grid_eq(ctx, "stack", m, r)
            if [m[0], m[1]] == [list(map(int, r.chunks[0])), list(map(int, r.chunks[1]))]:
                # the key map itself: key (k, j) <- (name of array k, j)
                layer = dict(r.dask.layers[r.name])
                names = [p[1].name for p in pairs]
                for key in layer:
                    kk, jj = (key[1], key[2]) if axis % 2 == 0 else (key[2], key[1])
                    deps = getattr(layer[key], "dependencies", None)
                    src = next(iter(deps)) if deps else layer[key][1]
                    if tuple(src) != (names[kk], jj):
                        ctx.fail("stack: key map differs from (array k, block j)", observed=[list(key[1:]), list(src[1:])])
                        break
        ctx.branch("grid:stack:axis%d" % (axis % 2))
    elif op == "bcast_rows":
        rows, cs = inp["rows"], inp["cs"]
        x, d = _mk([cs])
        shape = (sum(rows), sum(cs))
        r, e = da.broadcast_to(d, shape, chunks=(tuple(rows), tuple(cs))), np.broadcast_to(x, shape)
        m = ctx.lean(Sym("bcast_rows"), rows, cs, x.tolist())
        if not _same(ctx, "broadcast_to (new leading axis)", r, e, blocks=False):
            return
        ctx.eq("broadcast_to: chunks vs the Lean plan", [m[0], m[1]], [list(map(int, r.chunks[0])), list(map(int, r.chunks[1]))])
        if [m[0], m[1]] == [list(map(int, r.chunks[0])), list(map(int, r.chunks[1]))]:
            ctx.eq("broadcast_to: every block vs the Lean plan", m[2], _blocks2(r))
        ctx.branch("grid:broadcast_to:rows")
    elif op == "bcast_len1":
        new = inp["new"]
        x, d = _mk([[1]], seed=inp.get("seed", 3))
        r, e = da.broadcast_to(d, (sum(new),), chunks=(tuple(new),)), np.broadcast_to(x, (sum(new),))
        m = ctx.lean(Sym("bcast_len1"), new, int(x[0]))
        if not _same(ctx, "broadcast_to (length-one axis)", r, e, blocks=False):
            return
        ctx.eq("broadcast_to: chunks vs the Lean plan", m[0], list(map(int, r.chunks[0])))
        if m[0] == list(map(int, r.chunks[0])):
            ctx.eq("broadcast_to: every block vs the Lean plan", m[1],
                   [np.asarray(r.blocks[i].compute(scheduler="sync")).tolist() for i in range(len(r.chunks[0]))])
        ctx.branch("grid:broadcast_to:len1")
    elif op in ("hcat", "vcat", "block2x2", "tile2d"):
        rc, c1, c2, r2 = inp["rc"], inp["c1"], inp.get("c2", [1]), inp.get("r2", [1])

        def G(chunks, seed):
            x, d = _mk(chunks, seed=seed)
            return x, d, [list(chunks[0]), list(chunks[1]), x.tolist()]
        if op == "hcat":
            (xa, da_, ga), (xb, db_, gb) = G([rc, c1], 0), G([rc, c2], 1)
            r, e = da.concatenate([da_, db_], axis=1), np.concatenate([xa, xb], axis=1)
            m = ctx.lean(Sym("grid_cat"), Sym("hcat"), 0, 0, [ga, gb])
        elif op == "vcat":
            (xa, da_, ga), (xb, db_, gb) = G([c1, rc], 0), G([c2, rc], 1)
            r, e = da.concatenate([da_, db_], axis=0), np.concatenate([xa, xb], axis=0)
            m = ctx.lean(Sym("grid_cat"), Sym("vcat"), 0, 0, [ga, gb])
        elif op == "block2x2":
            (xa, da_, ga), (xb, db_, gb), (xc, dc_, gc), (xd, dd_, gd) = G([rc, c1], 0), G([rc, c2], 1), G([r2, c1], 2), G([r2, c2], 3)
            r, e = da.block([[da_, db_], [dc_, dd_]]), np.block([[xa, xb], [xc, xd]])
            m = ctx.lean(Sym("grid_cat"), Sym("block"), 0, 0, [ga, gb, gc, gd])
        else:
            r0, r1 = inp["r0"], inp["r1"]
            xa, da_, ga = G([rc, c1], 0)
            r, e = da.tile(da_, (r0, r1)), np.tile(xa, (r0, r1))
            m = ctx.lean(Sym("grid_cat"), Sym("tile"), r0, r1, [ga])
        if not _same(ctx, op, r, e, blocks=False):
            return
        if len(r.chunks[0]) * len(r.chunks[1]) <= 48:
            _grid_eq(ctx, op, m, r)
        ctx.branch("grid:" + op)
    elif op == "nd_transpose":
        chunks, axes, api = inp["chunks"], inp["axes"], inp.get("api", "transpose")
        x, d = _mk(chunks)
        nd = x.ndim
        if api == "swapaxes":
            a1, a2 = inp["pair"]
            r, e = da.swapaxes(d, a1, a2), np.swapaxes(x, a1, a2)
            axes = list(range(nd))
            axes[a1 % nd], axes[a2 % nd] = axes[a2 % nd], axes[a1 % nd]
        elif api == "moveaxis":
            a1, a2 = inp["pair"]
            r, e = da.moveaxis(d, a1, a2), np.moveaxis(x, a1, a2)
            axes = [k for k in range(nd) if k != a1 % nd]
            axes.insert(a2 % nd, a1 % nd)
        else:
            r, e = da.transpose(d, axes), np.transpose(x, axes)
        axes = [a % nd for a in axes]
        m = ctx.lean(Sym("nd_transpose"), axes, [list(c) for c in chunks], [int(v) for v in x.ravel()])
        if not _same(ctx, api, r, e, blocks=False):
            return
        ctx.eq(f"{api}: chunks of the result vs the Lean n-d plan (chunk tuples permuted)", m[0], [list(map(int, c)) for c in r.chunks])
        if m[0] == [list(map(int, c)) for c in r.chunks] and math.prod(len(c) for c in r.chunks) <= 64:
            real = [np.asarray(r.blocks[idx].compute(scheduler="sync")).ravel().tolist()
                    for idx in itertools.product(*[range(len(c)) for c in r.chunks])]
            ctx.eq(f"{api}: every block of the result vs the Lean n-d plan", m[1], real)
        ctx.branch("grid:nd_transpose:%s:%dd" % (api, nd))
    elif op == "squeeze_row":
        cc = inp["cs"]
        x, d = _mk([[1], cc])
        r, e = da.squeeze(d, axis=0), np.squeeze(x, axis=0)
        m = ctx.lean(Sym("squeeze_row"), cc, x[0].tolist())
        if not _same(ctx, "squeeze", r, e, blocks=False):
            return
        real = [np.asarray(r.blocks[i].compute(scheduler="sync")).tolist() for i in range(len(r.chunks[0]))]
        ctx.eq("squeeze: chunks and blocks vs the Lean plan", [m[0], m[1]], [list(map(int, r.chunks[0])), real])
        ctx.branch("grid:squeeze_row")
    elif op == "expand_row":
        cs = inp["cs"]
        x, d = _mk([cs])
        r, e = da.expand_dims(d, 0), np.expand_dims(x, 0)
        m = ctx.lean(Sym("expand_row"), cs, x.tolist())
        if not _same(ctx, "expand_dims", r, e, blocks=False):
            return
        _grid_eq(ctx, "expand_dims", m, r)
        ctx.branch("grid:expand_row")
    elif op == "pad_const":
        cs, l, rr, v = inp["cs"], inp["l"], inp["r"], inp["v"]
        x, d = _mk([cs])
        blocks = [np.asarray(d.blocks[i].compute(scheduler="sync")).tolist() for i in range(len(cs))]
        r, e = da.pad(d, (l, rr), mode="constant", constant_values=v), np.pad(x, (l, rr), mode="constant", constant_values=v)
        m = ctx.lean(Sym("pad_const"), cs, blocks, l, rr, v)
        if not _same(ctx, "pad(constant)", r, e, blocks=False):
            return
        real = [np.asarray(r.blocks[i].compute(scheduler="sync")).tolist() for i in range(len(r.chunks[0]))]
        # a zero-width pad is the single chunk (0,): concatenate drops empty arrays
        ctx.eq("pad(constant): the list of blocks vs the Lean plan", [b for b in m if b], [b for b in real if b])
        ctx.branch("grid:pad_const" + (":multi-chunk-pad" if max(l, rr) > max(cs + [0]) > 0 else ""))
    elif op in ("flip1d", "tile1d", "diff1d"):
        cs, rr = inp["cs"], inp.get("r", 1)
        x, d = _mk([cs])
        blocks = [np.asarray(d.blocks[i].compute(scheduler="sync")).tolist() for i in range(len(cs))]
        if op == "flip1d":
            r, e, m = da.flip(d, 0), np.flip(x, 0), ctx.lean(Sym("list_op"), Sym("flip"), 0, blocks)
        elif op == "tile1d":
            r, e, m = da.tile(d, rr), np.tile(x, rr), ctx.lean(Sym("list_op"), Sym("tile"), rr, blocks)
        else:
            r, e = da.diff(d, n=rr), np.diff(x, n=rr)
            ctx.eq("np.diff vs Lean diffN", ctx.lean(Sym("list_op"), Sym("diff"), rr, blocks), e.tolist())
            _same(ctx, "diff", r, e)
            ctx.branch("grid:diff1d:n=%d" % min(rr, 3))
            return
        if not _same(ctx, op, r, e, blocks=False):
            return
        real = [np.asarray(r.blocks[i].compute(scheduler="sync")).tolist() for i in range(len(r.chunks[0]))]
        if m != real and 0 in cs:
            # slicing drops zero-length chunks (the values are unaffected): compare the non-empty blocks
            ctx.branch("grid:zero-length-chunks-dropped")
            m, real = [b for b in m if b], [b for b in real if b]
        ctx.eq(f"{op}: the list of blocks vs the Lean plan", m, real)
        ctx.branch("grid:" + op)
    else:
        raise ValueError(op)


CASES = {"edge": _c24x.case_edge, "grid": case_grid, "shuf": case_shuf, "fn": case_fn, "concat": case_concat, "pad1d": case_pad1d, "roll1d": case_roll1d, "op": case_op}


# ---------------------------------------------------------------------------
# generators
# ---------------------------------------------------------------------------

def _shape_chunks(rng, maxd=3, maxn=6, minn=1, zeros=False):
    shape = [rng.randint(minn, maxn) for _ in range(rng.randint(1, maxd))]
    if zeros and rng.random() < 0.08:  # an empty axis
        shape[rng.randrange(len(shape))] = 0
    if rng.random() < 0.12:  # interior zero-length chunks (what boolean indexing leaves behind)
        return [rand_comp_zeros(rng, s) for s in shape]
    return [rand_comp(rng, s) for s in shape]


def _factor_targets(rng, shape):
    """reshape targets built by merging / splitting adjacent axes (the supported family) plus -1 / size-1 axes."""
    n = math.prod(shape)
    out = list(shape)
    for _ in range(rng.randint(1, 3)):
        if len(out) > 1 and rng.random() < 0.5:
            i = rng.randrange(len(out) - 1)
            out[i:i + 2] = [out[i] * out[i + 1]]
        else:
            i = rng.randrange(len(out))
            divs = [k for k in range(1, out[i] + 1) if out[i] % k == 0] or [1]
            k = rng.choice(divs)
            out[i:i + 1] = [k, out[i] // k]
    if rng.random() < 0.3:
        out.insert(rng.randint(0, len(out)), 1)
    if rng.random() < 0.3:
        i = rng.randrange(len(out))
        if n:
            out[i] = -1
    return out


def _factorizations(n, maxlen):
    out = set()

    def rec(pre, rem, k):
        out.add(tuple(pre + [rem]))
        if k > 1:
            for dd in range(1, rem + 1):
                if rem % dd == 0:
                    rec(pre + [dd], rem // dd, k - 1)
    rec([], n, maxlen)
    return sorted(out)


def _gen_rr(rng):
    """a reshape_rechunk input aimed at the merge / split branches and `_smooth_chunks`"""
    nd = rng.randint(2, 4)
    shape = [rng.choice([1, 2, 2, 3, 4, 5, 6, 8, 10, 12]) for _ in range(nd)]
    style = rng.choice(["lead-ones", "lead-ones", "coarse-lead", "fine-tail", "random", "random", "one-big-rest-ones"])
    chunks = []
    for a, s0 in enumerate(shape):
        if style == "lead-ones" and a < nd - 1:
            chunks.append([1] * s0)
        elif style == "coarse-lead" and a == 0:
            chunks.append(rand_comp(rng, s0, rng.choice(["single", "uniform", "irregular"])))
        elif style == "fine-tail" and a == nd - 1:
            chunks.append(rand_comp(rng, s0, rng.choice(["ones", "uniform"])))
        elif style == "one-big-rest-ones":
            chunks.append([s0] if a == 0 else [1] * s0)
        else:
            chunks.append(rand_comp(rng, s0))
    if rng.random() < 0.5:
        # merge: collapse a run of adjacent axes (maybe all), keep the others, sprinkle 1-axes
        i = rng.randrange(nd - 1)
        j = rng.randint(i + 1, nd - 1)
        out = shape[:i] + [math.prod(shape[i:j + 1])] + shape[j + 1:]
        if rng.random() < 0.25:
            out.insert(rng.randint(0, len(out)), 1)
        return {"op": "reshape_rechunk", "inchunks": chunks, "outshape": out}
    # split: the merged shape is the input, the n-d shape the target
    i = rng.randrange(nd - 1)
    j = rng.randint(i + 1, nd - 1)
    ins = shape[:i] + [math.prod(shape[i:j + 1])] + shape[j + 1:]
    inch = [rand_comp(rng, s0) for s0 in ins]
    if rng.random() < 0.4:
        # chunks that are multiples of the trailing product / of one row
        cs = math.prod(shape[i + 1:j + 1])
        inch[i] = [c * cs for c in rand_comp(rng, shape[i])]
    out = list(shape)
    if rng.random() < 0.25:
        out.insert(rng.randint(0, len(out)), 1)
    return {"op": "reshape_rechunk", "inchunks": inch, "outshape": out}


def _gen_op(rng):
    op = rng.choice(["reshape", "reshape", "reshape", "transpose", "moveaxis", "swapaxes", "squeeze", "expand_dims",
                     "broadcast_to", "flip", "rot90", "take", "shuffle", "repeat", "tile", "pad", "pad", "pad",
                     "tril", "triu", "diff", "roll", "block"])
    chunks = _shape_chunks(rng, zeros=op in ("transpose", "moveaxis", "swapaxes", "expand_dims", "flip", "repeat", "tile",
                                               "pad", "diff", "roll", "tril", "triu", "reshape"))
    shape = [sum(c) for c in chunks]
    nd = len(shape)
    inp = {"op": op, "chunks": chunks}
    if op == "reshape":
        inp["target"] = _factor_targets(rng, shape)
        inp["merge_chunks"] = rng.random() < 0.7
    elif op == "transpose":
        inp["axes"] = rng.sample(range(nd), nd)
        if rng.random() < 0.3:
            inp["axes"] = [a - nd for a in inp["axes"]]
    elif op == "moveaxis":
        inp["src"], inp["dst"] = rng.randrange(-nd, nd), rng.randrange(-nd, nd)
    elif op == "swapaxes":
        inp["axes"] = [rng.randrange(-nd, nd), rng.randrange(-nd, nd)]
    elif op == "squeeze":
        k = rng.randrange(nd)
        chunks[k] = [1]
        if rng.random() < 0.5 and nd > 1:
            chunks[rng.randrange(nd)] = [1]
        ones = [i for i, c in enumerate(chunks) if sum(c) == 1]
        inp["axis"] = rng.choice([None, ones[0], ones, -nd + ones[-1]])
    elif op == "expand_dims":
        inp["axis"] = rng.choice([rng.randint(-nd - 1, nd), sorted(rng.sample(range(nd + 2), 2))])
    elif op == "broadcast_to":
        for i in range(nd):
            if rng.random() < 0.4:
                chunks[i] = [1]
        extra = [rng.randint(1, 3) for _ in range(rng.randint(0, 2))]
        inp["shape"] = extra + [rng.randint(1, 4) if sum(c) == 1 else sum(c) for c in chunks]
    elif op == "flip":
        inp["axis"] = rng.choice([None, rng.randrange(-nd, nd), sorted(rng.sample(range(nd), rng.randint(1, nd)))])
    elif op == "rot90":
        if nd < 2:
            chunks.append(rand_comp(rng, rng.randint(1, 5)))
            nd = 2
        inp["k"], inp["axes"] = rng.randint(-5, 5), rng.sample(range(nd), 2)
    elif op == "take":
        ax = rng.randrange(nd)
        n = shape[ax]
        inp["axis"] = ax if rng.random() < 0.7 else ax - nd
        inp["idx"] = [rng.randrange(-n, n) for _ in range(rng.randint(1, 8))]
        if rng.random() < 0.2:
            inp["np_source"], inp["idx_chunks"] = True, rng.randint(1, 4)
    elif op == "shuffle":
        ax = rng.randrange(nd)
        n = shape[ax]
        pool = [rng.randrange(n) for _ in range(rng.randint(1, 2 * n))] if rng.random() < 0.5 else rng.sample(range(n), n)
        groups, i = [], 0
        while i < len(pool):
            k = rng.randint(1, 4)
            groups.append(pool[i:i + k])
            i += k
        inp["axis"], inp["groups"] = ax, groups
    elif op == "repeat":
        inp["repeats"], inp["axis"] = rng.randint(0, 4), rng.randrange(-nd, nd)
    elif op == "tile":
        inp["reps"] = rng.choice([rng.randint(0, 3), [rng.randint(0 if rng.random() < 0.1 else 1, 3) for _ in range(rng.randint(1, 3))]])
    elif op == "pad":
        mode = rng.choice(["constant", "edge", "reflect", "symmetric", "wrap", "linear_ramp", "maximum", "mean", "minimum", "empty"])
        if mode == "empty":
            mode = "constant"
        big = rng.random() < 0.12
        pw = []
        for s in shape:
            hi = (s + 3) if big else (max(0, s - 1) if mode == "reflect" else s)
            pw.append([rng.randint(0, min(hi, 5)), rng.randint(0, min(hi, 5))])
        inp["pad_width"], inp["mode"] = pw, mode
        if mode == "constant" and rng.random() < 0.5:
            inp["cv"] = rng.choice([7, [3, 4]])
        if mode == "linear_ramp" and rng.random() < 0.5:
            inp["ev"] = rng.choice([5, [2, -3]])
        if mode == "linear_ramp":
            inp["dtype"] = "f8"
        if mode in ("maximum", "minimum", "mean") and rng.random() < 0.4:
            inp["stat_length"] = rng.randint(1, 3)
    elif op in ("tril", "triu"):
        if nd < 2:
            chunks.append(rand_comp(rng, rng.randint(1, 6)))
        inp["k"] = rng.randint(-6, 6)
    elif op == "diff":
        ax = rng.randrange(-nd, nd)
        inp["n"], inp["axis"] = rng.randint(0, 3), ax
        if rng.random() < 0.3:
            inp[rng.choice(["prepend", "append"])] = rng.randint(-3, 3)
    elif op == "roll":
        if rng.random() < 0.4:
            inp["shift"], inp["axis"] = rng.randint(-9, 9), None
        elif rng.random() < 0.6:
            inp["shift"], inp["axis"] = rng.randint(-9, 9), rng.randrange(-nd, nd)
        else:
            k = rng.randint(1, nd)
            inp["shift"], inp["axis"] = [rng.randint(-7, 7) for _ in range(k)], rng.sample(range(nd), k)
    elif op == "block":
        if nd > 2:
            inp["chunks"] = chunks[:2]
    inp["chunks"] = chunks
    return inp


_SHUF_KINDS = ["identity", "transpose-inside", "permute-inside", "reverse-inside", "cross-swap", "cross-swap-interior",
               "regroup-split", "regroup-merge", "shift-boundary", "dup", "fewer-groups", "extra-group", "two-transpositions"]


def _near_identity(rng, old, kind):
    """an indexer at a chosen distance from the identity chunking of `old` (all chunks positive)"""
    g = _identity_groups(old)
    big = [i for i, c in enumerate(old) if c >= 4]
    mid = [i for i, c in enumerate(old) if c >= 3]
    two = [i for i, c in enumerate(old) if c >= 2]
    if kind == "identity":
        return g
    if kind in ("transpose-inside", "two-transpositions") and big:
        for i in ([rng.choice(big)] if kind == "transpose-inside" else rng.sample(big, min(2, len(big)))):
            a, b = sorted(rng.sample(range(1, old[i] - 1), 2))
            g[i][a], g[i][b] = g[i][b], g[i][a]
        return g
    if kind == "permute-inside" and two:
        i = rng.choice(two)
        while g[i] == _identity_groups(old)[i]:
            rng.shuffle(g[i])
        return g
    if kind == "reverse-inside" and two:
        i = rng.choice(two)
        g[i] = g[i][::-1]
        return g
    if kind == "cross-swap" and len(old) >= 2:
        i, j = sorted(rng.sample(range(len(old)), 2))
        a, b = rng.randrange(old[i]), rng.randrange(old[j])
        g[i][a], g[j][b] = g[j][b], g[i][a]
        return g
    if kind == "cross-swap-interior" and len(mid) >= 2:
        i, j = sorted(rng.sample(mid, 2))
        a, b = rng.randrange(1, old[i] - 1), rng.randrange(1, old[j] - 1)
        g[i][a], g[j][b] = g[j][b], g[i][a]
        return g
    if kind == "regroup-split" and two:
        i = rng.choice(two)
        k = rng.randrange(1, old[i])
        return g[:i] + [g[i][:k], g[i][k:]] + g[i + 1:]
    if kind == "regroup-merge" and len(old) >= 2:
        i = rng.randrange(len(old) - 1)
        return g[:i] + [g[i] + g[i + 1]] + g[i + 2:]
    if kind == "shift-boundary" and len(old) >= 2:
        cand = [i for i in range(len(old) - 1) if old[i] >= 2]
        if cand:
            i = rng.choice(cand)
            g[i + 1] = [g[i][-1]] + g[i + 1]
            g[i] = g[i][:-1]
            return g
    if kind == "dup" and two:
        i = rng.choice(two)
        a = rng.randrange(1, old[i])
        g[i][a] = g[i][a - 1]
        return g
    if kind == "fewer-groups" and len(old) >= 2:
        return g[:-1]
    if kind == "extra-group":
        return g + [[rng.randrange(sum(old))]]
    # fall back: a random permutation cut at the chunk boundaries
    flat = list(range(sum(old)))
    rng.shuffle(flat)
    out, s = [], 0
    for c in old:
        out.append(flat[s:s + c])
        s += c
    return out



def _gen_grid(rng):
    op = rng.choice(["transpose", "T", "swapaxes", "moveaxis", "flip0", "flip1", "rot90", "rot90", "tril", "tril", "triu", "triu",
                     "stack", "bcast_rows", "bcast_len1", "flip1d", "tile1d", "diff1d", "hcat", "vcat", "block2x2", "tile2d",
                     "pad_const", "pad_const", "squeeze_row", "expand_row", "nd_transpose", "nd_transpose", "nd_transpose"])
    z = rng.random() < 0.15
    comp = (lambda n: rand_comp_zeros(rng, n)) if z else (lambda n: rand_comp(rng, n))
    if op in ("stack",):
        return {"op": op, "cs": comp(rng.randint(1, 6)), "n": rng.randint(1, 4), "axis": rng.choice([0, 1, -1, -2])}
    if op == "bcast_rows":
        return {"op": op, "rows": rand_comp(rng, rng.randint(1, 5)), "cs": rand_comp(rng, rng.randint(1, 6))}
    if op == "bcast_len1":
        return {"op": op, "new": rand_comp(rng, rng.randint(1, 7)), "seed": rng.randint(0, 9)}
    if op in ("flip1d", "tile1d", "diff1d"):
        return {"op": op, "cs": comp(rng.randint(1, 8)), "r": rng.randint(1, 3)}
    if op in ("hcat", "vcat", "block2x2", "tile2d"):
        return {"op": op, "rc": rand_comp(rng, rng.randint(1, 4)), "c1": rand_comp(rng, rng.randint(1, 4)),
                "c2": rand_comp(rng, rng.randint(1, 4)), "r2": rand_comp(rng, rng.randint(1, 3)),
                "r0": rng.randint(1, 3), "r1": rng.randint(1, 3)}
    if op in ("squeeze_row", "expand_row"):
        return {"op": op, "cs": rand_comp(rng, rng.randint(1, 8))}
    if op == "nd_transpose":
        nd = rng.randint(3, 4)
        chunks = [comp(rng.randint(1, 4)) for _ in range(nd)]
        api = rng.choice(["transpose", "transpose", "swapaxes", "moveaxis"])
        axes = rng.sample(range(nd), nd)
        if rng.random() < 0.3:
            axes = [a - nd for a in axes]
        return {"op": op, "chunks": chunks, "axes": axes, "api": api, "pair": [rng.randrange(-nd, nd), rng.randrange(-nd, nd)]}
    if op == "pad_const":
        return {"op": op, "cs": comp(rng.randint(1, 7)), "l": rng.randint(0, 9), "r": rng.randint(0, 9), "v": rng.randint(-3, 3)}
    inp = {"op": op, "rc": comp(rng.randint(1, 6)), "cc": comp(rng.randint(1, 6))}
    if op == "rot90":
        inp["k"] = rng.randint(-5, 6)
    elif op in ("tril", "triu"):
        inp["k"] = rng.randint(-7, 7)
    return inp


def _gen_shuf(rng):
    kind = rng.choice(_SHUF_KINDS)
    if rng.random() < 0.5:   # uniform chunks: what `slicing.take` cuts the index into coincides with the chunks
        c = rng.randint(3, 5) if kind in ("transpose-inside", "two-transpositions", "cross-swap-interior") else rng.randint(1, 5)
        if kind in ("transpose-inside", "two-transpositions"):
            c = max(c, 4)
        old = [c] * rng.randint(1 if kind not in ("cross-swap", "cross-swap-interior", "regroup-merge", "shift-boundary", "fewer-groups") else 2, 4)
    else:
        old = rand_comp(rng, rng.randint(2, 14))
        if kind in ("transpose-inside", "two-transpositions") and max(old) < 4:
            old[rng.randrange(len(old))] += 3
        if kind == "cross-swap-interior" and sum(1 for c in old if c >= 3) < 2:
            old = [c + 2 for c in old] + ([3] if len(old) < 2 else [])
    groups = _near_identity(rng, old, kind)
    chunks, axis = [old], 0
    if rng.random() < 0.3:
        other = rand_comp(rng, rng.randint(1, 4))
        if rng.random() < 0.5:
            chunks, axis = [other, old], 1
        else:
            chunks = [old, other]
    r = rng.random()
    if r < 0.55:
        return {"chunks": chunks, "axis": axis, "groups": groups, "api": rng.choice(["method", "function"])}
    index = [i for g in groups for i in g]
    if rng.random() < 0.15 and index:
        k = rng.randrange(len(index))
        index[k] -= sum(old)   # a negative spelling of the same position
    return {"chunks": chunks, "axis": axis, "index": index, "api": rng.choice(["take", "getitem-list", "getitem-array"])}


def generate(ctx):
    rng = ctx.rng
    # regression: DESIGN.md §6 #16
    yield "pad1d", {"cs": [1], "l": 3, "r": 3, "mode": "symmetric"}
    yield "pad1d", {"cs": [2, 1], "l": 4, "r": 0, "mode": "wrap"}
    yield "pad1d", {"cs": [2, 1], "l": 0, "r": 3, "mode": "reflect"}
    yield "pad1d", {"cs": [0], "l": 1, "r": 0, "mode": "wrap"}
    yield "pad1d", {"cs": [0], "l": 0, "r": 0, "mode": "reflect"}
    # --- `_shuffle`: the "already shuffled" shortcut and its near misses (function level + shuffle / take / getitem) ---
    yield "shuf", {"chunks": [[4, 4, 4]], "axis": 0, "groups": [[0, 2, 1, 3], [4, 5, 6, 7], [8, 10, 9, 11]]}
    yield "shuf", {"chunks": [[4, 4, 4]], "axis": 0, "groups": [[0, 1, 2, 3], [4, 5, 6, 7], [8, 9, 10, 11]]}
    yield "shuf", {"chunks": [[4, 4, 4]], "axis": 0, "index": [0, 2, 1, 3, 4, 5, 6, 7, 8, 10, 9, 11], "api": "getitem-list"}
    # every indexer whose group lengths are the chunk sizes (the class the shortcut looks at): all permutations of n <= 4
    # (5 thorough) cut at the boundaries of every chunking
    for n in range(1, (4 if not ctx.thorough() else 5) + 1):
        for cs in comps(n):
            for perm in itertools.permutations(range(n)):
                groups, s0 = [], 0
                for c in cs:
                    groups.append(list(perm[s0:s0 + c]))
                    s0 += c
                if n <= 3 or ctx.thorough() or rng.random() < 0.35 or _classify_indexer(list(cs), groups) != "near-miss:cross-chunk-swap":
                    yield "shuf", {"chunks": [list(cs)], "axis": 0, "groups": groups}
    for _ in range(ctx.n(160, 2500)):
        yield "shuf", _gen_shuf(rng)
    # --- blockwise / key-map plans: chunks and every block vs the Lean plan ---------------------------------------------
    # every pair of chunkings of a 2x3 (quick) / up to 3x4 (thorough) matrix through transpose / flip / rot90 / tril / triu
    for N, M in ([(2, 3)] if not ctx.thorough() else [(2, 3), (3, 3), (3, 4), (1, 4), (4, 1)]):
        for rc in comps(N):
            for cc in comps(M):
                for op, k in [("transpose", 0), ("flip0", 0), ("flip1", 0), ("rot90", 1), ("rot90", 2), ("rot90", 3),
                              ("tril", 0), ("tril", -1), ("tril", 1), ("triu", 0), ("triu", 1), ("triu", -2)]:
                    yield "grid", {"op": op, "k": k, "rc": list(rc), "cc": list(cc)}
    for shape in ([(2, 1, 2)] if not ctx.thorough() else [(2, 2, 3), (1, 2, 2), (2, 1, 2)]):
        for chunks in itertools.product(*[comps(s0) for s0 in shape]):
            for axes in itertools.permutations(range(3)):
                yield "grid", {"op": "nd_transpose", "chunks": [list(c) for c in chunks], "axes": list(axes)}
    for _ in range(ctx.n(210, 3000)):
        yield "grid", _gen_grid(rng)
    # --- exhaustive small spaces: every chunking of n <= 4 (6 thorough), every pad width within the axis ---
    top = 3 if not ctx.thorough() else 5
    for n in range(1, top + 1):
        for cs in comps(n):
            for mode in REUSE:
                lim = 2 * n + 1   # up to more than two periods on each side
                for l in range(0, lim + 1):
                    for r in ([0, n, lim] if not ctx.thorough() else range(0, lim + 1, 2)):
                        yield "pad1d", {"cs": list(cs), "l": l, "r": r, "mode": mode}
            for s in range(-n - 1, n + 2):
                yield "roll1d", {"cs": list(cs), "shift": s}
    for _ in range(ctx.n(120, 1500)):
        n = rng.randint(1, 9)
        mode = rng.choice(REUSE)
        hi = 3 * n + 2 if rng.random() < 0.4 else (n - 1 if mode == "reflect" else n)
        yield "pad1d", {"cs": rand_comp(rng, n), "l": rng.randint(0, hi), "r": rng.randint(0, hi), "mode": mode}
    for _ in range(ctx.n(60, 800)):
        n = rng.randint(0, 12)
        yield "roll1d", {"cs": rand_comp(rng, n), "shift": rng.randint(-30, 30)}
    # --- function level: reshape helpers ------------------------------------------------------------------
    for _ in range(ctx.n(300, 6000)):
        r = rng.random()
        if r < 0.3:
            yield "fn", {"op": "expand", "cs": [rng.randint(1, 40) for _ in range(rng.randint(1, 6))], "f": rng.randint(1, 12)}
        elif r < 0.55:
            f = rng.randint(1, 8)
            cs = [rng.randint(1, 20) for _ in range(rng.randint(1, 7))]
            if rng.random() < 0.85:
                cs[-1] += (-sum(cs)) % f
            yield "fn", {"op": "contract", "cs": cs, "f": f}
        elif r < 0.65:
            yield "fn", {"op": "lower", "a": [rng.randint(1, 6) for _ in range(rng.randint(1, 4))],
                         "b": [rng.randint(1, 6) for _ in range(rng.randint(1, 4))]}
        elif r < 0.75:
            n = rng.randint(1, 12)
            yield "fn", {"op": "pad_chunks", "cs": rand_comp(rng, n), "w": [rng.randint(0, 14), rng.randint(0, 14)],
                         "mode": rng.choice(["constant", "constant", "edge", "reflect"])}
        else:
            chunks = _shape_chunks(rng, maxd=4, maxn=8)
            shape = [sum(c) for c in chunks]
            tgt = [t for t in _factor_targets(rng, shape)]
            if -1 in tgt:
                k = tgt.index(-1)
                rest = math.prod(t for t in tgt if t != -1)
                tgt[k] = math.prod(shape) // max(rest, 1)
            yield "fn", {"op": "reshape_rechunk", "inchunks": chunks, "outshape": tgt}
    # every (inshape, outshape) pair of factorisations (<= 3 axes) of n <= 6 (9 thorough) with every input chunking: the whole
    # reshape_rechunk walk vs the Lean model + the proved-plan checker
    for n in range(2, (6 if not ctx.thorough() else 9) + 1):
        shapes = _factorizations(n, 3)
        for ins in shapes:
            for outs in shapes:
                if ins == outs:
                    continue
                for inch in itertools.product(*[comps(s0) for s0 in ins]):
                    if math.prod(len(c) for c in inch) > 1:
                        yield "fn", {"op": "reshape_rechunk", "inchunks": [list(c) for c in inch], "outshape": list(outs)}
    # larger shapes: merges of 3-4 axes whose leading axes are fully chunked / coarse, splits of a long axis (aims at
    # `_smooth_chunks`: single-chunk rounds, the multi-chunk branch) and the "moving blocks" special case
    for _ in range(ctx.n(250, 4000)):
        yield "fn", _gen_rr(rng)
    for _ in range(ctx.n(80, 1000)):
        R, m = rng.randint(1, 7), rng.randint(1, 7)
        rc = rand_comp(rng, R, rng.choice(["ones", "irregular", "uniform", "single"]))
        if rng.random() < 0.5:
            yield "fn", {"op": "reshape_rechunk", "inchunks": [rc, rand_comp(rng, m)], "outshape": [R * m]}
        else:
            yield "fn", {"op": "reshape_rechunk", "inchunks": [rand_comp(rng, R * m)], "outshape": [R, m]}
    # --- concatenate / stack -------------------------------------------------------------------------------
    for _ in range(ctx.n(110, 2000)):
        nd = rng.randint(1, 3)
        base = [rng.randint(1, 5) for _ in range(nd)]
        k = rng.randint(1, 4)
        op = rng.choice(["concatenate", "concatenate", "concatenate", "stack", "vstack", "hstack", "dstack"])
        axis = rng.randrange(nd)
        chunkss = []
        for _i in range(k):
            shape = list(base)
            if op == "concatenate":
                shape[axis] = rng.randint(1, 5) if rng.random() > 0.12 else 0   # an empty array among the inputs is dropped
            chunkss.append([rand_comp(rng, s) for s in shape])
        if op == "stack":
            axis = rng.randint(-nd - 1, nd)
        elif op == "concatenate" and rng.random() < 0.3:
            axis = axis - nd
        yield "concat", {"op": op, "axis": axis, "chunkss": chunkss,
                         "numpy": [i for i in range(k) if rng.random() < 0.15]}
    # --- take / shuffle along a 1-d axis: the `_shuffle` plan vs the Lean model ------------------------------
    for _ in range(ctx.n(70, 900)):
        n = rng.randint(1, 14)
        pool = [rng.randrange(n) for _ in range(rng.randint(1, 2 * n))] if rng.random() < 0.6 else rng.sample(range(n), n)
        groups, i = [], 0
        while i < len(pool):
            k = rng.randint(1, 5)
            groups.append(pool[i:i + k])
            i += k
        yield "op", {"op": "shuffle", "chunks": [rand_comp(rng, n)], "axis": 0, "groups": groups}
    # --- every operation, API level ------------------------------------------------------------------------
    for _ in range(ctx.n(280, 6000)):
        yield "op", _gen_op(rng)
    if ctx.thorough():
        # all chunkings of small 2-d shapes through reshape / transpose / pad
        for shape in [(4, 3), (3, 2), (2, 2, 2)]:
            for chunks in itertools.product(*[comps(s) for s in shape]):
                ch = [list(c) for c in chunks]
                yield "op", {"op": "reshape", "chunks": ch, "target": [-1]}
                yield "op", {"op": "reshape", "chunks": ch, "target": [shape[0], -1]}
                yield "op", {"op": "transpose", "chunks": ch, "axes": list(range(len(shape)))[::-1]}
                yield "op", {"op": "pad", "chunks": ch, "pad_width": [[1, 2]] * len(shape), "mode": "symmetric"}
    # --- extension: pad(mode="edge") vs Model/PadEdge.lean (appended last: keeps the random streams of the sections above) ---
    yield from _c24x.gen_edge(ctx)
