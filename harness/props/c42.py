"""C42 — lazy DataFrame metadata matches computed results.

Model:    lean/DaskModel/Model/RelExpr.lean (`metaOf`: kind of object + column names/order, computed without data)
Theorems: lean/DaskModel/Props/C42.lean (schema_commutes, schema_of_partitions, optimizer_keeps_schema)
Tie:      `model` — programs of the modelled fragment: the real `._meta` (kind, columns) vs `(metaof …)`; `api` — random
          pipelines taken from the C36 (row-wise, mixed dtypes, accessors), C37 (reductions), C43 (optimizer programs) and
          C46 (cumulative / shift / rolling) generators plus groupby: the computed object's type, column names and order,
          dtypes, index name and index dtype, Series name are compared with `._meta`, for the whole result and for EVERY
          partition computed separately. dtypes are an oracle check only (pandas type inference is not modelled).
          `labels` / `ltable` (last extension round, harness/props/_c42x_labels.py): Series name, index name, index dtype —
          Model/MetaLabels.lean, Props/C42xLabels.lean.
"""
from __future__ import annotations

from sexp import Sym

from props import _dfrows_util as U

U.warm()
from props import c36, c37, c43, c46
from props import _c42x_labels as X42

PROP = "C42"
READY = True
DRIVER = "dm_dfrows"
LEAN_MODULES = ["DaskModel.Props.C42", "DaskModel.Props.C42xLabels"]
CASE_TIMEOUT_S = 60
LEVEL_TEXT = (
    "Proved in Lean: schema_commutes — for the modelled expression classes the lazy schema metaOf (kind of object "
    "DataFrame/Series/scalar, column names and order), computed without data, equals the schema of the computed object; "
    "schema_of_partitions — every partition has the schema of the whole; optimizer_keeps_schema — steps accepted by the C43 "
    "checker keep it; dtypeOf_erase / typed_schema_commutes — the TYPED lazy schema (dtypes of the int64/float64/bool "
    "arithmetic, comparison and boolean subset, composed from the result-dtype table binDType/notDType) refines it. The "
    "dtype TABLE is pandas' behaviour: it is checked against pandas every run on EMPTY and on non-empty operands (value "
    "independence is what makes meta-on-empty-frames right), dtypeOf against the real ._meta dtypes of logical and optimised "
    "expressions. Last extension round (Props/C42xLabels.lean, Model/MetaLabels.lean): SERIES NAME, INDEX NAME and INDEX DTYPE of "
    "the same relational fragment — labels_commute (the lazy labels metaL = kind, columns, Series name, index name, index dtype "
    "equal the labels of the object computed by denL, the value semantics with pandas' labels attached), labels_of_partitions, "
    "denL_refines_den / metaL_refines_metaOf (the labelled semantics is the C43 value semantics, never fails more often), "
    "index_labels_are_source, computed_labels_eq_meta (the full C42 statement for the fragment, labels included), "
    "optimizer_keeps_frame_labels (accepted optimizer steps keep every label of a DataFrame result; that they keep a SERIES NAME "
    "is validated only). metaL is diffed against the real ._meta of logical and optimised expressions, denL against the really "
    "computed whole result and every partition (index named / unnamed / named like a column; int64, float64, datetime64, str "
    "index), the per-operation label rules against pandas on empty and non-empty operands. All other dtypes (str, datetime, "
    "categorical, nullable) and the labels of expressions OUTSIDE the fragment (reductions, groupby, cumulative/rolling, "
    "accessors, Index objects) are NOT theorems: oracle checks on random pipelines from the C36/C37/C43/C46 generators and "
    "groupby, for the whole result and each partition separately (exploration strength for that part).")
LEVEL_NOTE = ("Trusted: Lean kernel; translator from dask expressions to the model AST; pandas as the dtype oracle. The dtype part of "
              "the statement is validated, not proved.")
TECHNIQUE = "Lean 4 proof of schema commutation for a relational fragment + oracle comparison of ._meta with computed results and partitions"
ASSUMPTIONS = ["meta of an expression = pandas applied to an empty/fake frame (dask's design); kind/columns and the dtypes of the int64/float64/bool arithmetic subset are modelled",
               "pandas' result dtype of the table's operators does not depend on the values (validated every run: empty vs non-empty operands)",
               "pandas' label rules of the fragment's operations (name of a binary result = _maybe_match_name, unary/scalar/filter keep the "
               "operand's name, df[c] is named c, results carry the index labels of the frame / left operand) do not depend on the values "
               "(validated every run: section ltable, empty vs non-empty operands)"]

def describe(obj):
    """schema of a pandas object / scalar as JSON"""
    import numpy as np
    import pandas as pd
    if isinstance(obj, pd.DataFrame):
        return {"kind": "frame", "columns": [str(c) for c in obj.columns], "dtypes": [str(t) for t in obj.dtypes],
                "index_name": None if obj.index.name is None else str(obj.index.name), "index_dtype": str(obj.index.dtype)}
    if isinstance(obj, pd.Series):
        return {"kind": "series", "name": None if obj.name is None else str(obj.name), "dtypes": [str(obj.dtype)],
                "index_name": None if obj.index.name is None else str(obj.index.name), "index_dtype": str(obj.index.dtype)}
    if isinstance(obj, pd.Index):
        return {"kind": "index", "name": None if obj.name is None else str(obj.name), "dtypes": [str(obj.dtype)]}
    if isinstance(obj, (np.generic,)):
        return {"kind": "scalar", "dtypes": [str(obj.dtype)]}
    return {"kind": "scalar", "dtypes": [type(obj).__name__]}


def compare_meta(ctx, what, meta, obj, sigs=None, partition=None, empty_ok=True):
    """returns True when the computed object agrees with the lazy meta"""
    import pandas as pd
    m, o = describe(meta), describe(obj)
    where = what + ("" if partition is None else f" [partition {partition}]")
    problems = []
    if m["kind"] != o["kind"]:
        problems.append(("type", m["kind"], o["kind"]))
    else:
        for key in ("columns", "name", "index_name"):
            if key in m and m.get(key) != o.get(key):
                problems.append((key, m.get(key), o.get(key)))
        if m["kind"] != "scalar" and m["dtypes"] != o["dtypes"]:
            problems.append(("dtypes", m["dtypes"], o["dtypes"]))
        if m["kind"] == "scalar":
            # numpy scalar kinds: int/float/bool must agree in kind (python int vs numpy int is not a difference)
            def kind(s):
                s = s.lower()
                return "i" if "int" in s else ("f" if "float" in s else ("b" if "bool" in s else s))
            if kind(m["dtypes"][0]) != kind(o["dtypes"][0]):
                problems.append(("dtypes", m["dtypes"], o["dtypes"]))
        if m.get("index_dtype") != o.get("index_dtype") and "index_dtype" in m:
            problems.append(("index_dtype", m.get("index_dtype"), o.get("index_dtype")))
    if not problems:
        return True
    sig = None
    if sigs:
        for pred, s in sigs:
            r = pred(problems, meta, obj)
            if r:
                sig = s if r is True else r
                break
    ctx.fail(f"{where}: computed object disagrees with ._meta in {[p[0] for p in problems]}", sig=sig,
             observed=[list(p) for p in problems])
    return False


def check_collection(ctx, what, coll, sigs=None):
    import pandas as pd
    meta = coll._meta
    try:
        whole = coll.compute(scheduler="sync")
    except Exception as e:
        ctx.note("compute_failed:" + type(e).__name__)   # value/exception behaviour belongs to C36/C37/C43/C46
        return
    ok = compare_meta(ctx, what, meta, whole, sigs)
    if hasattr(coll, "to_delayed") and isinstance(whole, (pd.DataFrame, pd.Series)):
        try:
            parts = U.compute_parts(coll)
        except Exception as e:
            ctx.note("partitions_failed:" + type(e).__name__)
            return
        for i, p in enumerate(parts):
            if not compare_meta(ctx, what, meta, p, sigs, partition=i):
                ok = False
                break
        if len(parts) > 1:
            ctx.branch("partitions-checked")
        if any(len(p) == 0 for p in parts):
            ctx.branch("empty-partition-checked")
    if ok:
        ctx.branch("meta-ok-" + describe(meta)["kind"])


# ------------------------------------------------------------------------------------------------
# model section
# ------------------------------------------------------------------------------------------------

def case_model(ctx, inp):
    import pandas as pd
    df = c43._mk(inp)
    d = U.from_parts(df, inp["lens"], known=inp.get("known", True))
    try:
        c43.run_program(df, inp["prog"])
    except Exception as e:
        ctx.note("pandas_rejected:" + type(e).__name__)
        return
    coll = c43.run_program(d, inp["prog"])
    tail = inp.get("tail")
    if tail:
        coll = c43.s_expr(coll, tail)
    cols = [str(c) for c in df.columns]
    for label, e in (("logical", coll.expr), ("optimised", coll.expr.optimize(fuse=False))):
        try:
            m = c43.to_model(e, "")
        except c43.Unmodelled as u:
            ctx.note("unmodelled:" + str(u))
            continue
        model = ctx.lean(Sym("metaof"), cols, m)
        meta = e._meta
        if isinstance(meta, pd.DataFrame):
            impl = [Sym("frame"), [str(c) for c in meta.columns]]
        elif isinstance(meta, pd.Series):
            impl = Sym("series")
        else:
            impl = Sym("scalar")
        ctx.eq("metaOf vs ._meta (%s expression)" % label, model, impl)
        # typed lazy schema (dtypes of the arithmetic / comparison / boolean subset) vs the real ._meta
        tcols = [[str(c), Sym(str(df[c].dtype))] for c in df.columns]
        if all(str(df[c].dtype) in ("int64", "float64", "bool") for c in df.columns):
            tmodel = ctx.lean(Sym("dtypeof"), tcols, m)
            if tmodel == "none" or tmodel is None:
                ctx.note("dtypeof:outside-typed-fragment")
            else:
                if isinstance(meta, pd.DataFrame):
                    timpl = ["frame", [[str(c), str(meta[c].dtype)] for c in meta.columns]]
                elif isinstance(meta, pd.Series):
                    timpl = ["series", str(meta.dtype)]
                else:
                    dt = str(getattr(meta, "dtype", type(meta).__name__))
                    timpl = ["scalar", "int64" if dt == "int" else dt]
                tm = [str(tmodel[0]), [[str(a), str(b)] for a, b in tmodel[1]]] if tmodel[0] == "frame" else [str(tmodel[0]), str(tmodel[1])]
                ctx.eq("dtypeOf vs ._meta dtypes (%s expression)" % label, tm, timpl)
                ctx.branch("model-dtypes-checked")
    check_collection(ctx, "fragment program", coll)
    # computed columns (names, order, DUPLICATES, dtypes) vs pandas and vs ._meta, optimised and unoptimised
    if not tail:
        try:
            exp = c43.run_program(df, inp["prog"])
            opt = coll.compute(scheduler="sync")
            raw = c43._raw_compute(coll.expr)
            for label, got in (("optimised", opt), ("unoptimised", raw)):
                if [str(c) for c in got.columns] != [str(c) for c in exp.columns]:
                    ctx.fail(f"{label} result has columns {[str(c) for c in got.columns]}, pandas {[str(c) for c in exp.columns]}",
                             observed=[str(c) for c in got.columns], expected=[str(c) for c in exp.columns])
                elif [str(c) for c in got.columns] != [str(c) for c in coll._meta.columns]:
                    ctx.fail(f"{label} result columns differ from ._meta", observed=[str(c) for c in got.columns],
                             expected=[str(c) for c in coll._meta.columns])
            if any(st[0] == "assign" for st in inp["prog"]) and any(st[0] == "sel" for st in inp["prog"]):
                ctx.branch("model-assign-select-chain")
        except Exception as e:
            ctx.fail(f"fragment program raised {type(e).__name__}", observed=f"{type(e).__name__}: {e}"[:300])
    ctx.branch("model-" + ("series" if tail else "frame"))


# ------------------------------------------------------------------------------------------------
# API section: pipelines from the other generators
# ------------------------------------------------------------------------------------------------

def _dtype_diffs(problems, meta, obj):
    """{column: (meta dtype, computed dtype)} when the ONLY disagreement is in column dtypes of a frame"""
    import pandas as pd
    if [p[0] for p in problems] != ["dtypes"] or not isinstance(meta, pd.DataFrame) or list(meta.columns) != list(obj.columns):
        return None
    return {str(c): (str(meta[c].dtype), str(obj[c].dtype)) for c in meta.columns if str(meta[c].dtype) != str(obj[c].dtype)}


def classify_c36(inp):
    """known classes of dtype-only meta mismatches of the C36 pipelines; every differing column must be explained"""
    names = [s[0] for s in inp["steps"]]
    sd = inp.get("sdtype", "str")

    def pred(problems, meta, obj):
        diffs = _dtype_diffs(problems, meta, obj)
        if not diffs:
            return None
        classes = set()
        for col, (m, o) in diffs.items():
            if sd == "object" and any(n.startswith("str_") for n in names) and col in ("s", "s2", "ss", "slen", "sc"):
                classes.add("meta:object-dtype-str-accessor:dtype")
            elif sd == "str" and col == "slen" and (m, o) == ("float64", "int64") and "str_len" in names:
                classes.add("meta:str.len:float64-vs-int64")
            elif sd == "str" and col == "s2" and (m, o) == ("object", "str") and "str_cat" in names:
                classes.add("meta:str-dtype-add:object-vs-str")
            elif col in ("sl", "im") and len(obj) == 0 and any(n in ("apply_series", "map_dict") for n in names):
                classes.add("meta:udf-on-empty-partition:dtype")
            elif any(st[0] in ("where", "mask") and st[1] == col for st in inp["steps"]) and {m, o} <= {"int64", "float64"}:
                classes.add("meta:where-mask:value-dependent-dtype")
            elif col in ("di", "df_") and m in ("int64", "int32") and o == "float64" and "or_filter_binop" in names:
                # x - x[pred]: the rows that the filter drops become NaN -> float64, meta (no rows) says int64
                classes.add("meta:sub-of-filtered-frame:int64-vs-float64")
            else:
                return None
        return sorted(classes)[0]
    return pred


def case_api(ctx, inp):
    src = inp["source"]
    if src == "c36":
        df = c36._mixed_df(inp["inp"])
        try:
            d = c36._make_dask(df, inp["inp"])
            exp = df
            for st in inp["inp"]["steps"]:
                exp = c36.api_step(exp, st, False)
        except Exception as e:
            ctx.note("pandas_rejected:" + type(e).__name__)
            return
        try:
            cur = d
            for st in inp["inp"]["steps"]:
                cur = c36.api_step(cur, st, True)
        except Exception as e:
            ctx.note("build_failed:" + type(e).__name__)
            return
        names = [s[0] for s in inp["inp"]["steps"]]
        sigs = [(classify_c36(inp["inp"]), None)]
        check_collection(ctx, "c36 pipeline %s" % names, cur, sigs)
        ctx.branch("api-c36")
    elif src == "c37":
        i = inp["inp"]
        df = c37._api_frame(i)
        d = U.from_parts(df, i["lens"], known=i.get("known", True))
        try:
            c37.api_call(df, i)
            r = c37.api_call(d, i)
        except Exception as e:
            ctx.note("rejected:" + type(e).__name__)
            return
        if not hasattr(r, "_meta"):
            return
        sigs = []
        if i["params"].get("axis") == 1 and not i.get("column") and i["kind"] in ("sum", "prod", "min", "max", "mean", "var", "std", "sem"):
            sigs.append((lambda pr, meta, obj: [p[0] for p in pr] == ["dtypes"] and len(obj) == 0 and pr[0][1] == ["object"] and pr[0][2] == ["float64"],
                         "meta:axis1-mixed-bool:empty-partition:float64-vs-object"))
        check_collection(ctx, "c37 %s" % i["kind"], r, sigs)
        ctx.branch("api-c37-" + i["kind"])
    elif src == "c46":
        i = inp["inp"]
        df = c46._mk_frame(i)
        pobj = df[i["column"]] if i.get("column") else df
        d = U.from_parts(pobj, i["lens"])
        try:
            if i["kind"] == "map_overlap":
                return
            op = c46._api_ops(i)
            op(pobj)
            r = op(d)
        except Exception as e:
            ctx.note("rejected:" + type(e).__name__)
            return
        check_collection(ctx, "c46 %s" % i["kind"], r)
        ctx.branch("api-c46-" + i["kind"])
    elif src == "groupby":
        i = inp["inp"]
        import pandas as pd
        df = pd.DataFrame({"c": i["c"], "v": [float(x) for x in i["v"]], "w": i["w"]})
        d = U.dd().from_pandas(df, npartitions=i["nparts"])
        how = i["how"]
        try:
            g = d.groupby("c")
            if how == "size":
                r = g.size(split_out=i["split_out"])
            elif how == "sum":
                r = g.sum(split_out=i["split_out"])
            elif how == "mean_col":
                r = g.v.mean(split_out=i["split_out"])
            elif how == "count":
                r = g.count(split_out=i["split_out"])
            else:
                r = g.agg({"v": "max", "w": "sum"}, split_out=i["split_out"])
        except Exception as e:
            ctx.note("rejected:" + type(e).__name__)
            return
        check_collection(ctx, "groupby %s split_out=%s" % (how, i["split_out"]), r)
        ctx.branch("api-groupby-" + how)


# ------------------------------------------------------------------------------------------------
# the dtype TABLE vs pandas (empty and non-empty operands: value independence)
# ------------------------------------------------------------------------------------------------

_DTS = ["int64", "float64", "bool"]


def _operand(dt, n):
    import numpy as np
    import pandas as pd
    vals = {"int64": [1, -2, 3], "float64": [1.5, np.nan, 3.0], "bool": [True, False, True]}[dt][:n]
    return pd.Series(vals, dtype=dt)


def _result_dtype(f):
    try:
        r = f()
    except TypeError:
        return "TypeError"
    return str(r.dtype) if hasattr(r, "dtype") else type(r).__name__


def case_dtable(ctx, inp):
    import operator
    op = inp["op"]
    if op == "not":
        for a in _DTS:
            model = str(ctx.lean(Sym("notdtype"), Sym(a)))
            full, empty = _result_dtype(lambda: ~_operand(a, 3)), _result_dtype(lambda: ~_operand(a, 0))
            if model in ("none", "None"):
                if a == "bool":
                    ctx.disagree("~bool must be typed", model, full)
                continue       # ~int is bitwise (not modelled), ~float raises
            ctx.eq("dtype of ~%s (non-empty operands)" % a, model, full)
            ctx.eq("dtype of ~%s (EMPTY operands = what ._meta sees)" % a, model, empty)
        ctx.branch("dtable-not")
        return
    fn = {"add": operator.add, "sub": operator.sub, "mul": operator.mul, "lt": operator.lt, "le": operator.le, "gt": operator.gt,
          "ge": operator.ge, "eq": operator.eq, "ne": operator.ne, "and": operator.and_, "or": operator.or_}[op]
    for a in _DTS:
        for b in _DTS + ["pyint-right", "pyint-left"]:
            if b == "pyint-right":
                mk = lambda n: fn(_operand(a, n), 2)
                model = str(ctx.lean(Sym("bindtype"), Sym(op), Sym(a), Sym("int64")))
            elif b == "pyint-left":
                mk = lambda n: fn(2, _operand(a, n))
                model = str(ctx.lean(Sym("bindtype"), Sym(op), Sym("int64"), Sym(a)))
            else:
                mk = lambda n: fn(_operand(a, n), _operand(b, n))
                model = str(ctx.lean(Sym("bindtype"), Sym(op), Sym(a), Sym(b)))
            full, empty = _result_dtype(lambda: mk(3)), _result_dtype(lambda: mk(0))
            if model in ("none", "None"):
                # untyped entries: pandas raises on data, or `&`/`|` is used bitwise on integers (outside the value model)
                # (`&`/`|` are typed for bool & bool only: with an int operand they are bitwise, bool & float is bool but
                # float & bool raises)
                if full != "TypeError" and op not in ("and", "or"):
                    ctx.disagree(f"{a} {op} {b}: the table has no dtype but pandas computes one", model, full)
                continue
            ctx.eq(f"dtype of {a} {op} {b} (non-empty operands)", model, full)
            ctx.eq(f"dtype of {a} {op} {b} (EMPTY operands = what ._meta sees)", model, empty)
    ctx.branch("dtable-" + op)


CASES = {"model": case_model, "api": case_api, "dtable": case_dtable, **X42.CASES}


def generate(ctx):
    rng = ctx.rng
    # DESIGN.md 6 #27 (fixed 109c7c6) first: cheap regression case
    yield "api", {"source": "groupby", "inp": {"c": ["x", "y", "x", "z"], "v": [1, 2, 3, 4], "w": [0, 1, 0, 1], "nparts": 2,
                                               "how": "size", "split_out": 2}}
    for op in ["add", "sub", "mul", "lt", "le", "gt", "ge", "eq", "ne", "and", "or", "not"]:
        yield "dtable", {"op": op}
    streams = []
    for _ in range(ctx.n(45, 2000)):
        inp, names = c43.gen_frame(rng)
        inp["prog"] = c43.gen_assign_chain(rng, names) if rng.random() < 0.45 else c43.gen_prog(rng, names, rng.randint(0, 4))
        cur = list(names)
        for st in inp["prog"]:
            if st[0] == "sel":
                cur = list(st[1])
            elif st[0] == "assign" and st[1] not in cur:
                cur.append(st[1])
        if rng.random() < 0.35:
            inp["tail"] = c43.gen_sexpr(rng, cur, 2, rng.random() < 0.5)
        streams.append(("model", inp))
    for _ in range(ctx.n(40, 1500)):
        streams.append(("api", {"source": "c36", "inp": c36.gen_api(rng)}))
    for _ in range(ctx.n(28, 800)):
        streams.append(("api", {"source": "c37", "inp": c37.gen_api(rng)}))
    for _ in range(ctx.n(24, 600)):
        i = c46.gen_api(rng)
        if i is not None:
            streams.append(("api", {"source": "c46", "inp": i}))
    for _ in range(ctx.n(20, 400)):
        n = rng.randint(1, 12)
        streams.append(("api", {"source": "groupby", "inp": {
            "c": [rng.choice(["x", "y", "z"]) for _ in range(n)], "v": [rng.randint(-3, 5) for _ in range(n)],
            "w": [rng.randint(0, 4) for _ in range(n)], "nparts": rng.randint(1, 4),
            "how": rng.choice(["size", "size", "sum", "mean_col", "count", "agg"]), "split_out": rng.choice([1, 2, 3])}}))
    # interleave so that a deadline cuts every stream proportionally
    rng.shuffle(streams)
    yield from streams
    # last extension round (generated last: the streams above keep their seeds): Series name / index name / index dtype
    yield from X42.generate(ctx)


def search(ctx):
    yield from generate(ctx)
