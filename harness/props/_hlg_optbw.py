"""C10 extension: the DRIVER loop of blockwise fusion (`_optimize_blockwise`: which layers are handed together to
`rewrite_blockwise`) and the condition of `fuse_roots`, against `lean/DaskModel/Model/OptBW.lean`.

Sections (registered in c10.py):
  optbw    a synthetic HighLevelGraph (random layer DAG: Blockwise / materialized layers, chains, diamonds, shared
           producers, producers requested as outputs, mixed `concatenate`, annotations, reductions, io layers, a producer
           listed twice, names that are not layers) -> `optimize_blockwise` with `_optimize_blockwise` and
           `rewrite_blockwise` wrapped: EVERY pass is translated and its groups diffed against the model; the clauses of
           `fusion_group_sound` / `optimize_blockwise_keeps_outputs` are evaluated on the real groups.
  optbwprog  the same on the graphs of random array programs (the generators of the `stack` / `rewrite` sections).
Both also run the real `fuse_roots` on the input graph and on the optimised graph and diff WHICH consumers are merged
with which root layers.
"""
from __future__ import annotations

from sexp import Sym

FUSABLE = ["retries", "priority", "resources", "workers", "allow_other_workers"]


def _f(*args):
    return ("f",) + tuple(args)


# ------------------------------------------------------------------------------------------------
# translation of a real HighLevelGraph into the model's layer list
# ------------------------------------------------------------------------------------------------

def translate(graph):
    """-> (layers sexp, ids: name -> number, order: names by number). Layers are numbered topologically (dependencies
    first, ties in the dict order of `graph.layers`); every other name gets a number >= len(layers)."""
    from dask.blockwise import Blockwise
    layers = graph.layers
    deps = graph.dependencies
    names = list(layers)
    placed, order = set(), []
    pending = list(names)
    while pending:
        rest = []
        for nm in pending:
            if all((d in placed) or (d not in layers) or d == nm for d in deps.get(nm, ())):
                placed.add(nm)
                order.append(nm)
            else:
                rest.append(nm)
        if len(rest) == len(pending):      # cyclic: leave the rest in dict order (the model's topoOK will say false)
            order.extend(rest)
            break
        pending = rest
    ids = {nm: i for i, nm in enumerate(order)}

    def nid(x):
        try:
            hash(x)
        except TypeError:
            x = ("unhashable", id(x))
        if x not in ids:
            ids[x] = len(ids)
        return ids[x]
    syms = {}
    anns = []
    out = []
    for nm in order:
        L = layers[nm]
        a = L.annotations
        # `a == b` of `_can_fuse_annotations`: None == None, {} == {}, None != {}
        for ci, b in enumerate(anns):
            if a == b:
                break
        else:
            ci = len(anns)
            anns.append(a)
        akeys = [(FUSABLE.index(k) if k in FUSABLE else 5 + nid(("annkey", k))) for k in (a or {})]
        dl = [nid(d) for d in deps.get(nm, ())]
        if isinstance(L, Blockwise):
            conc = {None: 0, True: 1, False: 2}.get(L.concatenate, 3)
            oi = [syms.setdefault(s, len(syms)) for s in L.output_indices]
            inds = []
            for k, ind in L.indices:
                inds.append([nid(k) if ind is not None else nid(("lit", id(k))),
                             None if ind is None else [syms.setdefault(s, len(syms)) for s in ind]])
            out.append([True, dl, conc, ci, akeys, oi, inds])
        else:
            out.append([False, dl, 0, ci, akeys, [], []])
    return out, ids, order


def _canon_groups(gs):
    return sorted([r, bool(f), sorted(m)] for r, f, m in gs)


# ------------------------------------------------------------------------------------------------
# one observed run of optimize_blockwise
# ------------------------------------------------------------------------------------------------

def observe_optimize(graph, keys):
    """run the real optimize_blockwise; -> (result, passes) with passes = [(input graph, result graph, calls)],
    calls = [(names of the input layers of one rewrite_blockwise call, returned object)]"""
    import dask.blockwise as dbw
    passes = []
    cur = []
    orig_rw = dbw.rewrite_blockwise
    orig_pass = dbw._optimize_blockwise

    def spy_rw(inputs):
        inputs = list(inputs)
        names = [l.output for l in inputs]
        out = orig_rw(inputs)
        cur.append((names, out))
        return out

    def spy_pass(full_graph, keys=()):
        del cur[:]
        r = orig_pass(full_graph, keys=keys)
        passes.append((full_graph, r, list(cur)))
        return r
    dbw.rewrite_blockwise = spy_rw
    dbw._optimize_blockwise = spy_pass
    try:
        res = dbw.optimize_blockwise(graph, keys=keys)
    finally:
        dbw.rewrite_blockwise = orig_rw
        dbw._optimize_blockwise = orig_pass
    return res, passes


def check_pass(ctx, full_graph, result, calls, keys, cfg):
    """diff one `_optimize_blockwise` pass against the model and evaluate the theorems' clauses on the real groups"""
    from dask.blockwise import Blockwise
    from dask.core import reverse_dict
    lay, ids, order = translate(full_graph)
    n = len(order)
    keep_names = {k[0] if type(k) is tuple else k for k in keys}
    extra = {}
    keep = sorted({ids[k] if k in ids else extra.setdefault(k, len(ids) + len(extra)) for k in keep_names})
    # real groups
    real = []
    by_obj = {}
    for names, obj in calls:
        by_obj.setdefault(id(obj), []).append(names)
    for nm, L in result.layers.items():
        if nm not in ids or ids[nm] >= n:
            ctx.fail("_optimize_blockwise produced a layer name the input graph does not have", observed=str(nm))
            return
        cs = by_obj.get(id(L), [])
        cs = [c for c in cs if nm in c]
        if isinstance(full_graph.layers[nm], Blockwise):
            if len(cs) != 1:
                ctx.fail("cannot attribute a rewrite_blockwise call to output layer", observed=[str(nm), len(cs)])
                return
            real.append([ids[nm], True, [ids[x] for x in cs[0]]])
        else:
            real.append([ids[nm], False, [ids[nm]]])
    if len(calls) != sum(1 for r in real if r[1]):
        ctx.fail("rewrite_blockwise calls and fused output layers differ in number", observed=[len(calls), len(real)])
    m = ctx.lean(Sym("optbw"), lay, keep, bool(cfg))
    if not (isinstance(m, list) and m and str(m[0]) == "ok"):
        ctx.disagree("_optimize_blockwise groups (model ran out of fuel / refused)", m, _canon_groups(real))
        return
    ctx.eq("_optimize_blockwise: groups handed to rewrite_blockwise (root, fused, members)", _canon_groups(m[1]), _canon_groups(real))
    if m[2] is not True or m[3] is not True:
        ctx.disagree("hypotheses of optimize_blockwise_keeps_outputs on a real graph (topoOK, selfOK)", [m[2], m[3]], [True, True])
    # the theorems' clauses on the REAL groups
    dependents = reverse_dict(full_graph.dependencies)
    inv = {v: k for k, v in ids.items()}
    for root, fused, mem in real:
        ms = {inv[x] for x in mem}
        if inv[root] not in ms:
            ctx.fail("fusion group does not contain its root", observed=[str(inv[root]), sorted(map(str, ms))])
        for x in ms:
            if x == inv[root]:
                continue
            if not isinstance(full_graph.layers.get(x), Blockwise):
                ctx.fail("a non-Blockwise layer was fused", observed=str(x))
            if x in keep_names:
                ctx.fail("a layer requested as an output was fused into another layer", observed=str(x))
            outside = [d for d in dependents.get(x, ()) if d not in ms]
            if outside:
                ctx.fail("a fused layer has a dependent outside its group (its keys are still needed)",
                         observed=[str(x), sorted(map(str, outside))])
    for k in keep_names:
        if k in full_graph.layers and k not in result.layers:
            ctx.fail("a requested layer did not survive _optimize_blockwise", observed=str(k))
    # coverage measurements
    sizes = [len(mm) for _, f, mm in real if f]
    if any(s >= 2 for s in sizes):
        ctx.branch("optbw-group>=2")
    if any(s >= 3 for s in sizes):
        ctx.branch("optbw-group>=3")
    fusedset = {x for r, f, mm in real for x in mm if x != r}
    for i, L in enumerate(lay):
        nm = inv[i]
        if not L[0] or i in fusedset:
            continue
        ds = dependents.get(nm, ())
        if len(ds) > 1:
            ctx.branch("optbw-shared-producer-kept")
        elif len(ds) == 1 and i in keep:
            ctx.branch("optbw-output-producer-kept")
        elif len(ds) == 1:
            (p,) = ds
            P = full_graph.layers[p]
            if not isinstance(P, Blockwise):
                ctx.branch("optbw-consumer-not-blockwise")
            elif P.concatenate != full_graph.layers[nm].concatenate and ids[p] not in fusedset:
                ctx.branch("optbw-concatenate-differs")
            elif sum(1 for k, ind in P.indices if ind is not None and k == nm) > 1:
                ctx.branch("optbw-listed-twice")
            elif P.annotations != full_graph.layers[nm].annotations:
                ctx.branch("optbw-annotations-block")
            else:
                ctx.branch("optbw-reduction-or-deeper-guard")
    if any(d >= n for L in lay for d in L[1]):
        ctx.branch("optbw-dangling-dependency")


def check_fuse_roots(ctx, graph, keys, what):
    """WHICH consumers `fuse_roots` merges with which root layers, against the model"""
    import dask.blockwise as dbw
    lay, ids, order = translate(graph)
    by_dict = [ids[nm] for nm in graph.layers]            # iteration order of `graph.layers.items()`
    orig = dbw.fuse
    merged = []
    outkeys = {nm: (set(L.get_output_keys()) if isinstance(L, dbw.Blockwise) else set(L.keys())) for nm, L in graph.layers.items()}

    def spy_fuse(dsk, keys_, ave_width=None, **kw):
        # the low-level fusion itself is the graph group's business (C06…); here: WHICH layers were merged.
        # The consumer is the merged layer no other merged layer depends on (a merged consumer can itself be merged
        # into a later one, so the final graph does not show it).
        ks = set(dsk)
        cand = [nm for nm in graph.layers if outkeys[nm] and outkeys[nm] <= ks]
        tops = [nm for nm in cand if not any(nm in graph.dependencies[o] for o in cand)]
        merged.append((tops, ave_width))
        return dsk, None
    dbw.fuse = spy_fuse
    try:
        try:
            res = dbw.fuse_roots(graph, keys)
            real = []
            for tops, w in merged:
                if len(tops) != 1:
                    ctx.fail("fuse_roots: cannot attribute a merge to one consumer (" + what + ")", observed=[list(map(str, tops))])
                    return
                ds = graph.dependencies[tops[0]]
                if w != len(ds):
                    ctx.fail("fuse_roots: ave_width is not the number of roots (" + what + ")", observed=[w, len(ds)])
                real.append([ids[tops[0]], sorted(ids[d] for d in ds)])
            gone = sorted(ids[nm] for nm in graph.layers if nm not in res.layers)
            if gone != sorted(d for _, ds in real for d in ds):
                ctx.fail("fuse_roots: the layers removed are not exactly the roots of the merged consumers (" + what + ")",
                         observed=[gone, real])
            for nm in res.layers:
                if nm not in graph.layers:
                    ctx.fail("fuse_roots: new layer name (" + what + ")", observed=str(nm))
            real = ["ok", sorted(real)]
        except KeyError:
            real = ["raised"]
    finally:
        dbw.fuse = orig
    m = ctx.lean(Sym("fuseroots"), lay, by_dict)
    mm = ["ok", sorted([c, sorted(ds)] for c, ds in m[1])] if (isinstance(m, list) and str(m[0]) == "ok") else ["raised"]
    ctx.eq("fuse_roots: consumers merged with their root layers (" + what + ")", mm, real)
    if real[0] == "ok" and real[1]:
        ctx.branch("fuseroots-merged")
        pos = {x: i for i, x in enumerate(by_dict)}
        if any(pos[c] < pos[d] for c, ds in real[1] for d in ds):
            ctx.branch("fuseroots-consumer-visited-before-its-roots")
        if len(real[1]) >= 2:
            ctx.branch("fuseroots-merged-twice")
        if any(len(ds) >= 3 for _, ds in real[1]):
            ctx.branch("fuseroots-three-roots")


# ------------------------------------------------------------------------------------------------
# synthetic graphs
# ------------------------------------------------------------------------------------------------

ANNS = [None, None, None, None, {}, {"retries": 2}, {"retries": 2}, {"priority": 1}, {"workers": ["a"]},
        {"foo": 1}, {"foo": 1}, {"foo": 2}, {"retries": 1, "bar": 0}, {"allow_other_workers": True},
        {"resources": {"GPU": 1}}, {"allow_other_workers": False, "priority": 1}]


def gen_graph(rng):
    """JSON spec of a layer DAG. Every array has 1 or 2 dimensions and 2 blocks per dimension."""
    n = rng.randint(2, 9)
    shape = rng.choice(["random", "random", "chain", "diamond", "fan"])
    p_mat = rng.choice([0.0, 0.15, 0.3])
    p_ann = rng.choice([0.0, 0.0, 0.3, 0.7])
    p_conc = rng.choice([0.0, 0.3, 0.7])
    p_red = rng.choice([0.1, 0.3])
    layers = []
    for i in range(n):
        nm = "L%d" % i
        ann = rng.randrange(len(ANNS)) if rng.random() < p_ann else 0
        if i == 0 or rng.random() < (p_mat if i > 0 else 0.6) or (i < 3 and rng.random() < 0.3 and shape in ("random", "fan")):
            kind = "mat" if rng.random() < 0.6 or i > 0 else "io"
            if i > 0 and kind == "mat" and rng.random() < 0.6:
                # a materialized layer in the middle (depends on earlier layers)
                srcs = sorted(set(rng.sample(range(i), min(i, rng.randint(1, 2)))))
            else:
                srcs = []
            if kind == "mat" and not srcs and rng.random() < 0.4:
                kind = "io"
            layers.append({"name": nm, "kind": kind, "nd": rng.randint(1, 2), "srcs": srcs, "ann": ann})
            continue
        if shape == "chain":
            srcs = [i - 1]
        elif shape == "diamond" and i >= 3 and i % 3 == 0:
            srcs = [i - 1, i - 2]
        elif shape == "diamond":
            srcs = [max(0, i - 1 - (i % 3 == 2))]
        elif shape == "fan":
            srcs = rng.sample(range(i), min(i, rng.randint(1, 3)))
        else:
            srcs = [rng.randrange(i) for _ in range(rng.choice([1, 1, 2, 2, 3]))]
            if rng.random() < 0.6:
                srcs[0] = i - 1
        if rng.random() < 0.12:
            srcs.append(srcs[0])                       # the same producer listed twice (possibly with another index)
        out_nd = rng.randint(1, 2)
        out = ["i", "j"][:out_nd]
        if out_nd == 2 and rng.random() < 0.3:
            out = ["j", "i"]
        args = []
        for s in srcs:
            nd = layers[s]["nd"]
            pool = list(out)
            if rng.random() < p_red:
                pool.append("k")                       # a contracted index: this layer is a "reduction"
            if len(pool) < nd:
                pool.append("k")
            ind = rng.sample(pool, nd) if len(pool) >= nd else [pool[0]] * nd
            args.append([s, ind])
        if rng.random() < 0.2:
            args.insert(rng.randint(0, len(args)), [None, None])     # a literal argument (index None)
        conc = rng.choice([True, False]) if rng.random() < p_conc else None
        layers.append({"name": nm, "kind": "bw", "nd": out_nd, "out": out, "args": args, "conc": conc, "ann": ann})
    if rng.random() < 0.12:
        layers[rng.randrange(n)].setdefault("dangling", True)
    # outputs: the layers nobody depends on, plus sometimes inner layers (output producers)
    used = {s for L in layers for s in (L.get("srcs") or []) + [a[0] for a in L.get("args", []) if a[0] is not None]}
    keys = [i for i in range(n) if i not in used]
    if rng.random() < 0.5:
        keys += rng.sample(range(n), rng.randint(1, min(2, n)))
    if rng.random() < 0.1:
        keys.append(-1)                                # a key of no layer
    order = list(range(n))
    if rng.random() < 0.3:
        rng.shuffle(order)
    return {"layers": layers, "keys": sorted(set(keys)), "fuse": rng.random() < 0.85, "tuplekeys": rng.random() < 0.7,
            "order": order}


def gen_roots_graph(rng):
    """graphs for `fuse_roots`: a Blockwise consumer of 2-3 leaf layers (materialized / io), then possibly a second
    consumer of the first one plus a fresh leaf (fused in the same walk, because the first merge resets the consumer's
    dependencies); perturbations: a leaf shared with another consumer, a leaf with dependencies, unequal annotations,
    a materialized consumer."""
    layers = []

    def leaf(ann=0):
        i = len(layers)
        layers.append({"name": "L%d" % i, "kind": rng.choice(["mat", "io"]), "nd": rng.randint(1, 2), "srcs": [], "ann": ann})
        return i

    def consumer(srcs, ann=0, kind="bw"):
        i = len(layers)
        if kind == "mat":
            layers.append({"name": "L%d" % i, "kind": "mat", "nd": 1, "srcs": sorted(set(srcs)), "ann": ann})
            return i
        out = ["i", "j"][:rng.randint(1, 2)]
        args = []
        for s_ in srcs:
            nd = layers[s_]["nd"]
            pool = list(out) + (["k"] if len(out) < nd or rng.random() < 0.2 else [])
            args.append([s_, rng.sample(pool, nd)])
        layers.append({"name": "L%d" % i, "kind": "bw", "nd": len(out), "out": out, "args": args,
                       "conc": rng.choice([None, None, True]), "ann": ann})
        return i
    ann = rng.choice([0, 0, 0, 5, 9])
    t = rng.random()
    ls = [leaf(ann if rng.random() < 0.85 else rng.choice([0, 5, 9])) for _ in range(rng.choice([1, 2, 2, 3]))]
    if t < 0.15:
        # one "leaf" gets a dependency of its own
        z = leaf()
        ls.append(consumer([z], ann))
    c = consumer(ls, ann, kind="mat" if rng.random() < 0.1 else "bw")
    top = [c]
    if rng.random() < 0.25:
        top.append(consumer([rng.choice(ls)], ann))                # a leaf with two dependents
    if rng.random() < 0.5:
        l2 = leaf(ann)
        top = [consumer([c, l2], ann)] + top[1:]
        if rng.random() < 0.3:
            l3 = leaf(ann)
            top = [consumer([top[0], l3], ann)] + top[1:]
    if rng.random() < 0.1:
        layers[rng.randrange(len(layers))]["dangling"] = True
    order = list(range(len(layers)))
    if rng.random() < 0.5:
        rng.shuffle(order) if rng.random() < 0.5 else order.reverse()
    return {"layers": layers, "keys": sorted(set(top)), "fuse": True, "tuplekeys": True, "order": order}


def build_graph(spec):
    from dask._task_spec import Task, TaskRef
    from dask.blockwise import BlockwiseDepDict, blockwise
    from dask.highlevelgraph import HighLevelGraph, MaterializedLayer
    import itertools
    layers, deps = {}, {}
    nds = {}
    for L in spec["layers"]:
        nm = L["name"]
        nd = L["nd"]
        nds[nm] = nd
        ann = ANNS[L["ann"]]
        ann = None if ann is None else dict(ann)
        blocks = list(itertools.product(range(2), repeat=nd))
        if L["kind"] == "mat":
            srcs = ["L%d" % s for s in L["srcs"]]
            d = {}
            for b in blocks:
                refs = [TaskRef((s,) + tuple(b[:nds[s]]) + (0,) * (nds[s] - len(b))) for s in srcs]
                d[(nm,) + b] = Task((nm,) + b, _f, nm, *refs)
            layers[nm] = MaterializedLayer(d, annotations=ann)
            deps[nm] = set(srcs)
        elif L["kind"] == "io":
            dep = BlockwiseDepDict({b: ("blk", nm) + b for b in blocks}, numblocks=(2,) * nd)
            ind = "ij"[:nd]
            lay = blockwise(_f, nm, ind, dep, ind, numblocks={})
            lay.annotations = ann
            layers[nm] = lay
            deps[nm] = set()
        else:
            pairs = []
            nb = {}
            for s, ind in L["args"]:
                if s is None:
                    pairs += [7, None]
                else:
                    pairs += ["L%d" % s, "".join(ind)]
                    nb["L%d" % s] = (2,) * nds["L%d" % s]
            have = {x for s_, ind in L["args"] if s_ is not None for x in ind}
            new_axes = {x: 2 for x in L["out"] if x not in have}       # an output index no argument carries
            lay = blockwise(_f, nm, "".join(L["out"]), *pairs, numblocks=nb, concatenate=L["conc"], new_axes=new_axes)
            lay.annotations = ann
            layers[nm] = lay
            deps[nm] = {"L%d" % s for s, _ in L["args"] if s is not None}
        if L.get("dangling"):
            deps[nm] = set(deps[nm]) | {"nolayer-" + nm}
    if spec.get("order"):
        # insertion order of `graph.layers` (the walk of `fuse_roots` follows it; the set of roots of `_optimize_blockwise` too)
        layers = {"L%d" % i: layers["L%d" % i] for i in spec["order"]}
    g = HighLevelGraph(layers, deps)
    keys = []
    for k in spec["keys"]:
        nm = "L%d" % k if k >= 0 else "nokey"
        keys.append(((nm,) + (0,) * nds.get(nm, 1)) if spec["tuplekeys"] else nm)
    return g, keys


def _run(ctx, graph, keys, cfg, materializable=True):
    import dask
    with dask.config.set({"optimization.annotations.fuse": cfg}):
        res, passes = observe_optimize(graph, keys)
        for full_graph, r, calls in passes:
            check_pass(ctx, full_graph, r, calls, keys, cfg)
        if len(passes) >= 3:
            ctx.branch("optbw-three-or-more-passes")
        check_fuse_roots(ctx, graph, keys, "input graph")
        check_fuse_roots(ctx, res, keys, "optimised graph")
    return res


def case_optbw(ctx, inp):
    graph, keys = build_graph(inp)
    _run(ctx, graph, keys, bool(inp["fuse"]))


def case_optbwprog(ctx, inp):
    import numpy as np
    from dask.core import flatten
    from props import _hlg_util as U
    prog = inp["prog"]
    with np.errstate(all="ignore"):
        try:
            U.run_prog(prog, "np")
        except Exception:
            ctx.note("numpy-invalid-program")
            return
        d = U.run_prog(prog, "da")
    keys = list(flatten(d.__dask_keys__()))
    _run(ctx, d.__dask_graph__(), keys, True)
