"""C01 — local schedulers compute exactly the values the task graph denotes.

Model:    lean/DaskModel/Model/Sched.lean  (get_async of dask/local.py: start_state_from_dask, fire_tasks
          incl. the chunksize=-1 branch, finish_task, release_data, the main loop, nested_get)
Theorems: lean/DaskModel/Props/C01.lean (+ Lemmas/Sched*.lean)
Tie:      `trace`  — get_async under the *controlled executor* (completion order = input), the real `state`
                     dict at every start_state/pretask/submit/posttask/finish point diffed against the
                     model driven by the same adversary choices; results vs recursive evaluation;
          `start`  — start_state_from_dask alone (function level), incl. malformed graphs;
          `api`    — dask.get / dask.threaded.get / get_async+ThreadPoolExecutor / dask.multiprocessing.get
                     on random DAGs (tasks, literals, aliases, nested list arguments, legacy tuples and
                     Task objects) vs a plain recursive evaluator and vs the Lean `denote`;
          `exh`    — (thorough) every completion order of every small DAG.
"""
from __future__ import annotations

import random

from sexp import Sym

from props import _sched_util as U

PROP = "C01"
READY = True
DRIVER = "dm_sched"
LEAN_MODULES = ["DaskModel.Props.C01"]
CASE_TIMEOUT_S = 30
LEVEL_TEXT = (
    "Lean 4 theorems over an executable transliteration of dask.local.get_async (symbolic values, arbitrary "
    "priorities): for every acyclic graph, num_workers >= 1, chunksize in {-1} U N+ and EVERY order in which "
    "outstanding batches complete, the main loop never raises an internal error (KeyError/AssertionError/"
    "ZeroDivisionError/IndexError) and never waits on an empty queue (sched_no_internal_error, sched_progress), "
    "every cached value is the recursively evaluated value (sched_cache_sound), the loop ends within #keys "
    "iterations (sched_terminates), and nested_get returns the denoted values in the request's nesting "
    "(sched_result, getAsync_result); the recursive evaluation is a well-defined unique fixed point "
    "(den_fixpoint, den_unique). start_state_from_dask (explicit-stack traversal, transliterated) is proved to "
    "terminate within its fuel, never to raise on a closed graph and to establish the scheduler invariant "
    "(start_ok = Sched.startState_ok; the visited keys are exactly those reachable from the request, "
    "seen_iff_reachable), nested_get keeps the request's nesting (nestedGet_shape), the FIFO adversary = the "
    "synchronous scheduler is never rejected and ends within #keys iterations (sync_scheduler_terminates), so "
    "get_async_correct states the property with no hypothesis beyond: graph acyclic and closed, dependencies listed "
    "once, requested keys present (GraphOK/Hyp: both shown satisfiable by examples). PROVED FOR ALL INPUTS: the "
    "above, for the empty start cache. VALIDATED ONLY (differential tie, no theorem): the real `state` dict vs the "
    "model at every callback of get_async under a controlled executor with the same adversary choices; "
    "start_state_from_dask, finish_task, release_data, nested_get at function level; keys that are false in a boolean "
    "context (0, '', (), b''); a caller-supplied cache= (model startStateC/getAsyncC, which is definitionally the proved "
    "model for the empty cache: startStateC_nil, getAsyncC_nil); the threaded, ThreadPoolExecutor and multiprocessing "
    "schedulers at API level.")
LEVEL_NOTE = (
    "OS thread / process timing is NOT modelled: the model quantifies over every order in which outstanding "
    "batches may complete (adversary), the real executors (ThreadPoolExecutor, ProcessPoolExecutor, Queue, "
    "pickling of tasks for multiprocessing, dask.threaded's per-thread pool table) are trusted to deliver some such "
    "order and are exercised only by the API-level differential runs. Trusted: Lean kernel + propext/Classical.choice/"
    "Quot.sound; the correspondence harness; dask.order (priorities are an arbitrary parameter of the model; the harness "
    "feeds the real ones; runs with priority ties skip the state diff); convert_legacy_graph (C08) for the rendering of "
    "legacy graphs. Review round: three crashes of the cache= option (a key of the graph already in the cache) were "
    "repaired in /repo (d3f7a74).")
TECHNIQUE = "Lean 4 invariant proof over an adversarial state machine + differential state-trace correspondence under a controlled executor"
ASSUMPTIONS = ["tasks are pure functions of their dependency values (symbolic `apply`)",
               "the theorems are for the empty start cache; a caller-supplied `cache=` mapping is modelled and diffed, not proved",
               "graphs are closed (every dependency is a key of the graph) - dask raises 'Missing dependency' otherwise (malformed stream)"]
TRUSTED = ["concurrent.futures / threading / multiprocessing deliver completions in SOME order (adversarial order is modelled, timing is not)"]


# ------------------------------------------------------------------------------------------------
def _oracle_values(ctx, out, inp):
    """results == recursive evaluation, same nesting; unexpected errors are property failures"""
    real, dag = out["real"], out["dag"]
    fails = out["fails"]
    ev = U.reference_eval(dag, fails, inp.get("cache0"))
    flat = out["flat_ids"]
    expect = {i: ev(i) for i in flat}
    c0 = {int(k) for k in (inp.get("cache0") or {})}
    missing = any(isinstance(v, tuple) and v[0] == "missing" for v in expect.values()) or \
        any(nd[0] == "x" and i not in c0 for i, nd in enumerate(dag["nodes"]))
    err = real["error"]
    if err is not None:
        if isinstance(err, U.Hang):
            if not missing:
                ctx.fail("get_async would block for ever (nothing outstanding, loop condition true)", observed="hang")
            else:
                ctx.branch("malformed:hang")
            return
        cls = U.classify_error(err)
        if cls[0] == "failed":
            return  # a failing task: C04's business
        if missing:
            ctx.branch("malformed:" + type(err).__name__)
            return
        ctx.fail(f"get_async raised {type(err).__name__}: {err} on a well-formed acyclic graph",
                 observed=f"{type(err).__name__}: {err}")
        return
    if any(isinstance(v, tuple) for v in expect.values()):
        if not missing:
            ctx.fail("get_async returned although a needed task raises", observed=repr(real["result"])[:200])
        return
    want = U.map_req(inp["req"], lambda i: expect[i])
    got = real["result"]
    if not U.same_nesting(inp["req"], got):
        ctx.fail("result is not packed in the nesting of the request", observed=repr(got)[:200], expected=want)
    elif U._tuple_to_list(got) != U._tuple_to_list(want):
        ctx.fail("scheduler result differs from the recursive evaluation of the graph",
                 observed=U._tuple_to_list(got), expected=U._tuple_to_list(want))
    if real["left_pending"]:
        ctx.fail("get_async returned while submitted batches were never completed", observed=real["left_pending"])


def case_trace(ctx, inp):
    out = U.run_trace(ctx, inp)
    _oracle_values(ctx, out, inp)
    real = out["real"]
    if inp["cs"] == -1:
        ctx.branch("chunksize=-1")
    elif inp["cs"] > 1:
        ctx.branch("chunksize>1")
    if any(len(b) > 1 for b in real["submits"]):
        ctx.branch("batch>1")
    if len(real["choices"]) >= 2 and any(c > 0 for c in real["choices"]):
        ctx.branch("non-fifo-completion")
    if isinstance(inp["req"], list) and any(isinstance(r, list) for r in inp["req"]):
        ctx.branch("nested-request")
    if not out["flat_ids"]:
        ctx.branch("empty-request")
    elif all(inp["dag"]["nodes"][i][0] == "d" for i in out["flat_ids"]):
        ctx.branch("data-only-request")
    if any(nd[0] == "a" for nd in inp["dag"]["nodes"]):
        ctx.branch("alias")
    if any(not out["keys"][i] for i in out["flat_ids"]):
        ctx.branch("falsy-key-requested")
    if inp.get("cache0"):
        ctx.branch("warm-cache")
        c0 = {int(k) for k in inp["cache0"]}
        if any(inp["dag"]["nodes"][i][0] == "t" for i in c0):
            ctx.branch("warm-cache:task-key-cached")
        if any(inp["dag"]["nodes"][i][0] == "x" for i in c0):
            ctx.branch("warm-cache:key-outside-the-graph")
        if any(v == 0 for v in inp["cache0"].values()):
            ctx.branch("warm-cache:falsy-value")
    if out.get("model") and out["model"]["outcome"][0] == "done" and not inp.get("cache0"):
        # Lean denote == python reference on the requested keys
        den = ctx.lean(Sym("denote"), U.enc_nodes(inp["dag"]), out["flat_ids"])
        ctx.eq("Lean denote vs scheduler result", [d for d in den], [x for x in out["model"]["result"]])


def case_start(ctx, inp):
    """start_state_from_dask alone, function level"""
    from dask._task_spec import convert_legacy_graph
    from dask.local import start_state_from_dask
    from dask.order import order
    dag, req = inp["dag"], inp["req"]
    dsk, keys = U.render(dag)
    idof = {k: i for i, k in enumerate(keys)}
    flat = list(U.flatten_req(req))
    conv = convert_legacy_graph(dsk)
    try:
        o = order(conv)
    except Exception as e:
        ctx.note("order_raised:" + type(e).__name__)
        return
    prio = sorted([idof[k], int(v)] for k, v in o.items())
    ties = len({p for _, p in prio}) != len(prio)
    cache0 = {int(k): v for k, v in (inp.get("cache0") or {}).items()}
    keys_none = bool(inp.get("keys_none"))
    try:
        st = start_state_from_dask(conv, keys=None if keys_none else {keys[i] for i in flat},
                                   cache={keys[i]: v for i, v in cache0.items()} if cache0 else None, sortkey=o.get)
        impl = [Sym("ok"), U.ser_state(st, idof)]
    except ValueError as e:
        impl = [Sym("raised"), [Sym("missingDep")]] if "Missing dependency" in str(e) else [Sym("raised"), [Sym("ValueError")]]
    except KeyError:
        impl = [Sym("raised"), [Sym("keyError")]]
        if not any(nd[0] == "x" for nd in dag["nodes"]):
            ctx.fail("start_state_from_dask raised KeyError on a closed graph", observed="KeyError")
    if cache0 or keys_none:
        model = ctx.lean(Sym("start_state"), U.enc_nodes(dag), flat, prio, sorted([k, v] for k, v in cache0.items()), keys_none)
        if cache0:
            ctx.branch("start:warm-cache")
        if keys_none:
            ctx.branch("start:keys=None")
    else:
        model = ctx.lean(Sym("start_state"), U.enc_nodes(dag), flat, prio)
    if model[0] == "raised":
        model = [model[0], [model[1][0]]]
        ctx.branch("start:raised")
    if ties:
        ctx.note("priority_ties")
        if impl[0] == "ok" and model[0] == "ok":
            impl[1][5] = sorted(impl[1][5])
            model[1][5] = sorted(model[1][5])
    ctx.eq("start_state_from_dask", model, impl)
    if impl[0] == "ok":
        s = impl[1]
        if s[2]:
            ctx.branch("start:waiting")
        if len(s[5]) > 1:
            ctx.branch("start:several-ready")
        if s[4]:
            ctx.branch("start:data-cached")


def case_nested(ctx, inp):
    """nested_get(ind, coll) at function level: any nesting (empty lists, lists of empty lists, single keys), every key
    flavour incl. keys that are false in a boolean context, requested keys missing from the collection (KeyError)"""
    from dask.local import nested_get
    req, known, kind, n = inp["req"], inp["known"], inp["keys"], inp["n"]
    keys = [U.key_of(i, kind, n) for i in range(n)]
    coll = {keys[i]: 7 * i + 1 for i in known}
    ind = U.map_req(req, lambda i: keys[i])
    try:
        got = nested_get(ind, coll)
        impl = [Sym("ok"), U._tuple_to_list(got)]
        if not U.same_nesting(req, got):
            ctx.fail("nested_get does not pack the values in the nesting of the request", observed=repr(got)[:200],
                     expected=repr(U.map_req(req, lambda i: 7 * i + 1))[:200])
        elif U._tuple_to_list(got) != U.map_req(req, lambda i: 7 * i + 1):
            ctx.fail("nested_get returns other values than coll[key] for the requested keys", observed=repr(got)[:200],
                     expected=repr(U.map_req(req, lambda i: 7 * i + 1))[:200])
    except KeyError:
        impl = [Sym("raised")]
        if all(i in known for i in U.flatten_req(req)):
            ctx.fail("nested_get raised KeyError although every requested key is in the collection", observed="KeyError")
        ctx.branch("nested:KeyError")
    model = ctx.lean(Sym("nested_get"), req, sorted(known))
    ctx.eq("nested_get", model, impl)
    flat = list(U.flatten_req(req))
    if not isinstance(req, list):
        ctx.branch("nested:single-key")
    elif not flat:
        ctx.branch("nested:no-key-at-all")
    if isinstance(req, list) and any(isinstance(r, list) for r in req):
        ctx.branch("nested:depth>=2")
    if any(not keys[i] for i in flat):
        ctx.branch("nested:falsy-key-requested")


_POOLS = {}


def _pool(n):
    from concurrent.futures import ThreadPoolExecutor
    if n not in _POOLS:
        _POOLS[n] = ThreadPoolExecutor(n)
    return _POOLS[n]


_TPOOLS = {}


def _tpool(n):
    import multiprocessing.pool
    if n not in _TPOOLS:
        _TPOOLS[n] = multiprocessing.pool.ThreadPool(n)
    return _TPOOLS[n]


def run_custom(sched, dsk, real_req, nw, cs, **kw):
    """the other ways into get_async: dask.threaded.get called from a helper thread (its per-thread pool table and the
    clean-up of pools of finished threads), dask.threaded.get(pool=<multiprocessing.pool.ThreadPool>) (wrapped in
    MultiprocessingPoolExecutor), dask.local.get_apply_async (submit_apply_async, default pack_exception)"""
    import threading

    from dask.local import get_apply_async
    from dask.threaded import get as tget
    if sched == "pool-arg":
        return tget(dsk, real_req, pool=_tpool(nw), chunksize=cs, **kw)
    if sched == "apply_async":
        return get_apply_async(_tpool(nw).apply_async, nw, dsk, real_req, chunksize=cs, **kw)
    box = {}

    def target():
        try:
            box["r"] = tget(dsk, real_req, num_workers=nw, chunksize=cs, **kw)
        except BaseException as e:   # handed back to the caller's thread
            box["e"] = e
    t = threading.Thread(target=target)
    t.start()
    t.join()
    if "e" in box:
        raise box["e"]
    return box["r"]


def case_api(ctx, inp):
    """the public schedulers on a random DAG vs the recursive evaluator and the Lean denote"""
    import dask
    from dask.local import get_async, get_sync
    dag, req, sched, nw, cs = inp["dag"], inp["req"], inp["sched"], inp["nw"], inp["cs"]
    rng = random.Random(inp.get("seed", 0))
    tasks = [i for i, nd in enumerate(dag["nodes"]) if nd[0] == "t"]
    delays = {i: rng.choice([0, 0, 0.0005, 0.002]) for i in tasks} if sched not in ("sync", "mp") else {}
    dsk, keys = U.render(dag, None, delays)
    real_req = U.map_req(req, lambda i: keys[i])
    ev = U.reference_eval(dag, None, inp.get("cache0"))
    want = U.map_req(req, ev)
    ckw = {"cache": {keys[int(i)]: v for i, v in inp["cache0"].items()}} if inp.get("cache0") else {}
    try:
        if sched == "sync":
            got = dask.get(dsk, real_req) if inp.get("entry") == "dask.get" and not ckw else get_sync(dsk, real_req, chunksize=cs, **ckw)
        elif sched == "threaded":
            from dask.threaded import get as tget
            got = tget(dsk, real_req, num_workers=nw, chunksize=cs, **ckw)
        elif sched == "threadpool":
            from dask.threaded import pack_exception
            pool = _pool(nw)
            got = get_async(pool.submit, nw, dsk, real_req, chunksize=cs, pack_exception=pack_exception)
        elif sched == "mp":
            from dask.multiprocessing import get as mget
            got = mget(dsk, real_req, num_workers=nw, chunksize=cs, optimize_graph=inp.get("optimize", True))
        elif sched in ("threaded-in-thread", "pool-arg", "apply_async"):
            got = run_custom(sched, dsk, real_req, nw, cs)
        else:
            raise AssertionError(sched)
    except Exception as e:
        ctx.fail(f"{sched} scheduler raised {type(e).__name__}: {e} on a well-formed acyclic graph",
                 observed=f"{type(e).__name__}: {str(e)[:200]}")
        return
    ctx.branch("api:" + sched)
    if cs == -1:
        ctx.branch("api:chunksize=-1")
    flat0 = list(U.flatten_req(req))
    if not flat0:
        ctx.branch("api:empty-request")
    if any(not keys[i] for i in flat0):
        ctx.branch("api:falsy-key-requested")
    if sched != "mp":
        # executed task keys == the tasks reachable from the request, each exactly once
        execs = sorted(k for k, *_ in U.exec_log())
        need = sorted(i for i in U.needed_ids(dag, flat0, inp.get("cache0")) if dag["nodes"][i][0] == "t"
                      and str(i) not in (inp.get("cache0") or {}))
        if execs != need:
            ctx.fail(f"{sched}: executed tasks are not exactly the tasks needed for the request (each once)",
                     observed=execs, expected=need)
    if not U.same_nesting(req, got):
        ctx.fail(f"{sched}: result not packed in the nesting of the request", observed=repr(got)[:200], expected=want)
    elif U._tuple_to_list(got) != U._tuple_to_list(want):
        ctx.fail(f"{sched}: result differs from the recursive evaluation", observed=U._tuple_to_list(got),
                 expected=U._tuple_to_list(want))
    flat = list(U.flatten_req(req))
    if not inp.get("cache0"):
        den = ctx.lean(Sym("denote"), U.enc_nodes(dag), flat)
        ctx.eq("Lean denote vs python recursive evaluation", den, [ev(i) for i in flat])
    else:
        ctx.branch("api:warm-cache")


def case_exh(ctx, inp):
    """every completion order of one small dag (stateless exploration, each order diffed against the model)"""
    count = [0]

    def run_with(prefix, branching):
        sub = dict(inp, choices=prefix)
        out = U.run_trace(ctx, sub)
        branching.extend(out["real"]["branching"])
        _oracle_values(ctx, out, sub)
        count[0] += 1
    n = U.enumerate_schedules(run_with, limit=inp.get("limit", 400))
    ctx.note("schedules_enumerated", n)
    if n > 1:
        ctx.branch("exh:several-orders")


def _timed(name, fn):
    import time

    def run(ctx, inp):
        t = time.time()
        try:
            fn(ctx, inp)
        finally:
            ctx.note("seconds_" + name + (":" + inp["sched"] if name == "api" else ""), round(time.time() - t, 3))
    return run


CASES = {k: _timed(k, f) for k, f in {"trace": case_trace, "start": case_start, "api": case_api, "exh": case_exh,
                                      "nested": case_nested}.items()}


def _gen_cache0(rng, dag, sound=False):
    """a caller-supplied cache: mostly the right values (what the keys denote), for task keys, data keys, aliases and -
    when the graph refers to keys it does not contain - for those; sometimes 0 (a false value), sometimes a wrong value"""
    ev = U.reference_eval(dag)
    out = {}
    n = len(dag["nodes"])
    for i in rng.sample(range(n), rng.randint(1, min(3, n))):
        v = ev(i)
        if not isinstance(v, int) or (not sound and rng.random() < 0.15):
            v = rng.choice([0, 0, 7, 12345])
        out[str(i)] = v
    for i, nd in enumerate(dag["nodes"]):
        if nd[0] == "x" and rng.random() < 0.7:
            out[str(i)] = rng.choice([0, 4, 99])
    return out


def _small_dags(n):
    for nodes in U.all_dags(n):
        yield nodes


def generate(ctx):
    rng = ctx.rng
    # the recorded defect (fixed): chunksize=-1 with ready empty while a task runs
    yield "trace", {"dag": {"nodes": [["t", [], []], ["t", [], []], ["t", [0, 1], [0, 1]]], "keys": "str", "style": "legacy"},
                    "req": 2, "nw": 2, "cs": -1, "fails": {}, "choices": [0, 0, 0], "seed": 0, "bias": None}
    for _ in range(ctx.n(1500, 8000)):
        inp = U.gen_trace_input(rng, max_n=rng.choice([4, 7, 10, 14]), fail_p=0.0, missing_p=0.03)
        if rng.random() < 0.12:
            inp["cache0"] = _gen_cache0(rng, inp["dag"])
        yield "trace", inp
    for _ in range(ctx.n(300, 3000)):
        inp = U.gen_trace_input(rng, max_n=rng.choice([3, 6, 10]), missing_p=0.15)
        yield "start", {"dag": inp["dag"], "req": inp["req"]}
        if rng.random() < 0.1:
            yield "start", {"dag": inp["dag"], "req": []}
        if rng.random() < 0.3:
            yield "start", {"dag": inp["dag"], "req": inp["req"], "cache0": _gen_cache0(rng, inp["dag"]),
                            "keys_none": rng.random() < 0.3}
    scheds = ["sync", "sync", "threaded", "threaded", "threadpool", "threaded-in-thread", "pool-arg", "apply_async"]
    for i in range(ctx.n(80, 1200)):
        inp = U.gen_trace_input(rng, max_n=rng.choice([6, 12, 25, 40]))
        yield "api", {"dag": inp["dag"], "req": inp["req"], "sched": rng.choice(scheds), "nw": rng.choice([1, 2, 3, 4, 8]),
                      "cs": rng.choice([1, 2, 5, -1]), "seed": rng.randrange(1 << 30),
                      "entry": rng.choice(["dask.get", "get_sync"])}
    for i in range(ctx.n(12, 150)):
        inp = U.gen_trace_input(rng, max_n=rng.choice([5, 10, 20]))
        yield "api", {"dag": inp["dag"], "req": inp["req"], "sched": rng.choice(["sync", "threaded"]), "nw": rng.choice([1, 2, 4]),
                      "cs": rng.choice([1, 2, -1]), "seed": rng.randrange(1 << 30), "entry": "get_sync",
                      "cache0": _gen_cache0(rng, inp["dag"], sound=True)}
    for sched in ("sync", "sync", "threaded", "threaded", "threadpool", "sync"):
        inp = U.gen_trace_input(rng, max_n=rng.choice([4, 9]))
        yield "api", {"dag": inp["dag"], "req": rng.choice([[], [[], []], [[]]]), "sched": sched, "nw": rng.choice([1, 2, 4]),
                      "cs": rng.choice([1, 2, -1]), "seed": 1, "entry": rng.choice(["dask.get", "get_sync"])}
    for i in range(ctx.n(3, 12)):
        inp = U.gen_trace_input(rng, max_n=rng.choice([5, 10]))
        inp["dag"]["keys"] = rng.choice(["str", "tuple", "falsy"])
        yield "api", {"dag": inp["dag"], "req": inp["req"], "sched": "mp", "nw": 2, "cs": rng.choice([1, 6, -1]),
                      "seed": 0, "optimize": rng.random() < 0.5}
    # nested_get at function level: random nestings + every nesting of depth <= 2 over <= 2 keys
    def gen_nest(depth):
        if depth == 0 or rng.random() < 0.45:
            return rng.randrange(5)
        return [gen_nest(depth - 1) for _ in range(rng.choice([0, 0, 1, 2, 3]))]
    for _ in range(ctx.n(250, 2500)):
        req = gen_nest(rng.randint(0, 3))
        flat = sorted(set(U.flatten_req(req)))
        known = [i for i in range(5) if i in flat or rng.random() < 0.5]
        if flat and rng.random() < 0.1:
            known.remove(rng.choice(flat))
        yield "nested", {"req": req, "known": known, "keys": rng.choice(["falsy", "falsy", "str", "tuple", "int"]), "n": 5}
    small = [0, 1, [], [0], [1], [0, 1], [[]], [[], []], [[0]], [[0], []], [[], [0]], [[0], [1]], [[0, 1]], [0, [1]], [[0], 1], [[[]]], [[[0]]]]
    for req in small:
        for kind in ("falsy", "str"):
            yield "nested", {"req": req, "known": [0, 1], "keys": kind, "n": 2}
    # exhaustive small spaces: every dag <= 3 nodes + a sample of the 4-node ones (quick) / every dag <= 4
    # nodes + a sample of the 5-node ones (thorough); the last key and all keys requested; EVERY completion order
    for n in range(1, 6 if ctx.thorough() else 5):
        dags = list(_small_dags(n)) if n <= 4 else None
        if dags is None:
            allc = list(_small_dags(5))
            dags = rng.sample(allc, 300)
        elif n == 4 and not ctx.thorough():
            dags = rng.sample(dags, 150)
        for nodes in dags:
            dag = {"nodes": nodes, "keys": rng.choice(["str", "tuple", "int", "falsy"]), "style": rng.choice(["legacy", "spec", "mixed"])}
            for req in ([n - 1], list(range(n)), rng.choice([[], [[], []], [[], [0]], n - 1, n - 1])):
                yield "exh", {"dag": dag, "req": req, "nw": rng.choice([1, 2, 3]), "cs": rng.choice([1, 2, -1]),
                              "fails": {}, "seed": 0, "bias": None, "limit": 300}


def search(ctx):
    rng = ctx.rng
    for _ in range(ctx.n(2000, 8000)):
        yield "trace", U.gen_trace_input(rng, max_n=rng.choice([4, 7, 10]), fail_p=0.0, missing_p=0.0)
