"""C01 — local schedulers compute exactly the values the task graph denotes.

Model:    lean/DaskModel/Model/Sched.lean  (get_async of dask/local.py: start_state_from_dask, fire_tasks
          incl. the chunksize=-1 branch, finish_task, release_data, the main loop, nested_get)
Theorems: lean/DaskModel/Props/C01.lean (+ Lemmas/Sched*.lean)
Tie:      `trace`  — get_async under the *controlled executor* (completion order = input), the real `state`
                     dict at every start_state/pretask/submit/posttask/finish point diffed against the
                     model driven by the same adversary choices; results vs recursive evaluation;
          `start`  — start_state_from_dask alone (function level), incl. malformed graphs;
          `api`    — dask.get / dask.threaded.get / get_async+ThreadPoolExecutor / dask.multiprocessing.get
                     on random DAGs (tasks, literals, aliases, nested list arguments, legacy tuples and
                     Task objects) vs a plain recursive evaluator and vs the Lean `denote`;
          `exh`    — (thorough) every completion order of every small DAG;
          `warm`   — get_async(cache=cache0) on random DAGs with caches by class (empty, leaves, interior, requested,
                     data, mixture, unsound): the run with the cache (every callback state diffed against getAsyncC)
                     vs the run without it vs the driver op warm_plan (sound / executed keys / visited keys);
          `exhwarm`— every completion order of a sample of small DAGs with every sound cache over <= 2 keys.
"""
from __future__ import annotations

import random

from sexp import Sym

from props import _sched_util as U

PROP = "C01"
READY = True
DRIVER = "dm_sched"
LEAN_MODULES = ["DaskModel.Props.C01", "DaskModel.Props.C01xCache"]
CASE_TIMEOUT_S = 30
LEVEL_TEXT = (
    "Lean 4 theorems over an executable transliteration of dask.local.get_async (symbolic values, arbitrary "
    "priorities): for every acyclic graph, num_workers >= 1, chunksize in {-1} U N+ and EVERY order in which "
    "outstanding batches complete, the main loop never raises an internal error (KeyError/AssertionError/"
    "ZeroDivisionError/IndexError) and never waits on an empty queue (sched_no_internal_error, sched_progress), "
    "every cached value is the recursively evaluated value (sched_cache_sound), the loop ends within #keys "
    "iterations (sched_terminates), and nested_get returns the denoted values in the request's nesting "
    "(sched_result, getAsync_result); the recursive evaluation is a well-defined unique fixed point "
    "(den_fixpoint, den_unique). start_state_from_dask (explicit-stack traversal, transliterated) is proved to "
    "terminate within its fuel, never to raise on a closed graph and to establish the scheduler invariant "
    "(start_ok = Sched.startState_ok; the visited keys are exactly those reachable from the request, "
    "seen_iff_reachable), nested_get keeps the request's nesting (nestedGet_shape), the FIFO adversary = the "
    "synchronous scheduler is never rejected and ends within #keys iterations (sync_scheduler_terminates), so "
    "get_async_correct states the property with no hypothesis beyond: graph acyclic and closed, dependencies listed "
    "once, requested keys present (GraphOK/Hyp: both shown satisfiable by examples). A CALLER-SUPPLIED cache= "
    "(Props/C01xCache over the model startStateC/getAsyncC): for EVERY cache, sound or not, every acyclic graph closed modulo "
    "the cache and every completion order the call never raises an internal error, terminates and returns what the WARM "
    "graph denotes - the graph in which every cached key is a constant (get_async_with_cache_denotes_warm) - and executes, "
    "each at most once, only tasks that are not cached and are reachable from the request without passing through a cached "
    "key, on success exactly those (cached_tasks_not_run); if every cached key holds the value the graph denotes for it "
    "(CacheSound) the warm graph denotes what the graph denotes (den_warm_eq), so the result is the recursive evaluation and "
    "equals, as a packed result, that of the run without the cache under any two completion orders "
    "(get_async_with_cache_correct, cached_run_eq_uncached_run, cached_run_executes_subset); without CacheSound this fails "
    "(witness unsound_cache_refuted: cache={1: 5} on the diamond returns 512 instead of 614). Proof: a loop invariant of the "
    "traversal started from the cache (Lemmas/SchedWarm1-3: startStateC_ok), a frame lemma (cache entries the traversal did "
    "not visit never matter: mainLoop_frame) and the fact that the loop never looks at the graph (mainLoop_warm). PROVED FOR "
    "ALL INPUTS: the above. VALIDATED ONLY (differential tie, no theorem): the real `state` dict vs the "
    "model at every callback of get_async under a controlled executor with the same adversary choices (also with cache=: "
    "sections trace, warm, exhwarm - caches holding nothing, leaves, interior tasks, requested keys, data keys, mixtures, "
    "wrong values; executed keys vs the model run and vs the theorem's prediction warm_plan); "
    "start_state_from_dask, finish_task, release_data, nested_get at function level; keys that are false in a boolean "
    "context (0, '', (), b''); the keys=None default of start_state_from_dask with a cache; the threaded, ThreadPoolExecutor "
    "and multiprocessing schedulers at API level.")
LEVEL_NOTE = (
    "OS thread / process timing is NOT modelled: the model quantifies over every order in which outstanding "
    "batches may complete (adversary), the real executors (ThreadPoolExecutor, ProcessPoolExecutor, Queue, "
    "pickling of tasks for multiprocessing, dask.threaded's per-thread pool table) are trusted to deliver some such "
    "order and are exercised only by the API-level differential runs. Trusted: Lean kernel + propext/Classical.choice/"
    "Quot.sound; the correspondence harness; dask.order (priorities are an arbitrary parameter of the model; the harness "
    "feeds the real ones; runs with priority ties skip the state diff); convert_legacy_graph (C08) for the rendering of "
    "legacy graphs. Review round: three crashes of the cache= option (a key of the graph already in the cache) were "
    "repaired in /repo (d3f7a74).")
TECHNIQUE = "Lean 4 invariant proof over an adversarial state machine + differential state-trace correspondence under a controlled executor"
ASSUMPTIONS = ["tasks are pure functions of their dependency values (symbolic `apply`)",
               "a caller-supplied `cache=` mapping is a plain dict whose entries only get_async touches during the call; for a cached key that is not a key of the graph 'the value the graph denotes' is the free parameter P.dataVal k (instantiate it with the cached value)",
               "graphs are closed (every dependency is a key of the graph) - dask raises 'Missing dependency' otherwise (malformed stream)"]
TRUSTED = ["concurrent.futures / threading / multiprocessing deliver completions in SOME order (adversarial order is modelled, timing is not)"]


# ------------------------------------------------------------------------------------------------
def _oracle_values(ctx, out, inp):
    """results == recursive evaluation, same nesting; unexpected errors are property failures"""
    real, dag = out["real"], out["dag"]
    fails = out["fails"]
    ev = U.reference_eval(dag, fails, inp.get("cache0"))
    flat = out["flat_ids"]
    expect = {i: ev(i) for i in flat}
    c0 = {int(k) for k in (inp.get("cache0") or {})}
    missing = any(isinstance(v, tuple) and v[0] == "missing" for v in expect.values()) or \
        any(nd[0] == "x" and i not in c0 for i, nd in enumerate(dag["nodes"]))
    err = real["error"]
    if err is not None:
        if isinstance(err, U.Hang):
            if not missing:
                ctx.fail("get_async would block for ever (nothing outstanding, loop condition true)", observed="hang")
            else:
                ctx.branch("malformed:hang")
            return
        cls = U.classify_error(err)
        if cls[0] == "failed":
            return  # a failing task: C04's business
        if missing:
            ctx.branch("malformed:" + type(err).__name__)
            return
        ctx.fail(f"get_async raised {type(err).__name__}: {err} on a well-formed acyclic graph",
                 observed=f"{type(err).__name__}: {err}")
        return
    if any(isinstance(v, tuple) for v in expect.values()):
        if not missing:
            ctx.fail("get_async returned although a needed task raises", observed=repr(real["result"])[:200])
        return
    want = U.map_req(inp["req"], lambda i: expect[i])
    got = real["result"]
    if not U.same_nesting(inp["req"], got):
        ctx.fail("result is not packed in the nesting of the request", observed=repr(got)[:200], expected=want)
    elif U._tuple_to_list(got) != U._tuple_to_list(want):
        ctx.fail("scheduler result differs from the recursive evaluation of the graph",
                 observed=U._tuple_to_list(got), expected=U._tuple_to_list(want))
    if real["left_pending"]:
        ctx.fail("get_async returned while submitted batches were never completed", observed=real["left_pending"])


def case_trace(ctx, inp):
    out = U.run_trace(ctx, inp)
    _oracle_values(ctx, out, inp)
    real = out["real"]
    if inp["cs"] == -1:
        ctx.branch("chunksize=-1")
    elif inp["cs"] > 1:
        ctx.branch("chunksize>1")
    if any(len(b) > 1 for b in real["submits"]):
        ctx.branch("batch>1")
    if len(real["choices"]) >= 2 and any(c > 0 for c in real["choices"]):
        ctx.branch("non-fifo-completion")
    if isinstance(inp["req"], list) and any(isinstance(r, list) for r in inp["req"]):
        ctx.branch("nested-request")
    if not out["flat_ids"]:
        ctx.branch("empty-request")
    elif all(inp["dag"]["nodes"][i][0] == "d" for i in out["flat_ids"]):
        ctx.branch("data-only-request")
    if any(nd[0] == "a" for nd in inp["dag"]["nodes"]):
        ctx.branch("alias")
    if any(not out["keys"][i] for i in out["flat_ids"]):
        ctx.branch("falsy-key-requested")
    if inp.get("cache0"):
        ctx.branch("warm-cache")
        c0 = {int(k) for k in inp["cache0"]}
        if any(inp["dag"]["nodes"][i][0] == "t" for i in c0):
            ctx.branch("warm-cache:task-key-cached")
        if any(inp["dag"]["nodes"][i][0] == "x" for i in c0):
            ctx.branch("warm-cache:key-outside-the-graph")
        if any(v == 0 for v in inp["cache0"].values()):
            ctx.branch("warm-cache:falsy-value")
    if out.get("model") and out["model"]["outcome"][0] == "done" and not inp.get("cache0"):
        # Lean denote == python reference on the requested keys
        den = ctx.lean(Sym("denote"), U.enc_nodes(inp["dag"]), out["flat_ids"])
        ctx.eq("Lean denote vs scheduler result", [d for d in den], [x for x in out["model"]["result"]])


def case_start(ctx, inp):
    """start_state_from_dask alone, function level"""
    from dask._task_spec import convert_legacy_graph
    from dask.local import start_state_from_dask
    from dask.order import order
    dag, req = inp["dag"], inp["req"]
    dsk, keys = U.render(dag)
    idof = {k: i for i, k in enumerate(keys)}
    flat = list(U.flatten_req(req))
    conv = convert_legacy_graph(dsk)
    try:
        o = order(conv)
    except Exception as e:
        ctx.note("order_raised:" + type(e).__name__)
        return
    prio = sorted([idof[k], int(v)] for k, v in o.items())
    ties = len({p for _, p in prio}) != len(prio)
    cache0 = {int(k): v for k, v in (inp.get("cache0") or {}).items()}
    keys_none = bool(inp.get("keys_none"))
    try:
        st = start_state_from_dask(conv, keys=None if keys_none else {keys[i] for i in flat},
                                   cache={keys[i]: v for i, v in cache0.items()} if cache0 else None, sortkey=o.get)
        impl = [Sym("ok"), U.ser_state(st, idof)]
    except ValueError as e:
        impl = [Sym("raised"), [Sym("missingDep")]] if "Missing dependency" in str(e) else [Sym("raised"), [Sym("ValueError")]]
    except KeyError:
        impl = [Sym("raised"), [Sym("keyError")]]
        if not any(nd[0] == "x" for nd in dag["nodes"]):
            ctx.fail("start_state_from_dask raised KeyError on a closed graph", observed="KeyError")
    if cache0 or keys_none:
        model = ctx.lean(Sym("start_state"), U.enc_nodes(dag), flat, prio, sorted([k, v] for k, v in cache0.items()), keys_none)
        if cache0:
            ctx.branch("start:warm-cache")
        if keys_none:
            ctx.branch("start:keys=None")
    else:
        model = ctx.lean(Sym("start_state"), U.enc_nodes(dag), flat, prio)
    if model[0] == "raised":
        model = [model[0], [model[1][0]]]
        ctx.branch("start:raised")
    if ties:
        ctx.note("priority_ties")
        if impl[0] == "ok" and model[0] == "ok":
            impl[1][5] = sorted(impl[1][5])
            model[1][5] = sorted(model[1][5])
    ctx.eq("start_state_from_dask", model, impl)
    if impl[0] == "ok":
        s = impl[1]
        if s[2]:
            ctx.branch("start:waiting")
        if len(s[5]) > 1:
            ctx.branch("start:several-ready")
        if s[4]:
            ctx.branch("start:data-cached")


def case_nested(ctx, inp):
    """nested_get(ind, coll) at function level: any nesting (empty lists, lists of empty lists, single keys), every key
    flavour incl. keys that are false in a boolean context, requested keys missing from the collection (KeyError)"""
    from dask.local import nested_get
    req, known, kind, n = inp["req"], inp["known"], inp["keys"], inp["n"]
    keys = [U.key_of(i, kind, n) for i in range(n)]
    coll = {keys[i]: 7 * i + 1 for i in known}
    ind = U.map_req(req, lambda i: keys[i])
    try:
        got = nested_get(ind, coll)
        impl = [Sym("ok"), U._tuple_to_list(got)]
        if not U.same_nesting(req, got):
            ctx.fail("nested_get does not pack the values in the nesting of the request", observed=repr(got)[:200],
                     expected=repr(U.map_req(req, lambda i: 7 * i + 1))[:200])
        elif U._tuple_to_list(got) != U.map_req(req, lambda i: 7 * i + 1):
            ctx.fail("nested_get returns other values than coll[key] for the requested keys", observed=repr(got)[:200],
                     expected=repr(U.map_req(req, lambda i: 7 * i + 1))[:200])
    except KeyError:
        impl = [Sym("raised")]
        if all(i in known for i in U.flatten_req(req)):
            ctx.fail("nested_get raised KeyError although every requested key is in the collection", observed="KeyError")
        ctx.branch("nested:KeyError")
    model = ctx.lean(Sym("nested_get"), req, sorted(known))
    ctx.eq("nested_get", model, impl)
    flat = list(U.flatten_req(req))
    if not isinstance(req, list):
        ctx.branch("nested:single-key")
    elif not flat:
        ctx.branch("nested:no-key-at-all")
    if isinstance(req, list) and any(isinstance(r, list) for r in req):
        ctx.branch("nested:depth>=2")
    if any(not keys[i] for i in flat):
        ctx.branch("nested:falsy-key-requested")


_POOLS = {}


def _pool(n):
    from concurrent.futures import ThreadPoolExecutor
    if n not in _POOLS:
        _POOLS[n] = ThreadPoolExecutor(n)
    return _POOLS[n]


_TPOOLS = {}


def _tpool(n):
    import multiprocessing.pool
    if n not in _TPOOLS:
        _TPOOLS[n] = multiprocessing.pool.ThreadPool(n)
    return _TPOOLS[n]


def run_custom(sched, dsk, real_req, nw, cs, **kw):
    """the other ways into get_async: dask.threaded.get called from a helper thread (its per-thread pool table and the
    clean-up of pools of finished threads), dask.threaded.get(pool=<multiprocessing.pool.ThreadPool>) (wrapped in
    MultiprocessingPoolExecutor), dask.local.get_apply_async (submit_apply_async, default pack_exception)"""
    import threading

    from dask.local import get_apply_async
    from dask.threaded import get as tget
    if sched == "pool-arg":
        return tget(dsk, real_req, pool=_tpool(nw), chunksize=cs, **kw)
    if sched == "apply_async":
        return get_apply_async(_tpool(nw).apply_async, nw, dsk, real_req, chunksize=cs, **kw)
    box = {}

    def target():
        try:
            box["r"] = tget(dsk, real_req, num_workers=nw, chunksize=cs, **kw)
        except BaseException as e:   # handed back to the caller's thread
            box["e"] = e
    t = threading.Thread(target=target)
    t.start()
    t.join()
    if "e" in box:
        raise box["e"]
    return box["r"]


def case_api(ctx, inp):
    """the public schedulers on a random DAG vs the recursive evaluator and the Lean denote"""
    import dask
    from dask.local import get_async, get_sync
    dag, req, sched, nw, cs = inp["dag"], inp["req"], inp["sched"], inp["nw"], inp["cs"]
    rng = random.Random(inp.get("seed", 0))
    tasks = [i for i, nd in enumerate(dag["nodes"]) if nd[0] == "t"]
    delays = {i: rng.choice([0, 0, 0.0005, 0.002]) for i in tasks} if sched not in ("sync", "mp") else {}
    dsk, keys = U.render(dag, None, delays)
    real_req = U.map_req(req, lambda i: keys[i])
    ev = U.reference_eval(dag, None, inp.get("cache0"))
    want = U.map_req(req, ev)
    ckw = {"cache": {keys[int(i)]: v for i, v in inp["cache0"].items()}} if inp.get("cache0") else {}
    try:
        if sched == "sync":
            got = dask.get(dsk, real_req) if inp.get("entry") == "dask.get" and not ckw else get_sync(dsk, real_req, chunksize=cs, **ckw)
        elif sched == "threaded":
            from dask.threaded import get as tget
            got = tget(dsk, real_req, num_workers=nw, chunksize=cs, **ckw)
        elif sched == "threadpool":
            from dask.threaded import pack_exception
            pool = _pool(nw)
            got = get_async(pool.submit, nw, dsk, real_req, chunksize=cs, pack_exception=pack_exception)
        elif sched == "mp":
            from dask.multiprocessing import get as mget
            got = mget(dsk, real_req, num_workers=nw, chunksize=cs, optimize_graph=inp.get("optimize", True))
        elif sched in ("threaded-in-thread", "pool-arg", "apply_async"):
            got = run_custom(sched, dsk, real_req, nw, cs)
        else:
            raise AssertionError(sched)
    except Exception as e:
        ctx.fail(f"{sched} scheduler raised {type(e).__name__}: {e} on a well-formed acyclic graph",
                 observed=f"{type(e).__name__}: {str(e)[:200]}")
        return
    ctx.branch("api:" + sched)
    if cs == -1:
        ctx.branch("api:chunksize=-1")
    flat0 = list(U.flatten_req(req))
    if not flat0:
        ctx.branch("api:empty-request")
    if any(not keys[i] for i in flat0):
        ctx.branch("api:falsy-key-requested")
    if sched != "mp":
        # executed task keys == the tasks reachable from the request, each exactly once
        execs = sorted(k for k, *_ in U.exec_log())
        need = sorted(i for i in U.needed_ids(dag, flat0, inp.get("cache0")) if dag["nodes"][i][0] == "t"
                      and str(i) not in (inp.get("cache0") or {}))
        if execs != need:
            ctx.fail(f"{sched}: executed tasks are not exactly the tasks needed for the request (each once)",
                     observed=execs, expected=need)
    if not U.same_nesting(req, got):
        ctx.fail(f"{sched}: result not packed in the nesting of the request", observed=repr(got)[:200], expected=want)
    elif U._tuple_to_list(got) != U._tuple_to_list(want):
        ctx.fail(f"{sched}: result differs from the recursive evaluation", observed=U._tuple_to_list(got),
                 expected=U._tuple_to_list(want))
    flat = list(U.flatten_req(req))
    if not inp.get("cache0"):
        den = ctx.lean(Sym("denote"), U.enc_nodes(dag), flat)
        ctx.eq("Lean denote vs python recursive evaluation", den, [ev(i) for i in flat])
    else:
        ctx.branch("api:warm-cache")


def case_exh(ctx, inp):
    """every completion order of one small dag (stateless exploration, each order diffed against the model)"""
    count = [0]

    def run_with(prefix, branching):
        sub = dict(inp, choices=prefix)
        out = U.run_trace(ctx, sub)
        branching.extend(out["real"]["branching"])
        _oracle_values(ctx, out, sub)
        count[0] += 1
    n = U.enumerate_schedules(run_with, limit=inp.get("limit", 400))
    ctx.note("schedules_enumerated", n)
    if n > 1:
        ctx.branch("exh:several-orders")


# ------------------------------------------------------------------------------------------------
# caller-supplied (warm) caches: get_async(..., cache=cache0)
# ------------------------------------------------------------------------------------------------
def _pretask_ids(events):
    """ids get_async hands to a worker (pretask callback), in order: Task AND Alias nodes (both are run as tasks)"""
    return [e[1] for e, _ in events if str(e[0]) == "pretask"]


def _warm_plan(ctx, dag, flat, cache0):
    """[sound, exec, reach] predicted by the warm-cache theorems (driver op warm_plan)"""
    return ctx.lean(Sym("warm_plan"), U.enc_nodes(dag), list(flat), sorted([int(k), v] for k, v in (cache0 or {}).items()))


def _cold_input(inp):
    return {k: v for k, v in inp.items() if k not in ("cache0", "empty_cache_arg")}


def _warm_oracles(ctx, inp, out, cold_real, plan, sound_py):
    """the clauses of the warm-cache theorem evaluated on ONE controlled run `out` of get_async(cache=cache0), given one run
    `cold_real` of the same graph/request without the cache and the prediction `plan` of the Lean side.
    (The value oracle - result == evaluation that takes the cached values for granted, no exception, packing - is
    _oracle_values.)  Returns False when the run raised."""
    real, dag = out["real"], inp["dag"]
    if real["error"] is not None or cold_real["error"] is not None:
        return False
    cached = {int(k) for k in (inp.get("cache0") or {})}
    _, exec_m, _ = plan
    exec_m = list(exec_m)
    pre = _pretask_ids(real["events"])
    cold_pre = _pretask_ids(cold_real["events"])
    ran = sorted(k for k, *_ in real["exec_log"])
    tag = "sound" if sound_py else "unsound"
    if sorted(pre) != exec_m:
        ctx.fail(f"get_async(cache=<{tag}>): the keys handed to workers are not exactly (each once) the uncached tasks "
                 "reachable from the request without passing through a cached key", observed=sorted(pre), expected=exec_m)
    want_ran = [i for i in exec_m if dag["nodes"][i][0] == "t"]
    if ran != want_ran:
        ctx.fail(f"get_async(cache=<{tag}>): the task functions that were called are not exactly (each once) the uncached "
                 "tasks reachable from the request without passing through a cached key", observed=ran, expected=want_ran)
    hit = sorted((set(pre) | set(ran)) & cached)
    if hit:
        ctx.fail(f"get_async(cache=<{tag}>): a key whose value the caller supplied was executed", observed=hit, expected=[])
    extra = sorted(set(pre) - set(cold_pre))
    if extra:
        ctx.fail(f"get_async(cache=<{tag}>): the run with the cache executes tasks the run without it does not",
                 observed=extra, expected=[])
    if sound_py:
        got, cold_got = real["result"], cold_real["result"]
        if not U.same_nesting(inp["req"], got) or U._tuple_to_list(got) != U._tuple_to_list(cold_got):
            ctx.fail("a SOUND caller-supplied cache changes the result of get_async", observed=U._tuple_to_list(got),
                     expected=U._tuple_to_list(cold_got))
    m = out.get("model")
    if m and str(m["outcome"][0]) == "done":
        ctx.eq("keys the model run (getAsyncC) hands to workers vs warm_plan exec", exec_m,
               sorted(_pretask_ids(m["log"])))
    return True


def case_warm(ctx, inp):
    """get_async(cache=cache0) under the controlled executor (every callback state diffed against getAsyncC by run_trace)
    + the same graph/request/adversary policy without the cache + the prediction of the warm-cache theorems"""
    dag, req = inp["dag"], inp["req"]
    cache0 = {int(k): v for k, v in (inp.get("cache0") or {}).items()}
    ctx.branch("warm:" + str(inp.get("cls", "unclassified")))
    out = U.run_trace(ctx, inp)
    cold_inp = _cold_input(inp)
    cold = U.run_trace(ctx, cold_inp, diff=False)
    flat = out["flat_ids"]
    ev = U.reference_eval(dag)
    sound_py = all(ev(k) == v for k, v in cache0.items())
    plan = _warm_plan(ctx, dag, flat, cache0)
    ctx.eq("warm_plan sound (Lean denote) vs the cached values == python recursive evaluation", plan[0], sound_py)
    # value oracle (both runs): no exception, packing, result == evaluation taking the cached values for granted
    _oracle_values(ctx, out, inp)
    _oracle_values(ctx, cold, cold_inp)
    real, cold_real = out["real"], cold["real"]
    # keys start_state_from_dask visits == reach of the warm graph
    st = next((s for e, s in real["events"] if str(e[0]) == "start_state"), None)
    if st is not None:
        ctx.eq("keys visited by start_state_from_dask (state['dependencies']) vs warm_plan reach", list(plan[2]),
               [k for k, _ in st[0]])
    if not _warm_oracles(ctx, inp, out, cold_real, plan, sound_py):
        return
    # the run without a cache executes what the theorem predicts for the empty cache
    plan0 = _warm_plan(ctx, dag, flat, {})
    cold_pre = _pretask_ids(cold_real["events"])
    if sorted(cold_pre) != list(plan0[1]):
        ctx.fail("get_async without cache: the keys handed to workers are not exactly (each once) the tasks reachable from "
                 "the request", observed=sorted(cold_pre), expected=list(plan0[1]))
    pre = _pretask_ids(real["events"])
    if not sound_py:
        if U._tuple_to_list(real["result"]) != U._tuple_to_list(cold_real["result"]):
            ctx.branch("warm:unsound-changes-result")
        if any(v == 0 for v in cache0.values()):
            ctx.branch("warm:unsound-falsy-value")
    if "empty_cache_arg" in inp and not cache0:
        ctx.branch("warm:cache={}-passed")
    if len(pre) < len(cold_pre):
        ctx.branch("warm:tasks-skipped")
        if not pre:
            ctx.branch("warm:nothing-executed")
    if cache0 and any(k not in plan[2] for k in cache0):
        ctx.branch("warm:cached-key-not-reached")
    if any(dag["nodes"][k][0] == "a" for k in cache0):
        ctx.branch("warm:alias-key-cached")
    if sound_py and any(v == 0 for v in cache0.values()):
        ctx.branch("warm:sound-falsy-value")
    if out["ties"]:
        ctx.branch("warm:priority-ties(state diff skipped)")
    if any(c > 0 for c in real["choices"]):
        ctx.branch("warm:non-fifo-completion")


def case_exhwarm(ctx, inp):
    """EVERY completion order of one small dag with one sound cache: each order diffed against getAsyncC (run_trace), result
    == the result without the cache, executed keys == warm_plan exec"""
    dag = inp["dag"]
    cache0 = {int(k): v for k, v in (inp.get("cache0") or {}).items()}
    ev = U.reference_eval(dag)
    sound_py = all(ev(k) == v for k, v in cache0.items())
    cold_inp = dict(_cold_input(inp), choices=[])
    cold = U.run_trace(ctx, cold_inp, diff=False)
    _oracle_values(ctx, cold, cold_inp)
    flat = cold["flat_ids"]
    plan = _warm_plan(ctx, dag, flat, cache0)
    ctx.eq("warm_plan sound (Lean denote) vs the cached values == python recursive evaluation", plan[0], sound_py)
    skipped = [False]

    def run_with(prefix, branching):
        sub = dict(inp, choices=prefix)
        out = U.run_trace(ctx, sub)
        branching.extend(out["real"]["branching"])
        _oracle_values(ctx, out, sub)
        if _warm_oracles(ctx, sub, out, cold["real"], plan, sound_py):
            if len(_pretask_ids(out["real"]["events"])) < len(_pretask_ids(cold["real"]["events"])):
                skipped[0] = True
    n = U.enumerate_schedules(run_with, limit=inp.get("limit", 200))
    ctx.note("warm_schedules_enumerated", n)
    ctx.branch("exhwarm:cache-size-%d" % len(cache0))
    if n > 1:
        ctx.branch("exhwarm:several-orders")
    if skipped[0]:
        ctx.branch("exhwarm:tasks-skipped")


def _timed(name, fn):
    import time

    def run(ctx, inp):
        t = time.time()
        try:
            fn(ctx, inp)
        finally:
            ctx.note("seconds_" + name + (":" + inp["sched"] if name == "api" else ""), round(time.time() - t, 3))
    return run


CASES = {k: _timed(k, f) for k, f in {"trace": case_trace, "start": case_start, "api": case_api, "exh": case_exh,
                                      "nested": case_nested, "warm": case_warm, "exhwarm": case_exhwarm}.items()}


def _gen_cache0(rng, dag, sound=False):
    """a caller-supplied cache: mostly the right values (what the keys denote), for task keys, data keys, aliases and -
    when the graph refers to keys it does not contain - for those; sometimes 0 (a false value), sometimes a wrong value"""
    ev = U.reference_eval(dag)
    out = {}
    n = len(dag["nodes"])
    for i in rng.sample(range(n), rng.randint(1, min(3, n))):
        v = ev(i)
        if not isinstance(v, int) or (not sound and rng.random() < 0.15):
            v = rng.choice([0, 0, 7, 12345])
        out[str(i)] = v
    for i, nd in enumerate(dag["nodes"]):
        if nd[0] == "x" and rng.random() < 0.7:
            out[str(i)] = rng.choice([0, 4, 99])
    return out


WARM_CLASSES = ["empty", "leaves", "interior", "requested", "data", "mixture", "unsound"]
_WARM_WEIGHTED = ["empty"] + ["leaves"] * 3 + ["interior"] * 4 + ["requested"] * 3 + ["data"] * 2 + ["mixture"] * 4 + ["unsound"] * 4


def _gen_warm_cache(rng, dag, flat, want):
    """a caller-supplied cache of class `want` for the well-formed `dag` and the requested ids `flat`; returns (class, cache0) -
    the class actually produced (a class whose pool is empty for this dag/request falls back to `mixture`).
      empty      no key;
      leaves     dependency-free tasks (data keys when the dag has no such task);
      interior   tasks/aliases that have dependencies AND dependents;
      requested  some or all of the requested keys;
      data       DataNode keys;
      mixture    keys of several of the classes above / any keys;
      unsound    a sound cache of one of the classes above (possibly empty) + ONE task key holding a wrong int.
    Sound values are what the keys denote (U.reference_eval); keys in the part of the graph the request needs are preferred
    (a cached key nobody reaches is legal but changes nothing)."""
    nodes = dag["nodes"]
    n = len(nodes)
    ev = U.reference_eval(dag)
    ok = [i for i in range(n) if isinstance(ev(i), int) and not isinstance(ev(i), bool)]
    used = {d for i in range(n) for d in U.node_deps(dag, i)}
    needed = U.needed_ids(dag, flat)
    freetasks = [i for i in ok if nodes[i][0] == "t" and not nodes[i][1]]
    pools = {"leaves": freetasks or [i for i in ok if nodes[i][0] == "d"],
             "interior": [i for i in ok if nodes[i][0] in ("t", "a") and U.node_deps(dag, i) and i in used],
             "requested": sorted(set(flat) & set(ok)),
             "data": [i for i in ok if nodes[i][0] == "d"]}

    def pick(pool, kmax=3):
        near = [i for i in pool if i in needed]
        if near and rng.random() < 0.8:
            pool = near
        return rng.sample(pool, rng.randint(1, min(kmax, len(pool))))

    def sound(cls):
        if cls == "empty":
            return cls, []
        if cls == "requested" and pools["requested"] and rng.random() < 0.3:
            return cls, list(pools["requested"])                      # ALL requested keys: nothing is left to run
        if cls == "requested" and len(pools["requested"]) >= 2:
            return cls, pick(pools[cls], len(pools[cls]) - 1)         # SOME of them
        if cls in pools and pools[cls]:
            return cls, pick(pools[cls])
        ids = set()
        for c in rng.sample(sorted(pools), rng.randint(2, 3)):
            if c == "requested":
                if len(pools[c]) >= 2:
                    ids.update(pick(pools[c], 1))
            elif pools[c]:
                ids.update(pick(pools[c], 2))
        if not ids or rng.random() < 0.3:
            ids.update(pick(ok, 4))
        return "mixture", sorted(ids)

    if want != "unsound":
        cls, ids = sound(want)
        return cls, {str(i): ev(i) for i in ids}
    _, ids = sound(rng.choice(["empty", "empty", "leaves", "interior", "requested", "mixture"]))
    cache0 = {str(i): ev(i) for i in ids}
    tasks = [i for i in ok if nodes[i][0] == "t"] or ok
    near = [i for i in tasks if i in needed]
    inner = [i for i in near if i not in flat]        # a wrong value somebody consumes (not merely handed back)
    bad = rng.choice(inner if inner and rng.random() < 0.6 else near if near and rng.random() < 0.85 else tasks)
    v = ev(bad)
    cache0[str(bad)] = rng.choice([w for w in (0, 0, v + 1, v - 1, 7, 12345, -1) if w != v])
    return "unsound", cache0


def _small_dags(n):
    for nodes in U.all_dags(n):
        yield nodes


def generate(ctx):
    rng = ctx.rng
    # the recorded defect (fixed): chunksize=-1 with ready empty while a task runs
    yield "trace", {"dag": {"nodes": [["t", [], []], ["t", [], []], ["t", [0, 1], [0, 1]]], "keys": "str", "style": "legacy"},
                    "req": 2, "nw": 2, "cs": -1, "fails": {}, "choices": [0, 0, 0], "seed": 0, "bias": None}
    for _ in range(ctx.n(1500, 8000)):
        inp = U.gen_trace_input(rng, max_n=rng.choice([4, 7, 10, 14]), fail_p=0.0, missing_p=0.03)
        if rng.random() < 0.12:
            inp["cache0"] = _gen_cache0(rng, inp["dag"])
        yield "trace", inp
    for _ in range(ctx.n(300, 3000)):
        inp = U.gen_trace_input(rng, max_n=rng.choice([3, 6, 10]), missing_p=0.15)
        yield "start", {"dag": inp["dag"], "req": inp["req"]}
        if rng.random() < 0.1:
            yield "start", {"dag": inp["dag"], "req": []}
        if rng.random() < 0.3:
            yield "start", {"dag": inp["dag"], "req": inp["req"], "cache0": _gen_cache0(rng, inp["dag"]),
                            "keys_none": rng.random() < 0.3}
    scheds = ["sync", "sync", "threaded", "threaded", "threadpool", "threaded-in-thread", "pool-arg", "apply_async"]
    for i in range(ctx.n(80, 1200)):
        inp = U.gen_trace_input(rng, max_n=rng.choice([6, 12, 25, 40]))
        yield "api", {"dag": inp["dag"], "req": inp["req"], "sched": rng.choice(scheds), "nw": rng.choice([1, 2, 3, 4, 8]),
                      "cs": rng.choice([1, 2, 5, -1]), "seed": rng.randrange(1 << 30),
                      "entry": rng.choice(["dask.get", "get_sync"])}
    for i in range(ctx.n(12, 150)):
        inp = U.gen_trace_input(rng, max_n=rng.choice([5, 10, 20]))
        yield "api", {"dag": inp["dag"], "req": inp["req"], "sched": rng.choice(["sync", "threaded"]), "nw": rng.choice([1, 2, 4]),
                      "cs": rng.choice([1, 2, -1]), "seed": rng.randrange(1 << 30), "entry": "get_sync",
                      "cache0": _gen_cache0(rng, inp["dag"], sound=True)}
    for sched in ("sync", "sync", "threaded", "threaded", "threadpool", "sync"):
        inp = U.gen_trace_input(rng, max_n=rng.choice([4, 9]))
        yield "api", {"dag": inp["dag"], "req": rng.choice([[], [[], []], [[]]]), "sched": sched, "nw": rng.choice([1, 2, 4]),
                      "cs": rng.choice([1, 2, -1]), "seed": 1, "entry": rng.choice(["dask.get", "get_sync"])}
    for i in range(ctx.n(3, 12)):
        inp = U.gen_trace_input(rng, max_n=rng.choice([5, 10]))
        inp["dag"]["keys"] = rng.choice(["str", "tuple", "falsy"])
        yield "api", {"dag": inp["dag"], "req": inp["req"], "sched": "mp", "nw": 2, "cs": rng.choice([1, 6, -1]),
                      "seed": 0, "optimize": rng.random() < 0.5}
    # nested_get at function level: random nestings + every nesting of depth <= 2 over <= 2 keys
    def gen_nest(depth):
        if depth == 0 or rng.random() < 0.45:
            return rng.randrange(5)
        return [gen_nest(depth - 1) for _ in range(rng.choice([0, 0, 1, 2, 3]))]
    for _ in range(ctx.n(250, 2500)):
        req = gen_nest(rng.randint(0, 3))
        flat = sorted(set(U.flatten_req(req)))
        known = [i for i in range(5) if i in flat or rng.random() < 0.5]
        if flat and rng.random() < 0.1:
            known.remove(rng.choice(flat))
        yield "nested", {"req": req, "known": known, "keys": rng.choice(["falsy", "falsy", "str", "tuple", "int"]), "n": 5}
    small = [0, 1, [], [0], [1], [0, 1], [[]], [[], []], [[0]], [[0], []], [[], [0]], [[0], [1]], [[0, 1]], [0, [1]], [[0], 1], [[[]]], [[[0]]]]
    for req in small:
        for kind in ("falsy", "str"):
            yield "nested", {"req": req, "known": [0, 1], "keys": kind, "n": 2}
    # exhaustive small spaces: every dag <= 3 nodes + a sample of the 4-node ones (quick) / every dag <= 4
    # nodes + a sample of the 5-node ones (thorough); the last key and all keys requested; EVERY completion order
    for n in range(1, 6 if ctx.thorough() else 5):
        dags = list(_small_dags(n)) if n <= 4 else None
        if dags is None:
            allc = list(_small_dags(5))
            dags = rng.sample(allc, 300)
        elif n == 4 and not ctx.thorough():
            dags = rng.sample(dags, 150)
        for nodes in dags:
            dag = {"nodes": nodes, "keys": rng.choice(["str", "tuple", "int", "falsy"]), "style": rng.choice(["legacy", "spec", "mixed"])}
            for req in ([n - 1], list(range(n)), rng.choice([[], [[], []], [[], [0]], n - 1, n - 1])):
                yield "exh", {"dag": dag, "req": req, "nw": rng.choice([1, 2, 3]), "cs": rng.choice([1, 2, -1]),
                              "fails": {}, "seed": 0, "bias": None, "limit": 300}
    # ---- appended last (the rng streams of the sections above must not shift) ----
    # warm caches by class on random well-formed dags: with the cache (diffed against getAsyncC) vs without it vs warm_plan
    for j in range(ctx.n(250, 2500)):
        inp = U.gen_trace_input(rng, max_n=rng.choice([5, 8, 12, 16]), fail_p=0.0, missing_p=0.0)
        if rng.random() < 0.75 and not any(inp["dag"]["nodes"][i][0] != "d" for i in U.flatten_req(inp["req"])):
            # an empty / data-only request runs nothing with or without a cache: mostly ask for every sink instead
            used = {d for i in range(len(inp["dag"]["nodes"])) for d in U.node_deps(inp["dag"], i)}
            inp["req"] = [i for i in range(len(inp["dag"]["nodes"])) if i not in used][:8]
        want = WARM_CLASSES[j] if j < len(WARM_CLASSES) else rng.choice(_WARM_WEIGHTED)
        cls, cache0 = _gen_warm_cache(rng, inp["dag"], list(U.flatten_req(inp["req"])), want)
        inp["cls"], inp["cache0"] = cls, cache0
        if not cache0:
            inp["empty_cache_arg"] = True
        yield "warm", inp
    # every completion order of a sample of the small dags with EVERY sound cache over <= 2 keys
    from itertools import combinations

    def wide(nodes):
        """>= 2 tasks are ready at the start (all their dependencies are data) - with num_workers >= 2 and chunksize 1 several
        batches are outstanding at once, so there is more than one completion order - and some task has a dependent"""
        first = [i for i, nd in enumerate(nodes) if nd[0] == "t" and all(nodes[d][0] == "d" for d in nd[1])]
        return len(first) >= 2 and any(nd[0] != "d" and any(nodes[d][0] != "d" for d in ([nd[1]] if nd[0] == "a" else nd[1]))
                                       for nd in nodes)
    for n, cnt in ((3, ctx.n(2, 20)), (4, ctx.n(3, 30)), (5, ctx.n(1, 10))):
        pool = [nodes for nodes in _small_dags(n) if wide(nodes)]
        for nodes in rng.sample(pool, min(cnt, len(pool))):
            dag = {"nodes": nodes, "keys": rng.choice(["str", "tuple", "int", "falsy"]), "style": rng.choice(["legacy", "spec", "mixed"])}
            ev = U.reference_eval(dag)
            used = {d for i in range(n) for d in U.node_deps(dag, i)}
            sinks = [i for i in range(n) if i not in used]
            req = rng.choice([list(range(n)), sinks, sinks, [sinks, []]])
            nw, cs = rng.choice([2, 2, 3]), rng.choice([1, 1, 1, 2, -1])
            for size in (1, 2):
                for sub in combinations(range(n), size):
                    if all(isinstance(ev(i), int) for i in sub):
                        yield "exhwarm", {"dag": dag, "req": req, "nw": nw, "cs": cs, "fails": {}, "seed": 0, "bias": None,
                                          "limit": 200, "cache0": {str(i): ev(i) for i in sub}}


def search(ctx):
    rng = ctx.rng
    for _ in range(ctx.n(2000, 8000)):
        yield "trace", U.gen_trace_input(rng, max_n=rng.choice([4, 7, 10]), fail_p=0.0, missing_p=0.0)
