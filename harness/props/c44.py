"""C44 — repartitioning preserves rows, order and requested layout.

Model:    lean/DaskModel/Model/Repart.lean (transliteration of dask_expr/_repartition.py: boundaries with an
          exact IEEE-double model of `int(i * (old / new))` and `np.linspace(..).astype(int)`, `_nsplits`,
          `split_evenly`, the `_lower` decision, the two walks of `RepartitionDivisions._layer`, `boundary_slice`)
Theorems: lean/DaskModel/Props/C44.lean
Tie:      function level: `_compute_partition_boundaries`, `split_evenly`, `_nsplits`, `_lower` kind,
          `RepartitionDivisions._layer` (every key and slice bound), `boundary_slice`;
          API level: `repartition(npartitions|divisions|partition_size)` and `from_pandas` on random frames /
          partitionings with empty partitions vs the Lean evaluation and the statement's clauses.
"""
from __future__ import annotations

from sexp import Sym

from props import _dfpart_util as U

PROP = "C44"
READY = True
DRIVER = "dm_dfpart"
LEAN_MODULES = ["DaskModel.Props.C44", "DaskModel.Props.C44xUnsorted"]
LEVEL_TEXT = ("Lean 4 theorems over a transliteration of dask_expr/_repartition.py, for every list of partitions. "
              "RepartitionDivisions: divisions_rows_order_truthful (the FULL statement: for every frame truthful for legal old "
              "divisions with partitions in index order and every legal new division vector the guards accept - force or not, "
              "repeated last division in old and/or new - the result has the same rows in the same order and is truthful for "
              "exactly the requested divisions) and divisions_total (both walks of _layer finish without IndexError/KeyError "
              "and every key the layer refers to exists); proved by loop invariants for both walks plus a semantic invariant on "
              "the evaluated pieces (Lemmas/RepartWalk, RepartWalk2), for the code as repaired in /repo 5d1a6bb (before: all rows "
              "lost for single-label frames with force - found through the certificate). divisions_order_needs_sorted_partitions: "
              "without index-ordered partitions the order is NOT kept (witness; known finding). layerOK/layer_sound "
              "(divisions_rows_order_truthful_partial): a decidable certificate on a layer that implies rows/order/truthfulness "
              "for every frame - evaluated on every layer the REAL _layer() builds. RepartitionToFewer: tofewer_rows_ieee (rows, order, "
              "exactly n partitions with NO float hypothesis: int(i*(old/new)) in an exact fixed-point model of IEEE doubles - unit "
              "2^-1074, round-to-nearest-even to 53 significant bits - is monotone, starts at 0 and ends <= old after two "
              "roundings, for fewer than 2^50 partitions: Lemmas/RepartFloat), tofewer_rows / tofewer_contiguous (any boundaries "
              "with BoundsOK); RepartitionToMore: nsplits_sum, tomore_rows_ieee (np.linspace(0,len,k+1).astype(int) is "
              "non-decreasing and <= len in the same double model: splitPositions_mono; k <= 2^52, len <= 2^53), tomore_rows, "
              "tomore_npartitions; lower_npartitions (exactly n "
              "partitions in every branch of Repartition._lower); RepartitionSize: repartition_size_rows (any split counts from "
              "1 + mem//size and any chunk lengths iter_chunks yields: rows, order, one partition per chunk), iter_chunks_lengths, "
              "sizeNsplits_pos; from_pandas_rows; divisions_npartitions. Extension (Props/C44xUnsorted, model FPU = the empty-frame and sort=False/non-monotonic branches of FromPandas._divisions_and_locations, tied to the real _locations() and partitions): unsorted_rows (same rows, same order), unsorted_npartitions (count = ceil(n/chunksize); npartitions-or-1 for an empty frame), unsorted_npartitions_le (npartitions=p yields at most p partitions), unsorted_locations_chunksize. VALIDATED only: that the fixed-point double model IS CPython / "
              "NumPy arithmetic (diffed exhaustively for old,new <= 120 and len < 70 x k < 40 on every run, incl. quotients below 1), "
              "pandas memory_usage (an input), boundary_slice = key-range filter.")
LEVEL_NOTE = ("Trusted: Lean kernel + standard axioms; the exact double model (round-to-nearest-even division and "
              "multiplication, truncation) is diffed against CPython/NumPy on every run; pandas label slicing inside "
              "boundary_slice is taken as a filter on the index (diffed, sorted and unsorted index); memory_usage of "
              "RepartitionSize is an input (the real _nsplits / boundaries are diffed against the model on the measured usages).")
TECHNIQUE = ("Lean 4 proof (loop invariants + semantic invariant over an executable transliteration; proved-sound layer certificate "
             "evaluated on the real layers) + differential correspondence + property oracle on the real code")
ASSUMPTIONS = ["index values are compared only through <, <=, == (non-negative ints in the model)",
               "boundary_slice(df, lo, hi, right_boundary) = rows with lo <= key and (key < hi or right_boundary and key == hi), order kept",
               "partitions of a frame with known divisions are in index order (true for from_pandas / set_index / sorted sources; "
               "otherwise repartition(divisions) regroups rows by key range: known finding)",
               "CPython float division/multiplication and NumPy linspace round to nearest even (IEEE-754 binary64): the model's "
               "round53 on multiples of 2^-1074 (checked exhaustively for old,new <= 120 quick / 300 thorough and len x k)"]
TRUSTED = ["Lean 4 kernel, axioms propext / Classical.choice / Quot.sound", "harness/props/c44.py differential tie (function level: "
           "_compute_partition_boundaries, split_evenly, _nsplits, Repartition._lower, RepartitionDivisions._layer key by key, "
           "boundary_slice, iter_chunks, RepartitionSize._nsplits/_partition_boundaries; API level)", "NumPy / pandas as oracles"]
CASE_TIMEOUT_S = 90


def _okraised(fn):
    try:
        return [Sym("ok"), fn()]
    except Exception as e:  # noqa: BLE001 - mapped to the enum, message kept for the oracle
        return [Sym("raised"), U.exc_name(e)]


def _boundary_hyp(bs, n_out, total):
    """hypothesis of tofewer_rows / tomore_rows on a boundary list"""
    if len(bs) != n_out + 1:
        return f"{len(bs)} boundaries for {n_out} partitions"
    if bs[0] != 0:
        return "first boundary is not 0"
    if any(a > b for a, b in zip(bs, bs[1:])):
        return "boundaries decrease"
    if bs[-1] != total:
        return f"last boundary {bs[-1]} != {total}"
    return None


def case_tofewer_bounds(ctx, inp):
    U.dd()
    from dask.dataframe.dask_expr._repartition import RepartitionToFewer
    new, old = inp["new"], inp["old"]
    impl = _okraised(lambda: [int(x) for x in RepartitionToFewer._compute_partition_boundaries(new, old)])
    model = ctx.lean(Sym("tofewer-bounds"), new, old)
    ctx.eq("_compute_partition_boundaries", model, impl[:1] + impl[1:] if impl[0] == "ok" else impl[:1])
    if impl[0] == "ok":
        if [i * old // new for i in range(new + 1)] != impl[1]:
            ctx.branch("float-differs-from-floor")
        else:
            ctx.branch("float-equals-floor")
        why = _boundary_hyp(impl[1], new, old)
        if why and 1 <= new < old:
            ctx.fail("RepartitionToFewer boundaries: " + why, observed=impl[1])


def case_split_evenly(ctx, inp):
    import pandas as pd
    U.dd()
    from dask.dataframe.core import split_evenly
    ln, k = inp["len"], inp["k"]
    df = pd.DataFrame({"v": range(ln)})
    pieces = split_evenly(df, k)
    lens = [len(pieces[i]) for i in range(k)]
    pos = [0]
    for x in lens:
        pos.append(pos[-1] + x)
    starts = [int(pieces[i].v.iloc[0]) if len(pieces[i]) else None for i in range(k)]
    model = ctx.lean(Sym("split-positions"), ln, k)
    ctx.eq("split_evenly positions", model, [Sym("ok"), pos])
    got = [int(v) for i in range(k) for v in pieces[i].v]
    if got != list(range(ln)):
        ctx.fail("split_evenly pieces do not concatenate to the frame", observed=got)
    ctx.branch("split-floor-differs" if pos != [i * ln // k for i in range(k + 1)] else "split-floor-equal")
    del starts


def _plain_frame(nparts):
    import pandas as pd
    d = U.dd().from_pandas(pd.DataFrame({"v": range(nparts)}), npartitions=nparts)
    assert d.npartitions == nparts
    return d


def case_nsplits(ctx, inp):
    U.dd()
    from dask.dataframe.dask_expr._repartition import RepartitionToMore
    new, old = inp["new"], inp["old"]
    impl = _okraised(lambda: [int(x) for x in RepartitionToMore(_plain_frame(old).expr, new)._nsplits])
    model = ctx.lean(Sym("nsplits"), new, old)
    ctx.eq("_nsplits", model, impl if impl[0] == "ok" else impl[:1])
    if impl[0] == "ok" and new >= old:
        ctx.branch("nsplits-mod" if new % old else "nsplits-even")
        if sum(impl[1]) != new:
            ctx.fail("sum(_nsplits) != new_partitions", observed=impl[1], expected=new)


def _canon_layer(expr):
    """(slices, out) of a RepartitionDivisions layer, keys replaced by their positions"""
    from dask.dataframe import methods
    L = expr._layer()
    out2 = expr._name
    src_name = expr.frame._name
    split = sorted((k for k in L if k[0] != out2), key=lambda k: k[1])
    assert [k[1] for k in split] == list(range(len(split)))
    slices = []
    for k in split:
        t = L[k]
        assert t[0] is methods.boundary_slice and t[1][0] == src_name and len(t) == 5
        slices.append([int(t[1][1]), t[2], t[3], bool(t[4])])
    outs = []
    for j in range(len(L) - len(split)):
        t = L[(out2, j)]
        if t[0] is methods.boundary_slice:
            assert t[2] == t[3]
            outs.append([])
        elif t[0] is methods.concat:
            outs.append([int(k[1]) for k in t[1]])
        else:
            outs.append([int(t[1])])
    return slices, outs


def case_div_layer(ctx, inp):
    """function level: every key and slice bound of RepartitionDivisions._layer()"""
    U.dd()
    from dask.dataframe.dask_expr._repartition import RepartitionDivisions
    a, b, force = inp["a"], inp["b"], inp["force"]
    frame = U.frame_from_parts([[] for _ in range(len(a) - 1)], divisions=a)
    impl = _okraised(lambda: _canon_layer(RepartitionDivisions(frame.expr, tuple(b), force)))
    model = ctx.lean(Sym("div-layer"), a, b, force)
    if impl[0] == "ok":
        ctx.eq("RepartitionDivisions._layer", model[:3], [Sym("ok"), impl[1][0], impl[1][1]])
        ctx.branch("layer-force" if force else "layer")
        # certificate of divisions_layer_sound, evaluated on the layer the REAL code built
        if b == sorted(b) and len(set(b[:-1])) == len(b[:-1]):
            ok = ctx.lean(Sym("div-layer-ok"), a, b, impl[1][0], impl[1][1])
            if ok is not True:
                ctx.fail("RepartitionDivisions._layer() does not pass the layer certificate (pieces used once and in "
                         "order, slices tile the old partitions, pieces fit their new partition)",
                         observed=[impl[1][0], impl[1][1]])
            else:
                ctx.branch("layer-certified")
        if a[-1] == a[-2]:
            ctx.branch("layer-old-single-last")
        if b[-1] == b[-2]:
            ctx.branch("layer-new-single-last")
        if any(len(o) == 0 for o in impl[1][1]):
            ctx.branch("layer-dummy-partition")
    else:
        ctx.eq("RepartitionDivisions._layer raises", model, [Sym("raised")])
        ctx.branch("layer-raises")


def case_boundary_slice(ctx, inp):
    """boundary_slice on one partition is the filter the model uses (sorted and unsorted index)"""
    import pandas as pd
    U.dd()
    from dask.dataframe.methods import boundary_slice
    keys, lo, hi, rb = inp["keys"], inp["lo"], inp["hi"], inp["rb"]
    df = pd.DataFrame({"v": range(len(keys))}, index=keys)
    got = [int(v) for v in boundary_slice(df, lo, hi, rb).v]
    exp = [i for i, k in enumerate(keys) if lo <= k and (k < hi or (rb and k == hi))]
    if got != exp:
        if sorted(keys) == keys or lo <= hi:
            ctx.fail("boundary_slice is not the [lo, hi) / [lo, hi] filter", observed=got, expected=exp)
    ctx.branch("bslice-" + ("sorted" if sorted(keys) == keys else "unsorted"))


def _ids(parts):
    return [[int(v) for v in p.v] for p in parts]


def case_repartition(ctx, inp):
    """API level: d.repartition(...) on a frame with explicit partitions (known or unknown divisions)"""
    import dask
    keys, divs, op = inp["parts"], inp.get("divs"), inp["op"]
    d = U.frame_from_parts(keys, divisions=divs)
    nrows = sum(len(k) for k in keys)
    old = len(keys)
    kw = dict(op)
    expect_raise = False
    if "divisions" in kw:
        b = kw["divisions"]
        if divs is None or b != sorted(b) or len(set(b[:-1])) != len(b[:-1]):
            expect_raise = True     # unknown divisions / check_divisions rejects unsorted or repeated entries
        elif kw.get("force"):
            expect_raise = divs[0] < b[0] or divs[-1] > b[-1]
        else:
            expect_raise = divs[0] != b[0] or divs[-1] != b[-1]
    try:
        with dask.config.set(scheduler="sync"):
            r = d.repartition(**kw)
            rdivs = list(r.divisions)
            rn = r.npartitions
            parts = U.partitions(r)
    except Exception as e:  # noqa: BLE001
        if expect_raise and isinstance(e, ValueError):
            ctx.branch("repartition-rejected")
            if "divisions" in kw and divs is not None and b == sorted(b) and len(set(b[:-1])) == len(b[:-1]):
                ctx.eq("rejected divisions", ctx.lean(Sym("div-layer"), divs, kw["divisions"], bool(kw.get("force", False)))[:1], [Sym("raised")])
            return
        ctx.fail("repartition raised: " + U.exc_name(e), observed=U.exc_name(e))
        return
    if expect_raise:
        ctx.fail("repartition accepted divisions whose ends do not match", observed=rdivs)
        return
    ids = _ids(parts)
    flat = [v for p in ids for v in p]
    if flat != list(range(nrows)):
        sig = None
        by_key_range = "divisions" in kw or ("npartitions" in kw and kw["npartitions"] > old)
        if (divs is not None and by_key_range and any(list(k) != sorted(k) for k in keys)
                and sorted(flat) == list(range(nrows)) and rdivs[0] is not None
                and ctx.lean(Sym("repart-divs"), keys, divs, rdivs, bool(kw.get("force", False))) == [Sym("ok"), ids]):
            # (the known symptom is exactly: nothing lost, rows regrouped as the key-range model predicts)
            # boundary_slice regroups the rows of a partition by key range: Lean divisions_order_needs_sorted_partitions
            sig = "repartition(divisions):partition-not-in-index-order:rows-regrouped-by-key-range"
            ctx.branch("api-unsorted-partition-reordered")
        ctx.fail("repartition does not keep the rows in order", sig=sig, observed=ids, expected=list(range(nrows)))
    if rn != len(parts):
        ctx.fail("npartitions differs from the number of partitions in the graph", observed=[rn, len(parts)])
    known = rdivs[0] is not None
    if len(rdivs) != rn + 1:
        ctx.fail("len(divisions) != npartitions + 1", sig=None, observed=[rdivs, rn])
    if known:
        why = U.truthful(rdivs, parts)
        if why:
            ctx.fail("repartition result not truthful: " + why, observed=[rdivs, [list(p.index) for p in parts]])
    if "npartitions" in kw:
        n = kw["npartitions"]
        if rn != n:
            ctx.fail("repartition(npartitions=n) does not yield n partitions", observed=rn, expected=n)
        lens = [len(k) for k in keys]
        if n < old:
            ctx.branch("api-tofewer")
            ctx.eq("RepartitionToFewer partitions", ctx.lean(Sym("tofewer"), lens, n), [Sym("ok"), ids])
        elif n == old:
            ctx.branch("api-same")
            ctx.eq("same npartitions", ids, [list(range(sum(lens[:i]), sum(lens[:i + 1]))) for i in range(old)])
        elif not known:
            ctx.branch("api-tomore")
            ctx.eq("RepartitionToMore partitions", ctx.lean(Sym("tomore"), lens, n), [Sym("ok"), ids])
        else:
            ctx.branch("api-interpolated-divisions")
            ctx.eq("interpolated repartition = RepartitionDivisions of the model",
                   ctx.lean(Sym("repart-divs"), keys, divs, rdivs, False), [Sym("ok"), ids])
    elif "divisions" in kw:
        b = list(kw["divisions"])
        if rdivs != b:
            ctx.fail("repartition(divisions=d) does not yield divisions d", observed=rdivs, expected=b)
        ctx.branch("api-divisions" + ("-force" if kw.get("force") else ""))
        ctx.eq("RepartitionDivisions partitions", ctx.lean(Sym("repart-divs"), keys, divs, b, bool(kw.get("force", False))),
               [Sym("ok"), ids])
    else:
        ctx.branch("api-partition-size")


def case_iter_chunks(ctx, inp):
    """function level: dask.utils.iter_chunks (chunk lengths) vs the model, and the facts repartition_size_rows needs"""
    from dask.utils import iter_chunks
    sizes, mx = inp["sizes"], inp["max"]
    try:
        impl = [Sym("ok"), [len(c) for c in iter_chunks(sizes, mx)]]
    except AssertionError:
        impl = [Sym("raised")]
    ctx.eq("iter_chunks lengths", ctx.lean(Sym("iter-chunks"), sizes, mx), impl)
    if impl[0] == "ok":
        if sum(impl[1]) != len(sizes) or any(x <= 0 for x in impl[1]):
            ctx.fail("iter_chunks: chunk lengths do not cover the sizes exactly once / an empty chunk", observed=impl[1])
        ctx.branch("iter-chunks-" + ("one" if len(impl[1]) <= 1 else "many"))
    else:
        ctx.branch("iter-chunks-too-big")


def case_repart_size(ctx, inp):
    """RepartitionSize: _nsplits / _partition_boundaries of the REAL expression (memory usage is measured by pandas:
    an input) vs the model; the partitions of the graph vs the Lean evaluation of the layer on the same nsplits /
    chunk lengths (repartition_size_rows: rows, order, one partition per chunk)"""
    import dask
    from dask.dataframe.dask_expr._repartition import RepartitionSize
    keys, size = inp["parts"], inp["size"]
    d = U.frame_from_parts(keys, divisions=None)
    nrows = sum(len(k) for k in keys)
    with dask.config.set(scheduler="sync"):
        r = d.repartition(partition_size=size)
        e = r.expr.lower_once({})
        if not isinstance(e, RepartitionSize):
            ctx.note("repartition-size-not-lowered-to-RepartitionSize")
            return
        usages = [int(x) for x in e._mem_usage]
        ks = [int(x) for x in e._nsplits]
        bs = [int(x) for x in e._partition_boundaries]
        parts = U.partitions(r)
    ctx.eq("RepartitionSize._nsplits", ctx.lean(Sym("size-nsplits"), usages, size), [Sym("ok"), ks])
    lens = [b - a for a, b in zip(bs, bs[1:])]
    if bs[0] != 0 or any(x <= 0 for x in lens) or bs[-1] != sum(ks):
        ctx.fail("RepartitionSize boundaries: not 0 < ... < number of pieces", observed=[bs, ks])
    if all(k == 1 for k in ks):
        ctx.branch("size-concat-only")
        ctx.eq("RepartitionSize chunk lengths = iter_chunks(mem usages)", ctx.lean(Sym("iter-chunks"), usages, size), [Sym("ok"), lens])
    else:
        ctx.branch("size-split")
    ids = _ids(parts)
    ctx.eq("RepartitionSize partitions", ctx.lean(Sym("repart-size"), [len(k) for k in keys], ks, lens), [Sym("ok"), ids])
    if [v for p in ids for v in p] != list(range(nrows)):
        ctx.fail("repartition(partition_size) does not keep the rows in order", observed=ids)
    if len(parts) != len(lens) or r.npartitions != len(parts):
        ctx.fail("repartition(partition_size): npartitions / chunks / graph disagree", observed=[r.npartitions, len(parts), lens])
    if len(parts) < len(keys):
        ctx.branch("size-fewer")
    elif len(parts) > len(keys):
        ctx.branch("size-more")


def _graph_tasks(x):
    """{key: comparable task description} of the lowered graph of a collection"""
    g = dict(x.__dask_graph__())
    return {k: repr(v) for k, v in g.items()}


def case_joint(ctx, inp):
    """JOINT / HISTORY: several repartitions of the SAME source in ONE graph (dask.compute(r1, r2, …), dd.concat) and one
    after the other in one process. Every result must have the source's rows in order — whatever else is in the graph —
    and two differently parameterised expressions may only share a graph key when the tasks behind it are the same."""
    import dask
    dd = U.dd()
    keys, divs, ops = inp["parts"], inp.get("divs"), inp["ops"]
    d = U.frame_from_parts(keys, divisions=divs)
    nrows = sum(len(k) for k in keys)
    want = list(range(nrows))
    with dask.config.set(scheduler="sync"):
        rs = []
        for op in ops:
            try:
                rs.append(d.repartition(**op))
            except ValueError:
                ctx.branch("joint-variant-rejected")
                return
        try:
            solo = [[int(v) for v in r.compute().v] for r in rs]          # history: one after the other
            joint = [[int(v) for v in x.v] for x in dask.compute(*rs)]    # one graph
            rev = [[int(v) for v in x.v] for x in dask.compute(*rs[::-1])][::-1]
            cat = [int(v) for v in dd.concat(rs).compute().v] if len(rs) > 1 else sum(joint, [])
            again = [[int(v) for v in r.compute().v] for r in rs]
        except Exception as e:  # noqa: BLE001
            ctx.fail("joint evaluation of repartitions raised: " + U.exc_name(e), observed=[ops, U.exc_name(e)])
            return
        tasks = [_graph_tasks(r) for r in rs]
    for name, got in (("computed alone", solo), ("in dask.compute(r1, r2, …)", joint), ("in dask.compute(…, r2, r1)", rev),
                      ("computed alone again afterwards", again)):
        for op, g in zip(ops, got):
            if g != want:
                ctx.fail(f"repartition({op}) {name} does not return the source rows in order", observed=[ops, g[:40], len(g)],
                         expected=nrows)
    if cat != want * len(rs):
        ctx.fail("dd.concat of several repartitions of one source: rows duplicated / lost", observed=[ops, len(cat)],
                 expected=nrows * len(rs))
    for a in range(len(rs)):
        for b in range(a + 1, len(rs)):
            if ops[a] == ops[b]:
                continue
            clash = [k for k in tasks[a].keys() & tasks[b].keys() if tasks[a][k] != tasks[b][k]]
            if clash:
                ctx.fail("two differently parameterised repartitions of one source use the same graph key for different tasks",
                         observed=[ops[a], ops[b], str(sorted(map(str, clash))[:3])])
    kinds = sorted({next(iter(op)) for op in ops})
    ctx.branch("joint-" + "+".join(kinds))
    if sum("partition_size" in op for op in ops) >= 2:
        ctx.branch("joint-two-sizes")


def case_from_pandas(ctx, inp):
    """from_pandas with npartitions / chunksize keeps exactly the same rows (in order when sort=False or the
    index is already sorted; in index order otherwise)"""
    import pandas as pd
    import dask
    idx, kw = inp["index"], inp["kw"]
    df = pd.DataFrame({"v": list(range(len(idx)))}, index=pd.Index(idx, dtype="int64"))
    with dask.config.set(scheduler="sync"):
        d = U.dd().from_pandas(df, **kw)
        parts = U.partitions(d)
        divs = list(d.divisions)
    got = [int(v) for p in parts for v in p.v]
    gidx = [int(k) for p in parts for k in p.index]
    srt = kw.get("sort", True)
    if not srt or sorted(idx) == idx:
        if got != list(range(len(idx))):
            ctx.fail("from_pandas does not keep the rows in order", observed=got)
        ctx.branch("from_pandas-ordered")
    else:
        if sorted(got) != list(range(len(idx))) or gidx != sorted(idx) or any(idx[v] != k for v, k in zip(got, gidx)):
            ctx.fail("from_pandas(sort=True) is not the frame sorted by index", observed=[got, gidx])
        ctx.branch("from_pandas-sorted")
    if d.npartitions != len(parts) or len(divs) != len(parts) + 1:
        ctx.fail("from_pandas: npartitions / divisions / graph disagree", observed=[d.npartitions, len(parts), divs])
    if divs[0] is not None:
        why = U.truthful(divs, parts)
        if why:
            ctx.fail("from_pandas result not truthful: " + why, observed=[divs, [list(p.index) for p in parts]])
    if "chunksize" in kw and not srt and sorted(idx) != idx:
        c = kw["chunksize"]
        if any(len(p) != c for p in parts[:-1]) or not (0 < len(parts[-1]) <= c):
            ctx.fail("from_pandas(chunksize, sort=False): partition lengths are not chunksize", observed=[len(p) for p in parts])
    if "npartitions" in kw and not srt and len(idx) >= kw["npartitions"]:
        if len(parts) != kw["npartitions"]:
            ctx.note("from_pandas-unsorted-npartitions-not-met")


def case_from_pandas_unsorted(ctx, inp):
    """Extension round: the branches of FromPandas._divisions_and_locations WITHOUT sorted_division_locations (empty frame;
    sort=False on a non-monotonic index): the REAL `_locations()` and the real partitions vs the Lean model
    (`FPU.locations`, `FPU.fromPandasUnsorted`; Props/C44xUnsorted: unsorted_rows, unsorted_npartitions, unsorted_npartitions_le)"""
    import pandas as pd
    import dask
    idx, kw = inp["index"], inp["kw"]
    n = len(idx)
    df = pd.DataFrame({"v": list(range(n))}, index=pd.Index(idx, dtype="int64"))
    npart, cs = kw.get("npartitions"), kw.get("chunksize")
    a_np = npart if npart is not None else Sym("none")
    a_cs = cs if cs is not None else Sym("none")
    with dask.config.set(scheduler="sync"):
        d = U.dd().from_pandas(df, sort=False, **kw)
        locs = [int(x) for x in d.expr._locations()]
        parts = U.partitions(d)
        divs = list(d.divisions)
    rows = [[int(v) for v in p.v] for p in parts]
    ctx.eq("from_pandas(sort=False) locations", ctx.lean(Sym("fpu-locations"), n, a_np, a_cs), [Sym("ok"), locs])
    ctx.eq("from_pandas(sort=False) partitions", ctx.lean(Sym("fpu-parts"), list(range(n)), a_np, a_cs), [Sym("ok"), rows])
    if [v for r in rows for v in r] != list(range(n)):
        ctx.fail("from_pandas(sort=False) does not keep the rows in order", observed=rows)
    if d.npartitions != len(parts) or len(divs) != len(parts) + 1 or any(x is not None for x in divs):
        ctx.fail("from_pandas(sort=False): npartitions / divisions disagree with the graph", observed=[d.npartitions, len(parts), divs])
    if n == 0:
        if len(parts) != (npart or 1):
            ctx.fail("from_pandas of an empty frame: partition count is not `npartitions or 1`", observed=len(parts))
        ctx.branch("fpu-empty")
    else:
        c = cs if npart is None else -(-n // npart)
        if len(parts) != -(-n // c) or any(len(r) != c for r in rows[:-1]) or not 0 < len(rows[-1]) <= c:
            ctx.fail("from_pandas(sort=False): partition lengths are not chunksize / count is not ceil(n/chunksize)", observed=[len(r) for r in rows])
        if npart is not None and len(parts) > npart:
            ctx.fail("from_pandas(sort=False, npartitions=p) yields more than p partitions", observed=[len(parts), npart])
        ctx.branch("fpu-" + ("npartitions-" + ("met" if len(parts) == npart else "fewer") if npart is not None else "chunksize"))


CASES = {"from_pandas_unsorted": case_from_pandas_unsorted, "tofewer_bounds": case_tofewer_bounds, "split_evenly": case_split_evenly, "nsplits": case_nsplits,
         "div_layer": case_div_layer, "boundary_slice": case_boundary_slice, "repartition": case_repartition,
         "from_pandas": case_from_pandas, "iter_chunks": case_iter_chunks, "repart_size": case_repart_size,
         "joint": case_joint}


def _rand_new_divs(rng, a, force):
    lo, hi = a[0], a[-1]
    if force:
        lo -= rng.choice([0, 0, 1, 3])
        hi += rng.choice([0, 0, 1, 4])
    lo = max(lo, 0)
    n = rng.randint(1, 6)
    inner = sorted(set(rng.randint(lo, hi) for _ in range(n - 1)) - {lo, hi}) if hi > lo else []
    # reuse old division points often (the equal-branch of the walk)
    inner = sorted(set(inner) | {x for x in a[1:-1] if rng.random() < 0.4 and lo < x < hi})
    b = [lo] + inner + [hi]
    if rng.random() < 0.2:
        b.append(hi)           # single last division
    if len(b) < 2:
        b.append(hi)
    if rng.random() < 0.08:    # malformed ends
        b[0] += 1
        b = sorted(b)
    return b


def generate(ctx):
    rng = ctx.rng
    top = 120 if not ctx.thorough() else 300
    # exhaustive float glue (strided in quick so that the budget holds)
    pairs = [(new, old) for old in range(2, top + 1) for new in range(1, old)]
    if not ctx.thorough():
        pairs = [p for p in pairs if p[1] <= 30] + rng.sample(pairs, 200)
    for new, old in pairs:
        yield "tofewer_bounds", {"new": new, "old": old}
    yield "tofewer_bounds", {"new": 0, "old": 3}
    sp = [(ln, k) for ln in range(0, 70 if not ctx.thorough() else 200) for k in range(1, 40 if not ctx.thorough() else 80)]
    if not ctx.thorough():
        sp = rng.sample(sp, 300)
    for ln, k in sp:
        yield "split_evenly", {"len": ln, "k": k}
    for _ in range(ctx.n(60, 400)):
        old = rng.randint(1, 12)
        yield "nsplits", {"new": rng.randint(old, 4 * old + 3), "old": old}
    for _ in range(ctx.n(200, 3000)):
        keys = [rng.randint(0, 9) for _ in range(rng.randint(1, 8))]
        if rng.random() < 0.6:
            keys.sort()
        lo = rng.randint(0, 9)
        yield "boundary_slice", {"keys": keys, "lo": lo, "hi": rng.randint(lo, 10), "rb": rng.random() < 0.5}
    for _ in range(ctx.n(700, 15000)):
        a = U.rand_divisions(rng, rng.randint(1, 6), 0, rng.choice([6, 12, 30]))
        force = rng.random() < 0.35
        yield "div_layer", {"a": a, "b": _rand_new_divs(rng, a, force), "force": force}
    # force with new divisions starting several entries BELOW the old ones (temporary divisions must stay sorted;
    # defect repaired in 5d1a6bb), old frames as small as a single label (x, x)
    for _ in range(ctx.n(60, 1500)):
        x = rng.randint(2, 12)
        a = [x, x] if rng.random() < 0.4 else sorted(rng.sample(range(x, x + 9), rng.randint(2, 4)))
        if rng.random() < 0.3 and len(a) >= 2:
            a = a + [a[-1]]
        below = sorted(rng.sample(range(0, a[0]), rng.randint(1, min(3, a[0]))))
        inner = sorted(v for v in set(rng.sample(range(a[0], a[-1] + 1), rng.randint(0, min(3, a[-1] - a[0] + 1)))) if v not in (a[-1],))
        b = below + [v for v in inner if v not in below] + [a[-1]] + ([a[-1]] if rng.random() < 0.5 else [])
        if len(set(b[:-1])) != len(b[:-1]) or b != sorted(b):
            continue
        yield "div_layer", {"a": a, "b": b, "force": True}
    if ctx.thorough():
        # exhaustive small space for the divisions walk and its certificate: every legal division vector over 0..4
        # (strictly increasing, optionally with a repeated last entry) as old AND as new divisions, force on/off
        import itertools
        vecs = []
        for k in (2, 3, 4):
            for comb in itertools.combinations(range(5), k):
                vecs.append(list(comb))
        for k in (1, 2, 3):
            for comb in itertools.combinations(range(5), k):
                vecs.append(list(comb) + [comb[-1]])
        for a in vecs:
            for b in vecs:
                for force in (False, True):
                    yield "div_layer", {"a": a, "b": b, "force": force}
    for _ in range(ctx.n(150, 2600)):
        nparts = rng.randint(1, 6)
        if rng.random() < 0.75:
            divs = U.rand_divisions(rng, nparts, 0, rng.choice([8, 14, 30]))
            keys = U.rand_truthful_parts(rng, divs, maxrows=rng.choice([2, 5]))
            if rng.random() < 0.12:      # truthful, but some partitions not in index order (from_map with divisions)
                keys = [rng.sample(k, len(k)) for k in keys]
        else:
            divs = None
            keys = [[rng.randint(0, 9) for _ in range(rng.choice([0, 1, 2, 5]))] for _ in range(nparts)]
        t = rng.random()
        if t < 0.45:
            op = {"npartitions": rng.randint(1, 9)}
        elif t < 0.9:
            force = rng.random() < 0.35
            op = {"divisions": _rand_new_divs(rng, divs or [0, 9], force)}
            if force or rng.random() < 0.3:
                op["force"] = force
        else:
            op = {"partition_size": rng.choice([8, 40, 100, 1000])}
        yield "repartition", {"parts": keys, "divs": divs, "op": op}
    for _ in range(ctx.n(150, 2000)):
        mx = rng.choice([1, 5, 10, 100])
        sizes = [rng.randint(0, mx + (1 if rng.random() < 0.05 else 0)) for _ in range(rng.randint(0, 12))]
        yield "iter_chunks", {"sizes": sizes, "max": mx}
    for _ in range(ctx.n(40, 500)):
        nparts = rng.randint(1, 6)
        keys = [sorted(rng.randint(0, 30) for _ in range(rng.choice([0, 1, 2, 5, 12, 30]))) for _ in range(nparts)]
        # 16 bytes per row (int64 index + int64 column): sizes around one row … several partitions, and often exactly
        # at / one off the memory usage of one of the partitions (the `//` boundary of _nsplits, the `<=` of iter_chunks)
        size = rng.choice([8, 16, 33, 64, 100, 200, 500, 2000])
        if rng.random() < 0.6:
            r = rng.choice([len(k) for k in keys if k] or [1]) * rng.choice([1, 1, 2])
            size = max(1, 16 * r + rng.choice([-1, 0, 1]))
        yield "repart_size", {"parts": keys, "size": size}
    # joint / history stream: several repartitions of one source in one graph and one after the other
    for _ in range(ctx.n(40, 600)):
        nparts = rng.randint(1, 5)
        known = rng.random() < 0.5
        divs = U.rand_divisions(rng, nparts, 0, rng.choice([8, 14, 30])) if known else None
        keys = (U.rand_truthful_parts(rng, divs, maxrows=rng.choice([4, 12])) if known
                else [sorted(rng.randint(0, 30) for _ in range(rng.choice([1, 3, 6, 14, 30]))) for _ in range(nparts)])
        rowsz = [16 * len(k) for k in keys if k] or [16]
        ops = []
        for _k in range(rng.choice([2, 2, 3])):
            t = rng.random()
            if t < 0.55:
                # sizes that split the larger partitions into different numbers of pieces
                ops.append({"partition_size": max(16, rng.choice(rowsz) // rng.choice([1, 2, 3, 4]) + rng.choice([0, 1, 8]))})
            elif t < 0.85 or not known:
                ops.append({"npartitions": rng.randint(1, 9)})
            else:
                b = _rand_new_divs(rng, divs, False)
                if b[0] != divs[0] or b[-1] != divs[-1] or b != sorted(b) or len(set(b[:-1])) != len(b[:-1]):
                    b = [divs[0], divs[-1]] if divs[0] < divs[-1] else list(divs)   # (mismatching ends are rejected lazily)
                ops.append({"divisions": b})
        yield "joint", {"parts": keys, "divs": divs, "ops": ops}
    # partition counts whose ratio is not exactly representable (15->11, 26->23, 30->11 ...): API level
    hard = [(o, n) for o in range(2, 41) for n in range(1, o) if int(n * (o / n)) != o or [int(i * (o / n)) for i in range(n + 1)] != [i * o // n for i in range(n + 1)]]
    picks = hard if ctx.thorough() else rng.sample(hard, min(len(hard), 12))
    for old, new in picks + [(15, 11), (30, 11)]:
        known = rng.random() < 0.5
        keys = [[i] for i in range(old)]
        yield "repartition", {"parts": keys, "divs": list(range(old)) + [old - 1] if known else None, "op": {"npartitions": new}}
    for _ in range(ctx.n(120, 1200)):
        ln = rng.randint(1, 24)
        idx = [rng.randint(0, rng.choice([3, 8, 30])) for _ in range(ln)]
        if rng.random() < 0.5:
            idx.sort()
        kw = {rng.choice(["npartitions", "chunksize"]): rng.randint(1, ln + 1)}
        if rng.random() < 0.4:
            kw["sort"] = False
        yield "from_pandas", {"index": idx, "kw": kw}
    # extension round (appended last: keeps the rng streams of the sections above): unsorted / empty from_pandas
    for _ in range(ctx.n(60, 800)):
        ln = rng.choice([0, 0, 1, 2, 3]) if rng.random() < 0.15 else rng.randint(2, 30)
        idx = [rng.randint(0, 40) for _ in range(ln)]
        if ln >= 2 and sorted(idx) == idx:
            idx[0], idx[-1] = idx[-1] + 1, idx[0]      # force the non-monotonic branch
        if ln >= 2 and sorted(idx) == idx:
            idx[0] = idx[1] + 1
        kw = {rng.choice(["npartitions", "chunksize"]): rng.randint(1, ln + 2)}
        if ln == 0 or sorted(idx) != idx:
            yield "from_pandas_unsorted", {"index": idx, "kw": kw}
