"""C45 extension: quantile-based divisions (partitionquantiles.py / dask_expr/_quantiles.py / _calculate_divisions).

Model:    lean/DaskModel/Model/PartQuant.lean (exact weights), handlers in Model/PartQuantIO.lean
Theorems: lean/DaskModel/Props/C45xQuantiles.lean
Tie:      function-level diffs on integer / string valued summaries with weights that are multiples of 0.5 (every float
          operation of the real code is then exact except `weights.sum()/n` and `np.linspace`, which `_float_robust`
          recomputes: a case where the rounded targets compare differently with a cumulative weight than the exact ones is
          counted as `pvw-float-divergent` and only checked by the oracle).
"""
from __future__ import annotations

import itertools
from fractions import Fraction

from sexp import Sym

_LETTERS = "abcdefghijklmnopqrstuvwxyz"


def _conv(kind):
    # order-preserving conversions of the interned integers
    return {"int": lambda v: v, "str": lambda v: "k%04d" % (v + 5000)}[kind]


def _to_py(summary, kind):
    """model-side summary [[vals],[2*weights]] -> what the real functions take"""
    vals, w2 = summary
    if not vals:
        return ()
    c = _conv(kind)
    return ([c(v) for v in vals], [w / 2.0 for w in w2])


def _from_py(res, back):
    if not res:
        return [[], []]
    vals, weights = res
    w2 = [Fraction(float(w)) * 2 for w in weights]
    if any(x.denominator != 1 for x in w2):
        return ["inexact", [back(v) for v in vals], [float(w) for w in weights]]
    return [[back(v) for v in vals], [int(x) for x in w2]]


def _back(kind):
    return (lambda v: int(v)) if kind == "int" else (lambda v: int(v[1:]) - 5000)


def _nondecreasing(xs):
    return all(a <= b for a, b in zip(xs, xs[1:]))


# ---------------------------------------------------------------- merge_and_compress_summaries / merge_sorted
def case_pq_merge(ctx, inp):
    from core import import_dd
    import_dd()
    from tlz import merge_sorted
    from dask.dataframe.partitionquantiles import merge_and_compress_summaries
    kind = inp["kind"]
    real_in = [_to_py(s, kind) for s in inp["summaries"]]
    back = _back(kind)
    res = merge_and_compress_summaries(real_in)
    impl = _from_py(res, back)
    model = ctx.lean(Sym("pq-merge"), inp["summaries"])
    ctx.eq("merge_and_compress_summaries", model, impl)
    ne = [x for x in real_in if x]
    if ne:
        ms = list(merge_sorted(*[zip(x, y) for x, y in ne]))
        ctx.eq("merge_sorted of the zipped summaries", ctx.lean(Sym("pq-msorted"), [s for s in inp["summaries"] if s[0]]),
               [[back(v) for v, _ in ms], [int(w * 2) for _, w in ms]])
    allv = sorted({v for s in inp["summaries"] for v in s[0]})
    if len(inp["summaries"]) > 1:
        ctx.branch("merge-%d-summaries" % min(len(inp["summaries"]), 5))
    if any(not s[0] for s in inp["summaries"]):
        ctx.branch("merge-empty-partition")
    if sum(len(s[0]) for s in inp["summaries"]) > len(allv):
        ctx.branch("merge-equal-values-combined")
    # property oracle on the real output
    if not allv:
        if res != ():
            ctx.fail("merge_and_compress_summaries of nothing is not ()", observed=repr(res))
        return
    vals = [back(v) for v in res[0]]
    if vals != allv:
        ctx.fail("merged summary: values are not the strictly increasing union of the inputs", observed=vals, expected=allv)
    if abs(sum(res[1]) * 2 - sum(w for s in inp["summaries"] for w in s[1])) > 1e-9:
        ctx.fail("merged summary: total weight changed", observed=sum(res[1]))


# ---------------------------------------------------------------- percentiles_to_weights
def case_pq_ptw(ctx, inp):
    import numpy as np
    from core import import_dd
    import_dd()
    from dask.dataframe.partitionquantiles import percentiles_to_weights
    qs, length = inp["qs"], inp["length"]
    res = percentiles_to_weights(np.array(qs, dtype=float), np.arange(len(qs)), length)
    impl = [] if res == () else [int(Fraction(float(w)) * 2) for w in res[1]]
    ctx.eq("percentiles_to_weights (twice the weights)", ctx.lean(Sym("pq-ptw"), qs, length), impl)
    ctx.branch("ptw-empty-partition" if length == 0 else "ptw")
    if length and all(a < b for a, b in zip(qs, qs[1:])) and len(qs) >= 2 and not all(w > 0 for w in res[1]):
        ctx.fail("percentiles_to_weights: a weight is not positive for strictly increasing percentiles", observed=res[1])


# ---------------------------------------------------------------- percentiles_summary (one partition)
def case_pq_summary(ctx, inp):
    import numpy as np
    import pandas as pd
    from core import import_dd
    import_dd()
    from dask.dataframe.partitionquantiles import percentiles_summary, sample_percentiles
    kind = inp["kind"]
    data = [_conv(kind)(v) for v in inp["data"]]
    s = pd.Series(data)
    res = percentiles_summary(s, inp["num_old"], inp["num_new"], inp["upsample"], inp["state"])
    if not data:
        if res != ():
            ctx.fail("percentiles_summary of an empty partition is not ()", observed=repr(res))
        ctx.branch("summary-empty-partition")
        return
    vals, weights = res
    back = _back(kind)
    vals = [back(v) for v in vals]
    d = sorted(inp["data"])
    qs = sample_percentiles(inp["num_old"], inp["num_new"], len(data), inp["upsample"], np.random.RandomState(inp["state"]))
    ctx.branch("summary-" + kind + ("-all-rows" if len(qs) == len(data) + 1 else "-sampled"))
    # the contract the theorems assume of a per-partition summary
    if len(vals) != len(qs) or len(weights) != len(qs) or len(qs) < 2:
        ctx.fail("percentiles_summary: not one value and weight per percentile", observed=[len(vals), len(weights), len(qs)])
        return
    if not _nondecreasing(vals):
        ctx.fail("percentiles_summary: values decrease", observed=vals)
    if vals[0] != d[0] or vals[-1] != d[-1]:
        ctx.fail("percentiles_summary: first/last value is not the partition's min/max", observed=[vals[0], vals[-1]], expected=[d[0], d[-1]])
    if any(v not in d for v in vals):
        ctx.fail("percentiles_summary: a value is not a data value ('nearest')", observed=vals)
    if not all(w > 0 for w in weights):
        ctx.fail("percentiles_summary: a weight is not positive", observed=weights)
    # model: positions recovered from the picked values (first occurrence in the sorted data), exact percentiles
    if all(v in d for v in vals) and _nondecreasing(vals) and vals[-1] == d[-1]:
        # a non-decreasing choice of positions that explains the picked values (hypotheses of percentiles_summary_contract)
        pos, cur = [], 0
        for i, v in enumerate(vals):
            cur = len(d) - 1 if i == len(vals) - 1 else d.index(v, cur)
            pos.append(cur)
        if pos[0] != 0 or not _nondecreasing(pos) or not all(a < b for a, b in zip(qs, qs[1:])):
            ctx.fail("percentiles_summary: positions do not run from 0 / percentiles not strictly increasing", observed=[pos, list(qs)])
        fr = [Fraction(float(q)) for q in qs]
        den = 1
        for f in fr:
            den = den * f.denominator // __import__("math").gcd(den, f.denominator)
        qi = [int(f * den) for f in fr]
        model = ctx.lean(Sym("pq-summary"), d, pos, qi)
        if model[0] != "ok":
            ctx.disagree("percentiles_summary model raised", model, vals)
            return
        ctx.eq("percentiles_summary values", model[1][0], vals)
        for mw, w in zip(model[1][1], weights):
            exact = Fraction(mw, 2 * den)
            if abs(float(exact) - w) > 1e-9 * max(1.0, abs(w)):
                ctx.disagree("percentiles_summary weight differs from the exact one beyond rounding", float(exact), w)
                break


# ---------------------------------------------------------------- tree_groups / create_merge_tree
def case_pq_groups(ctx, inp):
    from core import import_dd
    import_dd()
    from dask.dataframe.partitionquantiles import tree_groups
    try:
        r = tree_groups(inp["N"], inp["g"])
        impl = [Sym("ok"), r]
    except ZeroDivisionError:
        impl = [Sym("raised")]
    ctx.eq("tree_groups", ctx.lean(Sym("pq-groups"), inp["N"], inp["g"]), impl)
    if impl[0] == "ok":
        ctx.branch("groups-uneven" if len(set(r)) > 1 else "groups-even")
        if sum(r) != inp["N"] or len(r) != inp["g"]:
            ctx.fail("tree_groups does not split N into num_groups groups", observed=r)


def _eval_tree(summaries):
    """What RepartitionQuantiles._layer computes under merged_key, with the real create_merge_tree / tree_width."""
    from dask.dataframe.partitionquantiles import create_merge_tree, merge_and_compress_summaries, tree_width
    keys = [("p", 1, i) for i in range(len(summaries))]
    env = dict(zip(keys, summaries))
    dsk = create_merge_tree(merge_and_compress_summaries, sorted(keys), "p", 2)
    if not dsk:
        dsk = {("p", 2, 0): (merge_and_compress_summaries, [keys[0]])}
    for k in sorted(dsk):                     # levels ascend, so dependencies are evaluated first
        f, deps = dsk[k]
        env[k] = f([env[d] for d in deps])
    widths, w = [], len(summaries)
    while w > 1:
        w = tree_width(w)
        widths.append(w)
    used = {d for _, deps in dsk.values() for d in deps}
    return env[max(dsk)], widths, all(k in used for k in keys)


def case_pq_tree(ctx, inp):
    from core import import_dd
    import_dd()
    kind = inp["kind"]
    real_in = [_to_py(s, kind) for s in inp["summaries"]]
    res, widths, all_used = _eval_tree(real_in)
    model = ctx.lean(Sym("pq-tree"), widths, inp["summaries"])
    ctx.eq("merge tree of RepartitionQuantiles", model, [Sym("ok"), _from_py(res, _back(kind))])
    ctx.branch("tree-levels-%d" % min(len(widths), 4))
    if not all_used:
        ctx.fail("create_merge_tree drops a per-partition summary", observed=widths)
    flat = ctx.lean(Sym("pq-merge"), inp["summaries"])
    if model[0] == "ok" and model[1] != flat:
        ctx.fail("merge tree result differs from one flat merge_and_compress_summaries", observed=model[1], expected=flat)


# ---------------------------------------------------------------- process_val_weights
def _float_robust(w2, n):
    """Do the two float-rounded quantities of the over-sampled branch (`weights.sum()/n`, `np.linspace` targets) compare
    with the weights / cumulative weights exactly as the exact rationals do?"""
    import numpy as np
    weights = [Fraction(w, 2) for w in w2]
    S = sum(weights)
    jumbo = [n != 0 and w * n >= S for w in weights]
    wf = np.array([float(w) for w in weights])
    with np.errstate(all="ignore"):
        if list(wf >= wf.sum() / n) != jumbo:
            return False
    tw = [w for w, j in zip(weights, jumbo) if not j]
    k = n - sum(jumbo)
    if not tw or k < 0:
        return True
    c = list(itertools.accumulate(tw))
    qt = np.linspace(0, float(c[-1]), k + 1)
    for j, q in enumerate(qt):
        ex = Fraction(j) * c[-1] / k if k else Fraction(0)
        qf = Fraction(float(q))
        for ci in c:
            if (qf < ci) != (ex < ci) or (qf > ci) != (ex > ci):
                return False
    return True


def _pvw_oracle(ctx, what, rv, vals, n, members):
    if len(rv) != n + 1:
        ctx.fail(what + ": wrong number of divisions", observed=rv, expected=n + 1)
    if not _nondecreasing(rv):
        ctx.fail(what + ": divisions decrease", observed=rv)
    if rv and (rv[0] != vals[0] or rv[-1] != vals[-1]):
        ctx.fail(what + ": divisions do not span first..last summarised value", observed=rv, expected=[vals[0], vals[-1]])
    if members and any(x not in vals for x in rv):
        ctx.fail(what + ": a division is not one of the summarised values", observed=rv)


def case_pq_pvw(ctx, inp):
    import numpy as np
    from core import import_dd
    import_dd()
    from dask.dataframe.partitionquantiles import process_val_weights
    kind, n = inp["kind"], inp["n"]
    vals, w2 = inp["summary"]
    numeric = kind == "int"
    real = _to_py(inp["summary"], kind)
    dtype = np.array(real[0]).dtype if real else np.dtype("int64")
    back = _back(kind)
    try:
        with np.errstate(all="ignore"):
            rv = process_val_weights(real, n, (dtype, None))
    except Exception as e:
        rv = None
        exc = f"{type(e).__name__}: {e}"
    model, stats = ctx.lean(Sym("pq-pvw"), inp["summary"], n, numeric)
    if not vals:
        ctx.branch("pqpvw-no-data")
        ctx.eq("process_val_weights without data", model, [Sym("empty")])
        if rv is None or np.ndim(rv) != 0:
            ctx.fail("process_val_weights without data does not return a 0-d null array", observed=repr(rv))
        return
    k = len(vals) - (n + 1)
    cls = "exact" if k == 0 else "undersampled" if k < 0 else "oversampled"
    positive = all(w > 0 for w in w2)
    if rv is None:
        if model != [Sym("raised")]:
            ctx.disagree("process_val_weights raised, the model did not", model, exc)
        if positive and n >= 1:
            ctx.fail("process_val_weights raised on a positive-weight summary: " + exc, observed=exc)
        ctx.branch("pqpvw-raised")
        return
    rvl = [back(x) for x in rv.tolist()] if not (numeric and k < 0) else [float(x) for x in rv.tolist()]
    if numeric and k < 0:
        ctx.branch("pqpvw-undersampled-int-interp(validated only)")
        ctx.eq("process_val_weights: np.interp branch", model, [Sym("interp")])
        if positive:
            _pvw_oracle(ctx, "process_val_weights (np.interp)", rvl, vals, n, members=False)
        return
    robust = cls != "oversampled" or _float_robust(w2, n)
    nj, ntr, ties = stats
    ctx.branch("pqpvw-" + cls + "-" + kind)
    if cls == "oversampled":
        if nj:
            ctx.branch("pqpvw-jumbo")
        if ties > 2:
            ctx.branch("pqpvw-interior-target-hits-cumulative-weight")
        if nj == n:
            ctx.branch("pqpvw-all-partitions-jumbo")
    if robust:
        ctx.eq("process_val_weights", model, [Sym("ok"), rvl])
    else:
        ctx.branch("pqpvw-float-divergent(validated only)")
    if positive and n >= 1:
        _pvw_oracle(ctx, "process_val_weights", rvl, vals, n, members=True)


# ---------------------------------------------------------------- RepartitionQuantiles on exact summaries
def case_pq_rq(ctx, inp):
    import numpy as np
    from core import import_dd
    import_dd()
    from dask.dataframe.partitionquantiles import process_val_weights
    kind, n = inp["kind"], inp["n"]
    real_in = [_to_py(s, kind) for s in inp["summaries"]]
    merged, widths, _ = _eval_tree(real_in)
    allv = sorted({v for s in inp["summaries"] for v in s[0]})
    flat_w = ctx.lean(Sym("pq-merge"), inp["summaries"])[1]
    numeric = kind == "int"
    model = ctx.lean(Sym("pq-rq"), widths, inp["summaries"], n, numeric)
    if not allv:
        ctx.eq("RepartitionQuantiles without data", model, [Sym("empty")])
        ctx.branch("rq-no-data")
        return
    dtype = np.array(merged[0]).dtype
    with np.errstate(all="ignore"):
        rv = process_val_weights(merged, n, (dtype, None))
    under = len(allv) < n + 1
    if numeric and under:
        ctx.eq("RepartitionQuantiles: np.interp branch", model, [Sym("interp")])
        rvl = [float(x) for x in rv.tolist()]
        ctx.branch("rq-int-interp(validated only)")
        _pvw_oracle(ctx, "RepartitionQuantiles (np.interp)", rvl, allv, n, members=False)
        return
    rvl = [_back(kind)(x) for x in rv.tolist()]
    ctx.branch("rq-" + kind + ("-undersampled" if under else "-exact" if len(allv) == n + 1 else "-oversampled"))
    if len(allv) <= n + 1 or _float_robust(flat_w, n):
        ctx.eq("RepartitionQuantiles on exact summaries", model, [Sym("ok"), rvl])
    else:
        ctx.branch("rq-float-divergent(validated only)")
    # the statement: non-decreasing, spans min..max of everything summarised
    _pvw_oracle(ctx, "RepartitionQuantiles", rvl, allv, n, members=True)


# ---------------------------------------------------------------- _calculate_divisions: duplicate divisions dropped
def case_pq_setindex(ctx, inp):
    import pandas as pd
    from core import import_dd
    dd = import_dd()
    import dask
    from dask.dataframe.dask_expr._shuffle import _calculate_divisions
    kind = inp["kind"]
    if kind == "datetime":
        conv = lambda v: pd.Timestamp("2021-03-01") + pd.Timedelta(hours=7 * v)
        back = lambda t: int((pd.Timestamp(t) - pd.Timestamp("2021-03-01")) / pd.Timedelta(hours=7))
    else:
        conv, back = _conv(kind), _back(kind)
    keys = [conv(v) for v in inp["vals"]]
    df = pd.DataFrame({"k": keys, "v": range(len(keys))})
    with dask.config.set({"dataframe.convert-string": False, "scheduler": "sync"}):
        d = dd.from_pandas(df, npartitions=inp["nin"], sort=False)
        q = d["k"]._repartition_quantiles(inp["nout"], upsample=inp.get("upsample", 1.0)).compute()
        divs, mins, maxes, presorted = _calculate_divisions(d.expr, d["k"].expr, inp["nout"], upsample=inp.get("upsample", 1.0))
    ql = [back(x) for x in q.tolist()]
    dl = [back(x) for x in divs]
    ctx.branch("setindex-" + kind + ("-duplicate-divisions" if len(set(ql)) < len(ql) else ""))
    if not _nondecreasing(ql) or ql[0] != min(inp["vals"]) or ql[-1] != max(inp["vals"]) or len(ql) != inp["nout"] + 1:
        ctx.fail("quantile divisions (%s): not non-decreasing from min to max with npartitions+1 entries" % kind, observed=ql,
                 expected=[min(inp["vals"]), max(inp["vals"])])
    ctx.eq("_calculate_divisions: duplicate divisions dropped", ctx.lean(Sym("pq-dropdup"), ql), dl)
    if not all(a < b for a, b in zip(dl[:-1], dl[1:-1])) or not _nondecreasing(dl) or dl[0] != min(inp["vals"]) or dl[-1] != max(inp["vals"]):
        ctx.fail("set_index divisions: not increasing from min to max", observed=dl)


CASES = {"pq_merge": case_pq_merge, "pq_ptw": case_pq_ptw, "pq_summary": case_pq_summary, "pq_groups": case_pq_groups,
         "pq_tree": case_pq_tree, "pq_pvw": case_pq_pvw, "pq_rq": case_pq_rq, "pq_setindex": case_pq_setindex}


# ---------------------------------------------------------------- generators
def _gen_summary(rng, hi, maxlen, wchoices, allow_empty=True):
    if allow_empty and rng.random() < 0.12:
        return [[], []]
    ln = rng.randint(2, maxlen)
    vals = sorted(rng.randint(0, hi) for _ in range(ln))
    return [vals, [rng.choice(wchoices) for _ in vals]]


def _gen_merged(rng, nv, hi, wchoices):
    vals = sorted(rng.sample(range(hi), nv))
    return [vals, [rng.choice(wchoices) for _ in vals]]


_W = [1, 1, 2, 2, 3, 4, 5, 7, 20, 80]          # twice the weight


def generate(ctx):
    rng = ctx.rng
    # tree_groups: exhaustive small space + the degenerate num_groups
    top = 24 if not ctx.thorough() else 70
    for N in range(0, top + 1):
        for g in range(0, N + 3):
            yield "pq_groups", {"N": N, "g": g}
    for _ in range(ctx.n(40, 400)):
        N = rng.randint(30, 5000)
        yield "pq_groups", {"N": N, "g": rng.randint(1, N)}
    for _ in range(ctx.n(120, 2000)):
        ln = rng.randint(1, 9)
        qs = sorted(rng.sample(range(0, 101), ln)) if rng.random() < 0.8 else sorted(rng.randint(0, 100) for _ in range(ln))
        yield "pq_ptw", {"qs": qs, "length": rng.choice([0, 1, 2, 3, 7, 10, 31])}
    for _ in range(ctx.n(250, 4000)):
        k = rng.randint(1, 7)
        hi = rng.choice([3, 8, 30])
        yield "pq_merge", {"summaries": [_gen_summary(rng, hi, 7, _W) for _ in range(k)], "kind": rng.choice(["int", "str"])}
    yield "pq_merge", {"summaries": [], "kind": "int"}
    yield "pq_merge", {"summaries": [[[], []], [[], []]], "kind": "int"}
    for _ in range(ctx.n(60, 800)):
        k = rng.choice([1, 2, 3, 4, 5, 7, 9, 12, 17, 33, 40]) if rng.random() < 0.7 else rng.randint(1, 70)
        yield "pq_tree", {"summaries": [_gen_summary(rng, 12, 4, _W) for _ in range(k)], "kind": rng.choice(["int", "str"])}
    yield "pq_pvw", {"summary": [[], []], "n": 3, "kind": "int"}
    for _ in range(ctx.n(500, 8000)):
        nv = rng.randint(1, 14)
        r = rng.random()
        w = [2] if r < 0.25 else [2, 4, 6] if r < 0.5 else _W        # equal weights: targets hit cumulative weights
        if rng.random() < 0.06:
            w = w + [0, 0]                                            # malformed stream: zero weights (no oracle, diff only)
        n = rng.randint(1, 12) if rng.random() < 0.7 else rng.choice([1, 2, 4, 8])
        yield "pq_pvw", {"summary": _gen_merged(rng, nv, 60, w), "n": n, "kind": rng.choice(["int", "str", "str"])}
    for _ in range(ctx.n(80, 1200)):
        k = rng.randint(1, 6)
        yield "pq_rq", {"summaries": [_gen_summary(rng, rng.choice([4, 10, 40]), 6, _W) for _ in range(k)],
                        "n": rng.randint(1, 9), "kind": rng.choice(["int", "str", "str"])}
    for _ in range(ctx.n(40, 500)):
        ln = rng.choice([0, 1, 2, 3, 5, 8, 13, 40, 90])
        hi = rng.choice([3, 20, 1000])
        yield "pq_summary", {"data": [rng.randint(0, hi) for _ in range(ln)], "kind": rng.choice(["int", "str"]),
                             "num_old": rng.randint(1, 6), "num_new": rng.randint(1, 8), "upsample": rng.choice([1.0, 0.3, 4.0]),
                             "state": rng.randint(0, 2 ** 31 - 1)}
    for _ in range(ctx.n(25, 300)):
        ln = rng.randint(2, 40)
        vals = [rng.randint(0, rng.choice([2, 5, 20, 100])) for _ in range(ln)]
        yield "pq_setindex", {"vals": vals, "kind": rng.choice(["int", "str", "datetime"]), "nin": rng.randint(1, min(ln, 5)),
                              "nout": rng.randint(1, 8), "upsample": rng.choice([1.0, 1.0, 0.3])}
