"""Helpers shared by the `chunks` group (C23, C24, C27, C34): generators and canonicalisers."""
from __future__ import annotations

import itertools

from sexp import Sym

# Import the heavy modules once, at module import time (core.py has already put DASK_REPO first on sys.path):
# otherwise the first case pays for the imports inside its per-case watchdog and can time out on a loaded machine.
import numpy  # noqa: E402,F401
import dask  # noqa: E402,F401
import dask.array  # noqa: E402,F401
import dask.array.rechunk  # noqa: E402,F401
import dask.array.reshape  # noqa: E402,F401


def setup_dask():
    import dask
    dask.config.set(scheduler="sync")
    return dask


def comps(n):
    """All compositions of n (tuples of positive ints summing to n); (0,) for n == 0."""
    if n == 0:
        return [(0,)]
    out = []
    for k in range(1 << (n - 1)):
        c, cur = [], 1
        for b in range(n - 1):
            if k >> b & 1:
                c.append(cur)
                cur = 1
            else:
                cur += 1
        c.append(cur)
        out.append(tuple(c))
    return out


def rand_comp(rng, n, style=None):
    """A random chunking of a dimension of length n: structured, mostly irregular."""
    if n == 0:
        return [0]
    style = style or rng.choice(["uniform", "irregular", "irregular", "ones", "single", "ragged"])
    if style == "single":
        return [n]
    if style == "ones":
        return [1] * n
    if style == "uniform":
        c = rng.randint(1, n)
        return [c] * (n // c) + ([n % c] if n % c else [])
    if style == "ragged":
        # a few big chunks and runs of size-1 chunks
        out, left = [], n
        while left:
            c = 1 if rng.random() < 0.5 else rng.randint(1, left)
            out.append(c)
            left -= c
        return out
    # irregular: random cut points
    k = rng.randint(0, min(n - 1, 6))
    cuts = sorted(rng.sample(range(1, n), k)) if n > 1 else []
    edges = [0] + cuts + [n]
    return [b - a for a, b in zip(edges, edges[1:])]


def rand_comp_zeros(rng, n):
    """A chunking that may contain zero-length chunks (dask allows them, e.g. after boolean masks)."""
    c = rand_comp(rng, n) if n else []
    for _ in range(rng.randint(0, 2)):
        c.insert(rng.randint(0, len(c)), 0)
    return c or [0]


def rand_shape(rng, maxd=3, maxn=6, minn=1):
    return [rng.randint(minn, maxn) for _ in range(rng.randint(1, maxd))]


def rand_chunks(rng, shape):
    return [rand_comp(rng, s) for s in shape]


def valid_dim(c, s):
    c = list(c)
    return sum(c) == s and len(c) > 0 and (all(x > 0 for x in c) or c == [0])


def exc_name(e):
    return type(e).__name__


def arr_eq(a, b, exact=True):
    """Shape, dtype and values (NaN-aware); floats exactly unless exact=False."""
    import numpy as np
    a = np.asarray(a)
    b = np.asarray(b)
    if a.shape != b.shape or a.dtype != b.dtype:
        return False
    if exact or a.dtype.kind not in "fc":
        return bool(np.array_equal(a, b, equal_nan=a.dtype.kind in "fc"))
    return bool(np.allclose(a, b, rtol=1e-12, atol=1e-12, equal_nan=True))


def blocks_match_chunks(r):
    """Every computed block has exactly the shape `.chunks` declares. Returns None or a description."""
    if r.ndim == 0:
        return None
    for idx in itertools.product(*[range(len(c)) for c in r.chunks]):
        try:
            b = r.blocks[idx].compute(scheduler="sync")
        except Exception as e:  # graph lacks a declared block, etc.
            return f"block {idx} failed: {type(e).__name__}: {str(e)[:80]}"
        want = tuple(c[i] for c, i in zip(r.chunks, idx))
        if tuple(b.shape) != want:
            return f"block {idx} has shape {tuple(b.shape)}, chunks declare {want}"
    return None


def sym(s):
    return Sym(s)
