"""Helpers shared by the hlg group (C10 C19 C25 C35): chunk generators, a tiny JSON-able array-program language
interpreted both with NumPy and with dask.array, and the translation of real `Blockwise` layers to the
s-expressions of the Lean model (lean/DaskModel/Model/Blockwise.lean)."""
from __future__ import annotations

import itertools
import math

from sexp import Sym

# ----------------------------------------------------------------------------------------------
# chunkings
# ----------------------------------------------------------------------------------------------


def comps(n):
    """all compositions of n (chunk tuples of a dimension of length n); (0,) for n == 0"""
    if n == 0:
        return [(0,)]
    out = []
    for k in range(1 << (n - 1)):
        c, cur = [], 1
        for b in range(n - 1):
            if k >> b & 1:
                c.append(cur)
                cur = 1
            else:
                cur += 1
        c.append(cur)
        out.append(tuple(c))
    return out


def rand_comp(rng, n):
    """a random composition of n: irregular, with a bias towards size-1 chunks and single chunks"""
    if n == 0:
        return [0]
    t = rng.random()
    if t < 0.2:
        return [n]
    if t < 0.3:
        return [1] * n
    if t < 0.45:
        c = rng.randint(1, n)
        out = [c] * (n // c)
        if n % c:
            out.append(n % c)
        return out
    out, left = [], n
    while left:
        c = rng.randint(1, left)
        out.append(c)
        left -= c
    return out


def rand_chunks(rng, shape, zeros=0.0):
    """`zeros`: probability (per axis) of inserting zero-length chunks into a non-empty axis, e.g. (1, 0, 0), (2, 0, 1)"""
    out = []
    for s in shape:
        c = rand_comp(rng, s)
        if zeros and s > 0 and rng.random() < zeros:
            for _ in range(rng.randint(1, 2)):
                c.insert(rng.randint(0, len(c)), 0)
        out.append(c)
    return out


def cumsum0(c):
    out, s = [0], 0
    for x in c:
        s += x
        out.append(s)
    return out


# ----------------------------------------------------------------------------------------------
# array programs
# ----------------------------------------------------------------------------------------------

UNARY = {
    "neg": lambda m, x: m.negative(x),
    "abs": lambda m, x: m.absolute(x),
    "square": lambda m, x: m.square(x),
    "sign": lambda m, x: m.sign(x),
    "sqrt": lambda m, x: m.sqrt(m.absolute(x)),
    "exp": lambda m, x: m.exp(x % 3),
    "isnan": lambda m, x: m.isnan(x),
    "floor": lambda m, x: m.floor(x),
    "lognot": lambda m, x: m.logical_not(x),
    "invert": lambda m, x: ~x,
    "conj": lambda m, x: m.conj(x),
    "real": lambda m, x: m.real(x),
    "signbit": lambda m, x: m.signbit(x),
}
BINARY = {
    "add": lambda m, a, b: a + b,
    "sub": lambda m, a, b: a - b,
    "mul": lambda m, a, b: a * b,
    "radd": lambda m, a, b: b + a,
    "truediv": lambda m, a, b: a / (abs(b) + 1),
    "floordiv": lambda m, a, b: a // (abs(b) + 1),
    "mod": lambda m, a, b: a % (abs(b) + 1),
    "maximum": lambda m, a, b: m.maximum(a, b),
    "minimum": lambda m, a, b: m.minimum(a, b),
    "less": lambda m, a, b: a < b,
    "ge": lambda m, a, b: a >= b,
    "eq": lambda m, a, b: a == b,
    "ne": lambda m, a, b: a != b,
    "logand": lambda m, a, b: m.logical_and(a, b),
    "logxor": lambda m, a, b: m.logical_xor(a, b),
    "hypot": lambda m, a, b: m.hypot(a, b),
    "arctan2": lambda m, a, b: m.arctan2(a, b),
    "copysign": lambda m, a, b: m.copysign(a, b),
    "fmax": lambda m, a, b: m.fmax(a, b),
}
INT_ONLY_BIN = {"floordiv", "mod"}
FLOAT_BIN = {"hypot", "arctan2", "copysign", "fmax", "truediv"}


def leaf_data(shape, dtype, salt=0):
    import numpy as np
    n = int(math.prod(shape))
    base = (np.arange(n, dtype="i8") * (7 + 2 * (salt % 5)) + 3 * salt) % 11 - 3
    base = base.reshape(tuple(shape))
    dt = np.dtype(dtype)
    if dt.kind == "b":
        return base % 2 == 0
    if dt.kind == "c":
        return (base + 1j * (base % 3)).astype(dt)
    if dt.kind == "M":
        return (np.datetime64("2020-01-01", "D") + base).astype(dt)
    if dt.kind == "m":
        return base.astype(dt)
    if dt.kind == "u":
        return (base % 7).astype(dt)
    if dt.kind == "f":
        return (base * 0.5).astype(dt)
    return base.astype(dt)


class ProgError(Exception):
    """the program is not valid for NumPy either (generator artefact): the case is skipped"""


def run_prog(p, lib):
    """Interpret program `p` with `lib` = "np" or "da". Returns the array (NumPy ndarray or dask Array)."""
    import numpy as np
    import dask.array as da
    m = np if lib == "np" else da
    op = p["op"]
    if op == "leaf":
        x = leaf_data(p["shape"], p["dtype"], p.get("salt", 0))
        if lib == "np":
            return x
        return da.from_array(x, chunks=tuple(tuple(c) for c in p["chunks"]), name=p.get("name") or None)
    if op == "npleaf":  # a NumPy operand even on the dask side
        return leaf_data(p["shape"], p["dtype"], p.get("salt", 0))
    if op == "scalar":
        v = p["v"]
        return np.dtype(p["dtype"]).type(v) if p.get("dtype") else v
    if op == "un":
        return UNARY[p["f"]](m, run_prog(p["a"], lib))
    if op == "bin":
        return BINARY[p["f"]](m, run_prog(p["a"], lib), run_prog(p["b"], lib))
    if op == "where":
        return m.where(run_prog(p["c"], lib), run_prog(p["a"], lib), run_prog(p["b"], lib))
    if op == "astype":
        return run_prog(p["a"], lib).astype(p["dtype"])
    if op == "clip":
        return m.clip(run_prog(p["a"], lib), p["lo"], p["hi"])
    if op == "T":
        return run_prog(p["a"], lib).transpose(p["perm"])
    if op == "sum":
        return run_prog(p["a"], lib).sum(axis=p["axis"], keepdims=p.get("keepdims", False))
    if op == "red":
        a = run_prog(p["a"], lib)
        kw = {"axis": p["axis"], "keepdims": p.get("keepdims", False)}
        if lib == "da" and p.get("split_every"):
            kw["split_every"] = p["split_every"]
        return getattr(a, p["f"])(**kw)
    if op == "cumsum":
        return m.cumsum(run_prog(p["a"], lib), axis=p["axis"])
    if op == "rechunk":
        a = run_prog(p["a"], lib)
        return a if lib == "np" else a.rechunk(tuple(tuple(c) for c in p["chunks"]))
    if op == "slice":
        a = run_prog(p["a"], lib)
        idx = tuple(slice(*s) if isinstance(s, list) else s for s in p["idx"])
        return a[idx]
    if op == "take":
        a = run_prog(p["a"], lib)
        idx = [slice(None)] * a.ndim
        idx[p["axis"]] = p["idx"]
        return a[tuple(idx)]
    if op == "concat":
        return m.concatenate([run_prog(q, lib) for q in p["args"]], axis=p["axis"])
    if op == "stack":
        return m.stack([run_prog(q, lib) for q in p["args"]], axis=p["axis"])
    if op == "bcast":
        return m.broadcast_to(run_prog(p["a"], lib), tuple(p["shape"]))
    if op == "reshape":
        return run_prog(p["a"], lib).reshape(tuple(p["shape"]))
    if op == "expand":
        return m.expand_dims(run_prog(p["a"], lib), p["axis"])
    if op == "squeeze":
        return m.squeeze(run_prog(p["a"], lib), axis=p["axis"])
    if op == "flip":
        return m.flip(run_prog(p["a"], lib), p["axis"])
    if op == "repeat":
        return m.repeat(run_prog(p["a"], lib), p["n"], axis=p["axis"])
    if op == "tile":
        return m.tile(run_prog(p["a"], lib), p["reps"])
    if op == "pad":
        return m.pad(run_prog(p["a"], lib), p["width"], mode=p.get("mode", "constant"))
    if op == "diff":
        return m.diff(run_prog(p["a"], lib), axis=p["axis"])
    if op == "dot":
        return m.tensordot(run_prog(p["a"], lib), run_prog(p["b"], lib), axes=p.get("axes", 1))
    if op == "mb":  # map_blocks, shape preserving
        a = run_prog(p["a"], lib)
        if lib == "np":
            return a * 2 + 1
        return a.map_blocks(_mb_affine, dtype=a.dtype)
    if op == "mb2":  # two-input map_blocks (align_arrays=False): blocks are paired by block index, broadcasting
        a = run_prog(p["a"], lib)
        b = run_prog(p["b"], lib)
        if lib == "np":
            return a - 2 * b
        return da.map_blocks(_sub2, a, b, dtype=np.result_type(a.dtype, b.dtype))
    if op == "mb_new":  # map_blocks(new_axis=ax)
        a = run_prog(p["a"], lib)
        ax = p["axis"]
        if lib == "np":
            return np.expand_dims(a, ax)
        return a.map_blocks(_ExpandDims(ax), new_axis=ax, dtype=a.dtype)
    if op == "mb_drop":  # map_blocks(drop_axis=ax): sums the (single-chunk or concatenated) axis away
        a = run_prog(p["a"], lib)
        ax = p["axis"]
        if lib == "np":
            return a.sum(axis=ax)
        return a.map_blocks(_SumAxis(ax), drop_axis=ax, dtype=a.sum(axis=ax).dtype)
    if op == "bwsum":  # blockwise contraction, concatenate=True
        a = run_prog(p["a"], lib)
        ax = p["axis"]
        if lib == "np":
            return a.sum(axis=ax)
        ind = tuple(range(a.ndim))
        out = tuple(i for i in ind if i != ax)
        return da.blockwise(_SumAxis(ax), out, a, ind, concatenate=True, dtype=a.sum(axis=ax).dtype)
    if op == "bwlist":  # blockwise contraction, concatenate=None: the function receives a list of blocks
        a = run_prog(p["a"], lib)
        ax = p["axis"]
        if lib == "np":
            return a.sum(axis=ax)
        ind = tuple(range(a.ndim))
        out = tuple(i for i in ind if i != ax)
        return da.blockwise(_SumList(ax), out, a, ind, dtype=a.sum(axis=ax).dtype)
    if op == "bwc":  # two-argument contraction over symbol `ax`: out = sum_ax a * b ; b may be broadcast (size 1) along ax
        a = run_prog(p["a"], lib)
        b = run_prog(p["b"], lib)
        ia = list(range(a.ndim))
        ib = list(p["ib"])
        out = [s for s in ia if s != p["axis"]]
        sig = _einsum_sig(ia, ib, out)
        if lib == "np":
            full = np.broadcast_to(b, tuple(a.shape[s] for s in ib))
            return np.einsum(sig, a, full)
        return da.blockwise(_Contract(sig, p["conc"]), tuple(out), a, tuple(ia), b, tuple(ib),
                            concatenate=True if p["conc"] else None, dtype=np.result_type(a.dtype, b.dtype))
    if op == "bwself":  # the SAME array twice with different index strings: out_ij = a_ij + a_ji (generalised by `perm`)
        a = run_prog(p["a"], lib)
        perm = p["perm"]
        if lib == "np":
            return a + a.transpose(perm)
        ind = list(range(a.ndim))
        ib = [perm.index(m) for m in ind]   # axis m of `a` carries the output symbol k with perm[k] == m
        return da.blockwise(_AlignAdd(ind, ib, ind), tuple(ind), a, tuple(ind), a, tuple(ib), dtype=a.dtype)
    if op == "bw2":  # two-argument blockwise with explicit index strings: f(a, b) = a + b (broadcast by index)
        a = run_prog(p["a"], lib)
        b = run_prog(p["b"], lib)
        if lib == "np":
            return np.einsum(_einsum_sig(p["ia"], p["ib"], p["out"]), a, b) if p.get("mode") == "mul" else \
                _np_align_add(a, p["ia"], b, p["ib"], p["out"])
        if p.get("mode") == "mul":
            return da.einsum(_einsum_sig(p["ia"], p["ib"], p["out"]), a, b)
        return da.blockwise(_AlignAdd(p["ia"], p["ib"], p["out"]), tuple(p["out"]), a, tuple(p["ia"]), b, tuple(p["ib"]),
                            dtype=np.result_type(a.dtype, b.dtype))
    raise ValueError("unknown op " + op)


def _mb_affine(b):
    return b * 2 + 1


def _sub2(a, b):
    return a - 2 * b


class _ExpandDims:
    def __init__(self, ax):
        self.ax = ax

    def __call__(self, b):
        import numpy as np
        return np.expand_dims(b, self.ax)

    def __dask_tokenize__(self):
        return ("_ExpandDims", self.ax)


class _SumAxis:
    def __init__(self, ax):
        self.ax = ax

    def __call__(self, b):
        return b.sum(axis=self.ax)

    def __dask_tokenize__(self):
        return ("_SumAxis", self.ax)


class _SumList:
    def __init__(self, ax):
        self.ax = ax

    def __call__(self, blocks):
        if not isinstance(blocks, list):
            return blocks.sum(axis=self.ax)
        r = None
        for b in blocks:
            s = b.sum(axis=self.ax)
            r = s if r is None else r + s
        return r

    def __dask_tokenize__(self):
        return ("_SumList", self.ax)


class _Contract:
    """f for a two-argument blockwise contraction: with concatenate=True it receives whole (concatenated) blocks,
    otherwise lists of blocks along the contracted index (an argument broadcast along it arrives repeated)."""

    def __init__(self, sig, conc):
        self.sig, self.conc = sig, bool(conc)

    def _one(self, x, y):
        import numpy as np
        ins, _ = self.sig.split("->")
        sa, sb = ins.split(",")
        shape = tuple(x.shape[sa.index(c)] for c in sb)
        return np.einsum(self.sig, x, np.broadcast_to(y, shape))

    def __call__(self, a, b):
        if isinstance(a, list):
            bs = b if isinstance(b, list) else [b] * len(a)
            if len(bs) != len(a):
                raise ValueError(f"blockwise passed {len(a)} blocks of a but {len(bs)} of b")
            r = None
            for x, y in zip(a, bs):
                t = self._one(x, y)
                r = t if r is None else r + t
            return r
        if isinstance(b, list):
            raise ValueError("blockwise passed a list for b but a single block for a")
        return self._one(a, b)

    def __dask_tokenize__(self):
        return ("_Contract", self.sig, self.conc)


class _AlignAdd:
    """f(a_block, b_block) for blockwise with index strings ia, ib -> out (no contraction): aligned addition"""

    def __init__(self, ia, ib, out):
        self.ia, self.ib, self.out = list(ia), list(ib), list(out)

    def __call__(self, a, b):
        return _np_align_add(a, self.ia, b, self.ib, self.out)

    def __dask_tokenize__(self):
        return ("_AlignAdd", self.ia, self.ib, self.out)


def _np_align_add(a, ia, b, ib, out):
    import numpy as np

    def align(x, ix):
        # transpose x's axes into the order of `out`, inserting length-1 axes for missing symbols
        perm = [ix.index(s) for s in out if s in ix]
        x = np.transpose(x, perm)
        shape = []
        it = iter(x.shape)
        for s in out:
            shape.append(next(it) if s in ix else 1)
        return x.reshape(shape)
    return align(a, list(ia)) + align(b, list(ib))


def _einsum_sig(ia, ib, out):
    L = "abcdefghijklmnop"
    return "".join(L[i] for i in ia) + "," + "".join(L[i] for i in ib) + "->" + "".join(L[i] for i in out)


def prog_ops(p, acc=None):
    acc = [] if acc is None else acc
    if isinstance(p, dict) and "op" in p:
        acc.append(p["op"] + (":" + p["f"] if "f" in p and isinstance(p["f"], str) else ""))
        for v in p.values():
            if isinstance(v, dict):
                prog_ops(v, acc)
            elif isinstance(v, list):
                for e in v:
                    if isinstance(e, dict):
                        prog_ops(e, acc)
    return acc


# ----------------------------------------------------------------------------------------------
# program generator (runs NumPy while generating so that every program is shape-valid)
# ----------------------------------------------------------------------------------------------

INT_DT = ["i8", "i4", "i2", "u1"]
FLT_DT = ["f8", "f4"]


class ProgGen:
    """weights: op name -> relative weight. `leaf_dtypes`: dtype pool of leaves."""

    def __init__(self, rng, weights, leaf_dtypes=("i8", "i4", "f8"), maxdim=4, maxnd=3, allow_zero=False, allow_0d=True,
                 zero_chunks=0.0):
        self.zero_chunks = zero_chunks
        self.rng = rng
        self.weights = weights
        self.leaf_dtypes = list(leaf_dtypes)
        self.maxdim = maxdim
        self.maxnd = maxnd
        self.allow_zero = allow_zero
        self.allow_0d = allow_0d
        self.salt = 0

    def shape(self, nd=None):
        r = self.rng
        if nd is None:
            nd = r.randint(0 if self.allow_0d else 1, self.maxnd)
        lo = 0 if (self.allow_zero and r.random() < 0.15) else 1
        return [r.randint(lo, self.maxdim) for _ in range(nd)]

    def leaf(self, shape=None, dtype=None):
        shape = self.shape() if shape is None else list(shape)
        self.salt += 1
        return {"op": "leaf", "shape": shape, "chunks": rand_chunks(self.rng, shape, self.zero_chunks),
                "dtype": dtype or self.rng.choice(self.leaf_dtypes), "salt": self.salt}

    def compatible_shape(self, shape):
        """a shape that broadcasts with `shape` (NumPy rules): drop leading dims, replace some by 1"""
        r = self.rng
        nd = len(shape)
        t = r.random()
        if t < 0.15:
            extra = [r.randint(1, 3) for _ in range(r.randint(1, 2))]
            return extra + list(shape)
        k = r.randint(0, nd) if t < 0.6 else nd
        s = list(shape[nd - k:])
        for i in range(len(s)):
            if r.random() < 0.25:
                s[i] = 1
        return s

    def gen(self, depth):
        import numpy as np
        r = self.rng
        for _ in range(50):
            if depth <= 0 or r.random() < 0.12:
                p = self.leaf()
                return p, run_prog(p, "np")
            p, x = self.gen(depth - 1)
            names = list(self.weights)
            op = r.choices(names, weights=[self.weights[n] for n in names])[0]
            q = self.apply(op, p, x, depth)
            if q is None:
                return p, x
            try:
                with np.errstate(all="ignore"):
                    y = run_prog(q, "np")
            except Exception:
                return p, x
            if y.size > 400:
                return p, x
            return q, y
        raise RuntimeError("generator did not converge")

    def apply(self, op, p, x, depth):
        import numpy as np
        r = self.rng
        nd = x.ndim
        kind = x.dtype.kind
        if op == "un":
            pool = ["neg", "abs", "square", "sign"] if kind in "iuf" else []
            if kind == "f":
                pool += ["sqrt", "exp", "isnan", "floor", "signbit"]
            if kind in "iu":
                pool += ["invert", "sqrt"]
            if kind == "b":
                pool += ["lognot", "invert"]
            if kind == "c":
                pool += ["conj", "real", "abs", "neg"]
            if kind == "m":
                pool += ["neg", "abs"]
            if not pool:
                return None
            return {"op": "un", "f": r.choice(pool), "a": p}
        if op == "bin":
            t = r.random()
            if t < 0.55:
                sh = self.compatible_shape(list(x.shape))
                q = self.leaf(sh) if r.random() < 0.7 else self.gen(max(0, depth - 2))[0]
                if q["op"] != "leaf":
                    try:
                        np.broadcast_shapes(tuple(run_prog(q, "np").shape), x.shape)
                    except ValueError:
                        q = self.leaf(sh)
            elif t < 0.75:
                self.salt += 1
                q = {"op": "npleaf", "shape": self.compatible_shape(list(x.shape)), "dtype": r.choice(self.leaf_dtypes), "salt": self.salt}
            else:
                q = {"op": "scalar", "v": r.choice([0, 1, 2, -3, 2.5, True])}
                if r.random() < 0.3:
                    q = {"op": "scalar", "v": r.choice([1, 2, 3]), "dtype": r.choice(["i1", "i8", "f4", "f8", "u2"])}
            pool = ["add", "sub", "mul", "maximum", "minimum", "less", "ge", "eq", "ne", "radd"]
            if kind in "iu":
                pool += ["floordiv", "mod"]
            if kind in "iuf":
                pool += ["truediv", "hypot", "arctan2", "copysign", "fmax"]
            if kind == "b":
                pool = ["logand", "logxor", "eq", "ne", "add", "mul"]
            if kind in "cMm":
                pool = ["eq", "ne"] if kind != "c" else ["add", "mul", "eq", "sub"]
            if kind in "Mm" and r.random() < 0.7:
                # datetime/timedelta arithmetic needs a partner of the same kind: a fresh leaf of the same dtype
                q = self.leaf(self.compatible_shape(list(x.shape)), str(x.dtype))
                pool = ["eq", "ne", "less", "ge", "sub", "maximum", "minimum"] + (["add"] if kind == "m" else [])
            f = r.choice(pool)
            if kind == "b" and f in ("sub",):
                return None
            a, b = (p, q) if r.random() < 0.7 or q["op"] != "leaf" else (q, p)
            return {"op": "bin", "f": f, "a": a, "b": b}
        if op == "where":
            sh = list(x.shape)
            c = self.leaf(self.compatible_shape(sh), "bool")
            b = self.leaf(self.compatible_shape(sh), str(x.dtype)) if r.random() < 0.7 else {"op": "scalar", "v": 0}
            if kind in "Mm":
                return None
            return {"op": "where", "c": c, "a": p, "b": b}
        if op == "astype":
            if kind in "cMm":
                return None
            return {"op": "astype", "a": p, "dtype": r.choice(["f8", "i8", "f4", "i4", "bool", "c16", "u1", "i2"])}
        if op == "clip":
            if kind not in "iuf":
                return None
            return {"op": "clip", "a": p, "lo": r.choice([-2, 0, 1]), "hi": r.choice([2, 3, 5])}
        if op == "T":
            if nd < 1:
                return None
            perm = list(range(nd))
            r.shuffle(perm)
            return {"op": "T", "a": p, "perm": perm}
        if op in ("sum", "bwsum", "bwlist", "mb_drop", "cumsum", "flip", "diff"):
            if nd < 1 or kind in "Mm" or (kind == "b" and op in ("diff",)):
                return None
            ax = r.randrange(nd)
            if op == "diff" and x.shape[ax] < 1:
                return None
            q = {"op": op, "a": p, "axis": ax}
            if op == "sum" and r.random() < 0.3:
                q["keepdims"] = True
            return q
        if op == "red":
            if nd < 1 or kind in "cMm" or 0 in x.shape:
                return None
            f = r.choice(["max", "min", "mean", "prod", "any", "all", "std", "argmax"])
            ax = r.randrange(nd)
            q = {"op": "red", "f": f, "a": p, "axis": ax, "split_every": r.choice([None, 2, 3])}
            if f != "argmax" and r.random() < 0.3:
                q["keepdims"] = True
            return q
        if op in ("mb",):
            if kind in "bMm":
                return None
            return {"op": "mb", "a": p}
        if op == "mb2":
            if kind in "bMm" or p["op"] != "leaf":
                return None
            # map_blocks does not unify chunks: the partner is a leaf whose axes have the same chunks as `p`'s or length 1
            k = r.randint(0, nd)
            sh = [s if r.random() < 0.6 else 1 for s in x.shape[nd - k:]]
            q = self.leaf(sh, str(x.dtype))
            q["chunks"] = [(p["chunks"][nd - k + j] if sh[j] == x.shape[nd - k + j] else [1]) for j in range(k)]
            return {"op": "mb2", "a": p, "b": q} if r.random() < 0.5 else {"op": "mb2", "a": q, "b": p}
        if op in ("mb_new", "expand"):
            return {"op": op, "a": p, "axis": r.randint(0, nd)}
        if op == "squeeze":
            ones = [i for i, s in enumerate(x.shape) if s == 1]
            if not ones:
                return None
            return {"op": "squeeze", "a": p, "axis": r.choice(ones)}
        if op == "rechunk":
            return {"op": "rechunk", "a": p, "chunks": rand_chunks(r, x.shape)}
        if op == "slice":
            if nd < 1:
                return None
            idx = []
            for s in x.shape:
                t = r.random()
                if t < 0.35:
                    idx.append([None, None, None])
                elif t < 0.85:
                    a = r.randint(-s - 1, s + 1)
                    b = r.randint(-s - 1, s + 1)
                    st = r.choice([None, 1, 2, -1, -2, 3])
                    # clipped negative-step starts are a known defect of the slicing group (C20 #13): keep away
                    if st is not None and st < 0 and a < -s:
                        a = None
                    idx.append([r.choice([None, a]), r.choice([None, b]), st])
                elif s > 0:
                    idx.append(r.randrange(-s, s))
                else:
                    idx.append([None, None, None])
            return {"op": "slice", "a": p, "idx": idx}
        if op == "take":
            if nd < 1:
                return None
            ax = r.randrange(nd)
            s = x.shape[ax]
            if s == 0:
                return None
            return {"op": "take", "a": p, "axis": ax, "idx": [r.randrange(-s, s) for _ in range(r.randint(1, 4))]}
        if op in ("concat", "stack"):
            if op == "concat" and nd < 1:
                return None
            ax = r.randrange(nd) if op == "concat" else r.randint(0, nd)
            sh = list(x.shape)
            if op == "concat":
                sh[ax] = r.randint(0 if self.allow_zero else 1, 3)
            q = self.leaf(sh, str(x.dtype) if kind in "Mmb" else None)
            return {"op": op, "args": [p, q] if r.random() < 0.6 else [q, p], "axis": ax}
        if op == "bcast":
            sh = [r.randint(1, 2) for _ in range(r.randint(0, 1))] + [s if s != 1 or r.random() < 0.5 else r.randint(1, 3) for s in x.shape]
            return {"op": "bcast", "a": p, "shape": sh}
        if op == "reshape":
            n = x.size
            if n == 0:
                return None
            cands = [[n], [1, n], [n, 1]] + [[a, n // a] for a in range(2, n) if n % a == 0]
            cands += [[a, b, n // (a * b)] for a in range(2, 4) for b in range(2, 4) if n % (a * b) == 0]
            return {"op": "reshape", "a": p, "shape": r.choice(cands)}
        if op == "repeat":
            if nd < 1:
                return None
            return {"op": "repeat", "a": p, "n": r.randint(1, 3), "axis": r.randrange(nd)}
        if op == "tile":
            return {"op": "tile", "a": p, "reps": [r.randint(1, 2) for _ in range(max(1, nd))]}
        if op == "pad":
            if nd < 1 or kind in "Mm" or 0 in x.shape:
                return None
            w = [[r.randint(0, 2), r.randint(0, 2)] for _ in range(nd)]
            mode = r.choice(["constant", "edge"])
            return {"op": "pad", "a": p, "width": w, "mode": mode}
        if op == "dot":
            if nd < 1 or kind in "bMm":
                return None
            k = x.shape[-1]
            sh = [k] + [r.randint(1, 3) for _ in range(r.randint(0, 1))]
            q = self.leaf(sh, str(x.dtype))
            if r.random() < 0.5:
                q["chunks"][0] = list(self._chunks_of(p, -1)) if self._chunks_of(p, -1) else q["chunks"][0]
            return {"op": "dot", "a": p, "b": q}
        if op == "bwself":
            if kind in "bMm" or nd < 2:
                return None
            # a non-trivial permutation under which the shape is invariant
            perms = [list(q) for q in itertools.permutations(range(nd))
                     if list(q) != list(range(nd)) and all(x.shape[q[k]] == x.shape[k] for k in range(nd))]
            if not perms:
                return None
            return {"op": "bwself", "a": p, "perm": r.choice(perms)}
        if op == "bwc":
            if kind in "bMm" or nd < 1:
                return None
            ax = r.randrange(nd)
            ib = [s for s in range(nd) if s == ax or r.random() < 0.4]
            if r.random() < 0.2:
                ib = [s for s in ib if s != ax]
            r.shuffle(ib)
            shb = [x.shape[s] if r.random() < 0.6 else 1 for s in ib]
            q = self.leaf(shb, str(x.dtype))
            return {"op": "bwc", "a": p, "b": q, "axis": ax, "ib": ib, "conc": r.random() < 0.6}
        if op == "bw2":
            if kind in "bMm":
                return None
            # symbols 0..nd-1 for a; b uses a random subset (possibly permuted) plus maybe one new symbol; out = all symbols permuted
            ia = list(range(nd))
            r.shuffle(ia)
            syms = list(range(nd))
            ib = [s for s in syms if r.random() < 0.6]
            r.shuffle(ib)
            size = {s: x.shape[ia.index(s)] for s in syms}
            if r.random() < 0.4 and nd < 3:
                size[nd] = r.randint(1, 3)
                ib.insert(r.randint(0, len(ib)), nd)
                syms = syms + [nd]
            out = list(syms)
            r.shuffle(out)
            shb = [size[s] if r.random() < 0.8 else 1 for s in ib]
            q = self.leaf(shb, str(x.dtype))
            return {"op": "bw2", "a": p, "b": q, "ia": ia, "ib": ib, "out": out}
        return None

    def _chunks_of(self, p, axis):
        if p["op"] == "leaf" and p["shape"]:
            return p["chunks"][axis]
        return None


# ----------------------------------------------------------------------------------------------
# Blockwise layer specs (function level): JSON-able description <-> real layer <-> model s-expression
# ----------------------------------------------------------------------------------------------


def gen_layer_spec(rng, malformed=False, max_syms=4, max_args=3, max_dim=3):
    """Random index strings: repeated symbols inside an argument, contracted (dummy) symbols, broadcasting
    (numblocks == 1 against a larger dim), new axes, literal arguments, TaskRef constants, io_deps, concatenate."""
    nsyms = rng.randint(1, max_syms)
    syms = list(range(nsyms))
    rng.shuffle(syms)
    syms = [s + rng.choice([0, 0, 10]) for s in syms]  # non-contiguous ids too
    dims = {s: rng.randint(1, max_dim) for s in syms}
    nargs = rng.randint(1, max_args)
    args = []
    for a in range(nargs):
        ln = rng.randint(0, min(3, nsyms + 1))
        ind = [rng.choice(syms) for _ in range(ln)] if rng.random() < 0.25 else rng.sample(syms, min(ln, nsyms))
        nb = [dims[s] if rng.random() < 0.75 else 1 for s in ind]
        args.append({"name": a + 1, "ind": ind, "nb": nb, "io": rng.random() < 0.12, "lit": False})
    # one numblocks per name: keep the names distinct (Blockwise keeps a dict name -> numblocks)
    if malformed and args and args[0]["ind"]:
        # misaligned block counts for one symbol: ValueError("Shapes do not align")
        s = args[0]["ind"][0]
        args.append({"name": nargs + 1, "ind": [s], "nb": [dims[s] + 1 + (dims[s] == 1)], "io": False, "lit": False})
        if dims[s] == 1:
            args.append({"name": nargs + 2, "ind": [s], "nb": [dims[s] + 3], "io": False, "lit": False})
    used = {s for a in args for s in a["ind"]}
    out_pool = list(used)
    new_axes = {}
    for s in syms:
        if s not in used and rng.random() < 0.6:
            new_axes[s] = rng.randint(1, 2)
            out_pool.append(s)
    rng.shuffle(out_pool)
    k = rng.randint(0, len(out_pool))
    t = rng.random()
    out = out_pool if t < 0.45 else out_pool[:k]
    # new axes must be output indices
    for s in new_axes:
        if s not in out:
            out.append(s)
    # sometimes a fused-layer situation: a new-axes entry for a symbol that an input also determines
    if used and rng.random() < 0.15:
        s = rng.choice(sorted(used))
        new_axes[s] = rng.randint(1, 2)
        if s not in out:
            out.append(s)
    for a in args:  # io_deps arguments are indexed by output coordinates only (a BlockwiseDep is never contracted)
        if a["io"] and any(s not in out for s in a["ind"]):
            a["io"] = False
    lits = [{"name": 100 + i, "lit": True} for i in range(rng.randint(0, 2) if rng.random() < 0.3 else 0)]
    consts = [[200 + i] + [rng.randint(0, 2) for _ in range(rng.randint(0, 2))] for i in range(rng.randint(0, 2) if rng.random() < 0.3 else 0)]
    pos = list(range(len(args) + len(lits) + len(consts)))
    rng.shuffle(pos)
    return {"out": out, "args": args, "lits": len(lits), "consts": consts, "order": pos,
            "new_axes": {str(k): v for k, v in new_axes.items()},
            "conc": rng.choice([None, None, True, True, False])}


def _ident(*a, **k):
    return a


def build_real_layer(spec, output="z", output_blocks=None):
    """A real `dask.blockwise.Blockwise` for the spec (int index symbols; names 'a1', 'a2', …)."""
    from dask._task_spec import Task, TaskRef
    from dask.blockwise import Blockwise, BlockwiseDepDict, blockwise_token
    import itertools as it
    entries = []
    numblocks = {}
    for a in spec["args"]:
        if a["io"]:
            nb = tuple(a["nb"])
            dep = BlockwiseDepDict({idx: ("io", a["name"]) + idx for idx in it.product(*[range(n) for n in nb])}, numblocks=nb)
            entries.append((dep, tuple(a["ind"])))
        else:
            nm = "a%d" % a["name"]
            numblocks[nm] = tuple(a["nb"])
            entries.append((nm, tuple(a["ind"])))
    for i in range(spec["lits"]):
        entries.append((("literal", i), None))
    for c in spec["consts"]:
        k = ("c%d" % c[0],) + tuple(c[1:])
        entries.append((TaskRef(k if len(k) > 1 else k[0]), None))
    entries = [entries[i] for i in spec["order"]] if len(spec["order"]) == len(entries) else entries
    task = Task(output, _ident, *[TaskRef(blockwise_token(i)) for i in range(len(entries))])
    new_axes = {int(k): (v if v == 1 and int(k) % 2 == 0 else (3,) * v) for k, v in spec["new_axes"].items()}
    return Blockwise(output, tuple(spec["out"]), task, entries, numblocks, concatenate=spec["conc"],
                     new_axes=new_axes, output_blocks=output_blocks)


def spec_args_sexp(spec):
    """arguments in the order of the real layer's `indices` (only indexed ones), as model s-expression"""
    n_args = len(spec["args"])
    entries = [("arg", a) for a in spec["args"]] + [("lit", None)] * spec["lits"] + [("const", c) for c in spec["consts"]]
    if len(spec["order"]) == len(entries):
        entries = [entries[i] for i in spec["order"]]
    args = [[a["name"], a["ind"], a["nb"], bool(a["io"])] for kind, a in entries if kind == "arg"]
    consts = [list(c) for kind, c in entries if kind == "const"]
    return args, consts


def spec_layer_sexp(spec, output=0):
    args, consts = spec_args_sexp(spec)
    na = [[int(k), v] for k, v in spec["new_axes"].items()]
    return [output, spec["out"], args, consts, na, spec["conc"] is True]


def real_key_to_model(k, spec=None):
    """('a3', 1, 2) -> [3, 1, 2];  ('c200', 1) / 'c200' -> [200, 1] / [200]"""
    if isinstance(k, str):
        return [int(k[1:])]
    return [int(k[0][1:])] + [int(i) for i in k[1:]]


class Interner:
    def __init__(self):
        self.tab = {}

    def __call__(self, x):
        if x not in self.tab:
            self.tab[x] = len(self.tab) + 1
        return self.tab[x]


def real_layer_sexp(layer, names, syms):
    """Translate a real Blockwise layer (string index symbols, string names) into the model s-expression.
    `names`/`syms` are Interners. Returns (sexp, key_of) where key_of maps a real key to the model key."""
    from dask._task_spec import TaskRef
    args, consts = [], []
    for arg, ind in layer.indices:
        if ind is None:
            if isinstance(arg, TaskRef):
                consts.append(model_key(arg.key, names))
            continue
        args.append([names(arg), [syms(s) for s in ind], [int(n) for n in layer.numblocks[arg]], arg in layer.io_deps])
    na = [[syms(k), (len(v) if isinstance(v, tuple) else 1)] for k, v in layer.new_axes.items()]
    return [names(layer.output), [syms(s) for s in layer.output_indices], args, consts, na, layer.concatenate is True]


def model_key(k, names):
    if isinstance(k, tuple):
        return [names(k[0])] + [int(i) for i in k[1:]]
    return [names(k)]


def canon_keys(keys):
    return sorted({tuple(k) for k in keys})


def all_blocks(numblocks):
    return list(itertools.product(*[range(n) for n in numblocks]))
