"""C31 — tensor products and numpy-backed decompositions (PARTIAL).

Model:    lean/DaskModel/Model/Contraction.lean (block contraction = per-block partial sums + final sum; the tsqr
          stacking plan and `_cumsum_blocks`)
Theorems: lean/DaskModel/Props/C31.lean (tensordot_blocks for any chunking, K1 tree sum, stacking plan, TSQR block
          algebra for two row blocks over a commutative ring with Mathlib's Matrix)
Tie:      function level — `contract`: per-block partial dot products (NumPy on the aligned chunks dask really uses)
          vs `dotBlocks`, their sum vs da.dot; `tsqrplan`: the `stack-…-r1` groups and the `getitem-…-q2` slices of
          the real tsqr graph vs `stackGroups`/`cumsumBlocks` (and the recursion condition); `tsqrwire` (_c31x.py): the whole
          wiring of the real graph, level by level, vs the Lean plan (Model/TsqrPlan.lean, Props/C31xPlan.lean);
          API level — tensordot / dot / matmul / outer / inner / vdot / einsum vs NumPy for random shapes, chunkings,
          axes and subscripts (ints exact, floats tolerance); qr / svd residual, orthonormality, triangularity and
          singular-value checks for tall-and-skinny and short-and-fat chunkings; precondition errors.
"""
from __future__ import annotations

import itertools
import math
import warnings

import numpy as np

from sexp import Sym
from props import _reduce_util as U
from props import _c31x as X

PROP = "C31"
READY = True
DRIVER = "dm_reduce"
LEAN_MODULES = ["DaskModel.Props.C31", "DaskModel.Props.C31xPlan"]
CASE_TIMEOUT_S = 30
LEVEL_TEXT = (
    "PARTIAL. Proved in Lean 4: tensordot_blocks / tensordot_blocks₂ / matmul_blocks — for every chunking of the contracted "
    "axis (axes) the per-block partial contractions add up to the full contraction (any additive monoid / semiring, no size "
    "bound), einsum_blocks (ANY number of contracted indices, each with its own chunking: the partial sums over the product "
    "grid of blocks add up to the full contraction — einsum's contract_inds), tensordot_chunking_irrelevant / "
    "einsum_chunking_irrelevant, contraction_tree_sum (the final sum as a K1 tree, any split_every); the tsqr stacking plan "
    "(stackGroups_flatten: groups are consecutive runs of all R blocks in order; stackGroups_nonempty; cumsumBlocks_spec: "
    "unstacking slices tile [0,Σ)); TSQR block algebra over a commutative ring with Mathlib matrices for ANY number of row "
    "blocks of any heights (tsqr_n_blocks: A_i = Q_i R_i and [R_1;…;R_N] = Q'R' ⇒ A = (blockdiag(Q_i) Q') R'; "
    "tsqr_n_blocks_orthonormal; tsqr_recursive; sfqr_n_blocks; svd_from_qr, svd_from_qr_orthonormal; the two-block versions). "
    "The WIRING of tsqr's task graph is modelled as data (Model/TsqrPlan: per recursive call the branch taken, all_blocks, the "
    "stacked chunks, one slice per getitem-q2 task) and proved to instantiate that algebra: tsqr_offsets_partition (the Q' "
    "slices are one per block, in order, disjoint, inside and covering the Σ min(m_i, c) rows of the stacked R; a block shorter "
    "than wide contributes m_i rows, an empty one none), tsqr_recursive_slices_global / _within (the recursive branch's slices "
    "stay inside the q_inner block they read and are, in global row coordinates, exactly the single-core slices, for any "
    "grouping capacity), plan_levels_partition / plan_levels_chain (every level of the printed plan), plan_fuel_suffices (the "
    "recursion ends within N + 2 calls: a level with cr_max ≥ 2c at least halves the blocks), RowPartition.equiv + "
    "tsqr_sliced_wiring / tsqr_plan_matches_algebra (+ _orthonormal, _recursive): with such slices the dot-q3 blocks "
    "np.dot(Q_i, Q'[start_i:stop_i]) are blockdiag(Q_i)·Q' and the hypotheses of tsqr_n_blocks hold, so A = [Q_i·Q'[slice_i]]·R'. "
    "The plan is diffed against the real materialised graph (section tsqrwire: every task of every level decoded from keys and "
    "arguments, incl. blocks shorter than wide, zero-row blocks, both branches, up to 6 levels). "
    "NOT proved: the induction over the levels as one matrix statement (chained by hand), NumPy's vstack/slicing/dot "
    "semantics (definitions), "
    "einsum's subscript parsing and the mapping of subscripts to blockwise indices, outer, result dtypes, and anything "
    "numerical — orthonormality, triangularity, residuals and singular values are validated against NumPy within tolerance."
)
LEVEL_NOTE = ("Trusted: np.tensordot/np.einsum/np.matmul on one block, LAPACK QR/SVD (np.linalg.qr/svd), NumPy as the "
              "reference; exactness theorems are over exact rings, floating-point accuracy is only checked by tolerance.")
TECHNIQUE = "Lean 4 proof (induction over the chunk list; Mathlib Matrix block algebra) + differential correspondence and residual checks against NumPy"
ASSUMPTIONS = ["per-block kernels compute the exact partial contraction of their block",
               "LAPACK factors of a block satisfy Q R = A, QᵀQ = I up to rounding"]
TRUSTED = ["NumPy/LAPACK per-block kernels and NumPy as oracle"]


def _da():
    import dask
    import dask.array as da
    dask.config.set(scheduler="sync")
    return da


def arr(d):
    return np.array(d["data"], dtype=d["dtype"]).reshape(d["shape"])


def enc(a):
    return {"data": a.ravel().tolist(), "dtype": str(a.dtype), "shape": list(a.shape)}


def check(ctx, what, got, exp, inputs_scale=1.0, dtype_sig=None):
    if exp[0] == "raised":
        if got[0] != "raised":
            ctx.fail(f"{what}: NumPy raises {exp[1]} but dask returned a value")
        ctx.branch("numpy-raises")
        return False
    if got[0] == "raised":
        ctx.fail(f"{what}: dask raised but NumPy returns a value: {got[1]}", observed=got[1])
        return False
    g, e = np.asarray(got[1]), np.asarray(exp[1])
    exact = e.dtype.kind in "iub"
    rtol = 2e-4 if e.dtype in (np.float32, np.complex64) else 1e-9
    if not U.same_values(g, e, exact, inputs_scale, rtol):
        ctx.fail(f"{what} differs from NumPy", observed=g.tolist(), expected=e.tolist())
        return False
    if g.dtype != e.dtype:
        ctx.fail(f"{what}: dtype {g.dtype} but NumPy gives {e.dtype}", observed=str(g.dtype), expected=str(e.dtype))
    if e.dtype not in (np.int64, np.float64):
        ctx.branch("result dtype " + str(e.dtype))
    return True


def case_tensordot(ctx, inp):
    da = _da()
    a, b = arr(inp["a"]), arr(inp["b"])
    x = da.from_array(a, chunks=tuple(tuple(c) for c in inp["ca"]))
    y = da.from_array(b, chunks=tuple(tuple(c) for c in inp["cb"]))
    axes = inp["axes"]
    axes_t = axes if isinstance(axes, int) else (tuple(axes[0]), tuple(axes[1]))
    got, exp = U.run_both(lambda: U.sync_compute(da.tensordot(x, y, axes=axes_t)), lambda: np.tensordot(a, b, axes=axes_t))
    scale = max(1.0, U.fsum_abs(a) * U.fsum_abs(b))
    sig = a.dtype == np.int32 and b.dtype == np.int32
    check(ctx, "tensordot", got, exp, scale, dtype_sig=sig)
    ncontr = axes if isinstance(axes, int) else len(axes[0])
    ctx.branch(f"contracted axes={ncontr}")
    if any(len(c) > 1 for c in inp["ca"]) and any(len(c) > 1 for c in inp["cb"]):
        ctx.branch("both chunked")


def case_prod(ctx, inp):
    da = _da()
    a, b = arr(inp["a"]), arr(inp["b"])
    x = da.from_array(a, chunks=tuple(tuple(c) for c in inp["ca"]))
    y = da.from_array(b, chunks=tuple(tuple(c) for c in inp["cb"]))
    fn = inp["fn"]
    got, exp = U.run_both(lambda: U.sync_compute(getattr(da, fn)(x, y)), lambda: getattr(np, fn)(a, b))
    scale = max(1.0, U.fsum_abs(a) * U.fsum_abs(b))
    sig = a.dtype == np.int32 and b.dtype == np.int32
    check(ctx, fn, got, exp, scale, dtype_sig=sig)
    ctx.branch(fn)
    if a.ndim > 2 or b.ndim > 2:
        ctx.branch("n-d operand")


def case_einsum(ctx, inp):
    da = _da()
    ops = [arr(o) for o in inp["ops"]]
    xs = [da.from_array(o, chunks=tuple(tuple(c) for c in ch)) for o, ch in zip(ops, inp["chunks"])]
    sub = inp["subscripts"]
    kw = {}
    if inp.get("split_every"):
        kw["split_every"] = inp["split_every"]
    got, exp = U.run_both(lambda: U.sync_compute(da.einsum(sub, *xs, **kw)), lambda: np.einsum(sub, *ops))
    scale = 1.0
    for o in ops:
        scale *= max(1.0, U.fsum_abs(o))
    check(ctx, f"einsum {sub}", got, exp, scale, dtype_sig=all(o.dtype == np.int32 for o in ops))
    ins, _, out = sub.partition("->")
    if set("".join(ins.split(","))) - set(out):
        ctx.branch("contraction")
    if len(ops) > 2:
        ctx.branch("3 operands")
    ctx.branch("einsum")


def case_contract(ctx, inp):
    """1-d · 1-d with different chunkings: the blocks dask multiplies are the common refinement."""
    da = _da()
    from dask.array.core import unify_chunks
    a = np.array(inp["a"], dtype=np.int64)
    b = np.array(inp["b"], dtype=np.int64)
    x = da.from_array(a, chunks=(tuple(inp["ca"]),))
    y = da.from_array(b, chunks=(tuple(inp["cb"]),))
    chunkss, _ = unify_chunks(x, "i", y, "i")
    cs = list(chunkss["i"])
    terms, total, full = ctx.lean(Sym("contract"), cs, [int(v) for v in a], [int(v) for v in b])
    np_terms, off = [], 0
    for c in cs:
        np_terms.append(int(np.dot(a[off:off + c], b[off:off + c])))
        off += c
    ctx.eq("per-block partial dot products (NumPy on dask's aligned chunks vs Lean blockTerms)", terms, np_terms)
    res = int(U.sync_compute(da.dot(x, y)))
    ctx.eq("da.dot vs Lean block sum", total, res)
    if total != full:
        ctx.fail("block sum differs from the unblocked contraction in the model (theorem tensordot_blocks would be false)",
                 observed=[total, full])
    if res != int(np.dot(a, b)):
        ctx.fail("da.dot differs from np.dot", observed=res, expected=int(np.dot(a, b)))
    if inp["ca"] != inp["cb"]:
        ctx.branch("different chunkings (unified)")
    if len(cs) > 1:
        ctx.branch("multi-block")


def case_einsumblocks(ctx, inp):
    """Function level for einsum: the blockwise intermediate dask builds (captured on its way to the final `.sum`) holds
    one partial contraction per block of the contracted index space; it is compared entry by entry with NumPy's einsum
    restricted to that block, its sum with the result, and — integer operands — the total of one output cell with the Lean
    `blockSumOver` over dask's unified chunks of the contracted indices (theorem einsum_blocks: = the full contraction)."""
    da = _da()
    import dask.array.einsumfuncs as E
    ops = [arr(o) for o in inp["ops"]]
    xs = [da.from_array(o, chunks=tuple(tuple(c) for c in ch)) for o, ch in zip(ops, inp["chunks"])]
    sub = inp["subscripts"]
    ins, _, out = sub.partition("->")
    terms = ins.split(",")
    if "->" not in sub:
        letters = "".join(terms)
        out = "".join(sorted(ch for ch in set(letters) if letters.count(ch) == 1))
    contr = sorted(set("".join(terms)) - set(out))
    captured = {}
    orig = E.blockwise

    def recording(*a, **k):
        r = orig(*a, **k)
        captured["inter"] = r
        captured["index"] = a[1]
        return r
    E.blockwise = recording
    try:
        res = da.einsum(sub, *xs)
    finally:
        E.blockwise = orig
    val = np.asarray(U.sync_compute(res))
    ref = np.einsum(sub, *ops)
    exact = all(o.dtype.kind in "iub" for o in ops)
    scale = 1.0
    for o in ops:
        scale *= max(1.0, U.fsum_abs(o))
    same = lambda g, e: U.same_values(g, e, exact, scale)     # noqa: E731
    if not same(val, ref):
        ctx.fail(f"einsum {sub} differs from NumPy", observed=val.tolist(), expected=ref.tolist())
        return
    if not contr:
        ctx.branch("no contracted index")
        return
    inter = captured["inter"]
    idx = list(captured["index"])
    iv = np.asarray(U.sync_compute(inter))
    nout = len(idx) - len(contr)
    cpos = list(range(nout, len(idx)))
    cletters = [idx[i] for i in cpos]
    if sorted(cletters) != contr:
        ctx.fail("the trailing blockwise indices are not the contracted indices", observed=[idx, contr])
        return
    # dask's (unified) chunks of every contracted index = numblocks of the intermediate along that axis
    css = []
    for i, ch in zip(cpos, cletters):
        nb = inter.numblocks[i]
        if inter.chunks[i] != (1,) * nb:
            ctx.fail("a contracted axis of the intermediate is not one entry per block", observed=[ch, list(inter.chunks[i])])
            return
        # the operand chunks along this letter after dask's alignment: read from any blockwise input
        lens = None
        for x, t in zip(xs, terms):
            if ch in t:
                lens = x.shape[t.index(ch)]
        css.append((nb, lens))
    if not same(iv.sum(axis=tuple(cpos)), val):
        ctx.fail("the sum of the blockwise intermediate over the contracted axes is not the result", observed=iv.tolist())
    # block boundaries of the contracted indices: common refinement of the operands' chunkings (dask's unify_chunks)
    from dask.array.core import unify_chunks
    args = []
    for x, t in zip(xs, terms):
        args += [x, t]
    chunkss, _ = unify_chunks(*args)
    cchunks = [list(chunkss[ch]) for ch in cletters]
    if [len(c) for c in cchunks] != [nb for nb, _ in css]:
        ctx.disagree("numblocks of the contracted axes vs unify_chunks", [len(c) for c in cchunks], [nb for nb, _ in css])
        return
    bounds = [U.block_bounds(c) for c in cchunks]
    full = np.einsum(ins + "->" + out + "".join(cletters), *ops)       # the products, contracted indices kept
    for bidx in itertools.product(*[range(len(b)) for b in bounds]):
        sl = (slice(None),) * nout + tuple(slice(*bounds[j][bi]) for j, bi in enumerate(bidx))
        part = full[sl].sum(axis=tuple(cpos))
        got = iv[(slice(None),) * nout + tuple(bidx)]
        if not same(got, part):
            ctx.fail("a block of the einsum intermediate is not the partial contraction over that block's index ranges",
                     observed={"block": list(bidx), "got": got.tolist()}, expected=part.tolist())
            break
    if all(o.dtype.kind in "iu" for o in ops):
        cell = tuple(inp["cell"][i] % n for i, n in enumerate(ref.shape))
        T = full[cell] if nout else full
        m = ctx.lean(Sym("blocksumover"), cchunks, [int(v) for v in np.asarray(T).ravel()])
        ctx.eq("Lean blockSumOver over dask's chunks of the contracted indices vs the dask value of one output cell",
               m[0], int(val[cell] if nout else val))
        if m[0] != m[1]:
            ctx.fail("model: block sum differs from the full contraction (theorem einsum_blocks would be false)", observed=m)
        ctx.branch("lean-value")
    ctx.branch(f"contracted indices={len(contr)}")
    if any(len(c) > 1 for c in cchunks):
        ctx.branch("contracted index in several blocks")


def case_tsqrplan(ctx, inp):
    da = _da()
    chunks = inp["chunks"]
    n = inp["n"]
    m = sum(chunks)
    x = da.ones((m, n), chunks=(tuple(chunks), (n,)))
    q, r = da.linalg.tsqr(x)
    tok = q.name[len("dot"):-len("-q3")]
    layers = q.dask.layers
    stack = dict(layers["stack" + tok + "-r1"])
    impl_groups = [[k[1] for k in stack[("stack" + tok + "-r1", i, 0)][1][1]] for i in range(len(stack))]
    q2 = dict(layers["getitem" + tok + "-q2"])
    impl_slices = []
    for j in range(len(chunks)):
        t = q2[("getitem" + tok + "-q2", j, 0)]
        src, sl = t[1], t[2]
        impl_slices.append([src[1], sl[0].start, sl[0].stop, sl[1].start, sl[1].stop])
    nr, cc, cr_max = len(chunks), n, max(chunks)
    recurse = cr_max >= 2 * cc and math.ceil(nr * cc / cr_max) > 1
    if recurse:
        groups = ctx.lean(Sym("stackgroups"), chunks, cc, cr_max)
        ctx.branch("recursive branch")
    else:
        groups = [[[i, min(c, cc)] for i, c in enumerate(chunks)]]
        ctx.branch("single-core branch")
    ctx.eq("tsqr: groups of stacked R blocks", [[g[0] for g in grp] for grp in groups], impl_groups)
    model_slices = [None] * len(chunks)
    for gi, grp in enumerate(groups):
        cb = ctx.lean(Sym("cumsumblocks"), [g[1] for g in grp])
        for (idx, _), (s0, s1) in zip(grp, cb):
            model_slices[idx] = [gi, s0, s1, 0, n]
    ctx.eq("tsqr: unstacking slices of Q_inner", model_slices, impl_slices)
    # oracle on the real plan
    flat = [i for g in impl_groups for i in g]
    if flat != list(range(len(chunks))):
        ctx.fail("tsqr stacking loses, duplicates or reorders R blocks", observed=impl_groups)
    if any(len(g) == 0 for g in impl_groups):
        ctx.fail("tsqr stacking produced an empty group", observed=impl_groups)
    if len(impl_groups) > 1:
        ctx.branch("several groups")


def _orth_checks(ctx, what, a, q, r, tol):
    k = min(a.shape)
    if q.shape != (a.shape[0], k) or r.shape != (k, a.shape[1]):
        ctx.fail(f"{what}: wrong factor shapes", observed=[list(q.shape), list(r.shape)], expected=[[a.shape[0], k], [k, a.shape[1]]])
        return
    if not np.allclose(q @ r, a, atol=tol, rtol=1e-9):
        ctx.fail(f"{what}: Q·R differs from the input", observed=float(np.abs(q @ r - a).max()))
    if not np.allclose(q.T @ q, np.eye(k), atol=tol):
        ctx.fail(f"{what}: Q does not have orthonormal columns", observed=float(np.abs(q.T @ q - np.eye(k)).max()))
    if not np.allclose(np.tril(r, -1), 0, atol=tol):
        ctx.fail(f"{what}: R is not upper triangular", observed=float(np.abs(np.tril(r, -1)).max()))


def case_qr(ctx, inp):
    da = _da()
    a = arr(inp["a"])
    chunks = tuple(tuple(c) for c in inp["chunks"])
    x = da.from_array(a, chunks=chunks)
    nr, nc = len(chunks[0]), len(chunks[1])
    try:
        q, r = da.linalg.qr(x)
    except NotImplementedError:
        if nr > 1 and nc > 1:
            ctx.branch("2-d chunked rejected")
        else:
            ctx.fail("qr raised NotImplementedError although the array is chunked along one axis only")
        return
    except ValueError as e:
        # sfqr precondition: one block row and (first column chunk at least as wide as the rows or one block)
        if nr == 1 and nc > 1 and chunks[0][0] > chunks[1][0]:
            ctx.branch("sfqr precondition rejected")
            return
        ctx.fail(f"qr raised ValueError on an admissible chunking: {e}", observed=str(e))
        return
    if nr > 1 and nc > 1:
        ctx.fail("qr accepted an array chunked along both axes")
        return
    with warnings.catch_warnings():
        warnings.simplefilter("ignore")
        try:
            qv, rv = [np.asarray(v) for v in __import__("dask").compute(q, r, scheduler="sync")]
        except Exception as e:
            if nr > 1 and a.shape[0] < a.shape[1] or any(c < a.shape[1] for c in chunks[0]) and nr > 1:
                ctx.fail(f"tsqr failed at compute time: {type(e).__name__}: {e}", sig="tsqr:block-shorter-than-wide:compute-error",
                         observed=str(e)[:200])
            else:
                ctx.fail(f"qr failed at compute time: {type(e).__name__}: {e}", observed=str(e)[:200])
            return
    tol = 1e-8 * max(1.0, float(np.abs(a).max()))
    _orth_checks(ctx, "qr", a, qv, rv, tol)
    if (tuple(q.shape), tuple(r.shape)) != (qv.shape, rv.shape) and not any(np.isnan(s) for s in q.shape + r.shape):
        ctx.fail("qr: lazy shapes differ from computed shapes", observed=[list(q.shape), list(r.shape)], expected=[list(qv.shape), list(rv.shape)])
    ctx.branch("tsqr" if nr > 1 else "sfqr")
    if len(set(chunks[0])) > 1:
        ctx.branch("irregular row chunks")


def case_svd(ctx, inp):
    da = _da()
    import dask
    a = arr(inp["a"])
    chunks = tuple(tuple(c) for c in inp["chunks"])
    x = da.from_array(a, chunks=chunks)
    nr, nc = len(chunks[0]), len(chunks[1])
    try:
        u, s, v = da.linalg.svd(x)
    except NotImplementedError:
        if nr > 1 and nc > 1:
            ctx.branch("2-d chunked rejected")
        else:
            ctx.fail("svd raised NotImplementedError although chunked along one axis only")
        return
    if nr > 1 and nc > 1:
        ctx.fail("svd accepted an array chunked along both axes")
        return
    with warnings.catch_warnings():
        warnings.simplefilter("ignore")
        try:
            uv, sv, vv = [np.asarray(t) for t in dask.compute(u, s, v, scheduler="sync")]
        except Exception as e:
            ctx.fail(f"svd failed at compute time: {type(e).__name__}: {e}", observed=str(e)[:200])
            return
    k = min(a.shape)
    tol = 1e-8 * max(1.0, float(np.abs(a).max()))
    if uv.shape != (a.shape[0], k) or sv.shape != (k,) or vv.shape != (k, a.shape[1]):
        ctx.fail("svd: wrong factor shapes", observed=[list(uv.shape), list(sv.shape), list(vv.shape)])
        return
    if not np.allclose((uv * sv) @ vv, a, atol=tol, rtol=1e-9):
        ctx.fail("svd: U·S·V differs from the input", observed=float(np.abs((uv * sv) @ vv - a).max()))
    ref = np.linalg.svd(a, compute_uv=False)
    if not np.allclose(sv, ref, atol=tol, rtol=1e-8):
        ctx.fail("svd: singular values differ from NumPy's", observed=sv.tolist(), expected=ref.tolist())
    if not np.allclose(uv.T @ uv, np.eye(k), atol=tol) or not np.allclose(vv @ vv.T, np.eye(k), atol=tol):
        ctx.fail("svd: singular vectors are not orthonormal")
    if any(x_ < y_ - tol for x_, y_ in zip(sv, sv[1:])):
        ctx.fail("svd: singular values not in decreasing order", observed=sv.tolist())
    ctx.branch("tall-skinny" if nr > nc else ("short-fat" if nc > nr else "single chunk"))
    if (nr > nc and a.shape[0] < a.shape[1]) or (nc > nr and a.shape[0] > a.shape[1]):
        ctx.branch("truncate")


def case_joint(ctx, inp):
    """contractions computed in ONE graph keep their own results: different contractions of the same operands, the
    same contractions with the operands' values changed (same shapes/chunks), with the left operand rechunked into
    one block, and (square case) chained products (x·y)·y and x·(x·y)"""
    da = _da()
    a, b = arr(inp["a"]), arr(inp["b"])
    ca, cb = tuple(tuple(c) for c in inp["ca"]), tuple(tuple(c) for c in inp["cb"])
    x, y = da.from_array(a, chunks=ca), da.from_array(b, chunks=cb)
    pairs = [("x,y", x, y)]
    if a.size and b.size:
        pairs.append(("other values", da.from_array((a[(slice(None, None, -1),) * a.ndim] + 1).astype(a.dtype), chunks=ca), y))
        pairs.append(("other right values", x, da.from_array((b * 2 + 1).astype(b.dtype), chunks=cb)))
        pairs.append(("left one block", da.from_array(a, chunks=a.shape), y))
    arrs, labels = [], []

    def build(it, u, v):
        if it["fn"] == "tensordot":
            return da.tensordot(u, v, axes=(tuple(it["axes"][0]), tuple(it["axes"][1])))
        if it["fn"] == "einsum":
            return da.einsum(it["sub"], u, v)
        return getattr(da, it["fn"])(u, v)

    for nm, u, v in pairs:
        for it in inp["items"]:
            arrs.append(build(it, u, v))
            labels.append((nm, it))
    refs = [None] * len(arrs)
    if a.ndim == 2 and b.ndim == 2 and a.shape[0] == a.shape[1] == b.shape[0] == b.shape[1]:
        for nm, z, r in (("(x@y)@y", da.matmul(da.matmul(x, y), y), (a @ b) @ b), ("x@(x@y)", da.matmul(x, da.matmul(x, y)), a @ (a @ b)),
                         ("dot(dot)", da.dot(da.dot(x, y), y), (a @ b) @ b)):
            arrs.append(z)
            labels.append(("chain", nm))
            refs.append(r)
        ctx.branch("chains")
    bad = U.joint_vs_solo(arrs)
    for i in bad:
        ctx.fail("a contraction computed together with others differs from the same contraction computed alone",
                 observed={"item": labels[i], "name": arrs[i].name,
                           "same_name_as": [labels[j] for j, w in enumerate(arrs) if j != i and w.name == arrs[i].name]})
    for i, r in enumerate(refs):
        if r is not None and i not in bad:
            v = np.asarray(U.sync_compute(arrs[i]))
            if v.shape != r.shape or not np.allclose(v, r, rtol=1e-9, atol=1e-9 * max(1.0, float(np.abs(r).max()) if r.size else 1.0)):
                ctx.fail(f"chained product {labels[i][1]} differs from NumPy", observed=v.tolist(), expected=r.tolist())
    ctx.branch(f"joint×{len(inp['items'])}")


CASES = {"joint": case_joint, "tensordot": case_tensordot, "prod": case_prod, "einsum": case_einsum, "contract": case_contract,
         "einsumblocks": case_einsumblocks,
         "tsqrplan": case_tsqrplan, "qr": case_qr, "svd": case_svd, "tsqrwire": X.case_tsqrwire}
CASES = {k: U.pure_sources(v) for k, v in CASES.items()}


# ---------------------------------------------------------------------------------------------

def _rand(rng, shape, dtype):
    n = U.prod_shape(shape)
    if dtype == "bool":
        return np.array([rng.random() < 0.5 for _ in range(n)], dtype=bool).reshape(shape)
    if dtype.startswith("uint"):
        return np.array([rng.randint(0, 5) for _ in range(n)], dtype=dtype).reshape(shape)
    if dtype.startswith("int"):
        return np.array([rng.randint(-3, 3) for _ in range(n)], dtype=dtype).reshape(shape)
    return np.array([rng.choice([rng.randint(-3, 3) * 0.5, round(rng.uniform(-4, 4), 3)]) for _ in range(n)], dtype=dtype).reshape(shape)


def _dtype(rng):
    return rng.choice(["int64", "int64", "float64", "float64", "int32", "int32", "uint8", "int16", "float32", "bool"])


def gen_tensordot(ctx, n):
    rng = ctx.rng
    for _ in range(n):
        na, nb = rng.randint(1, 3), rng.randint(1, 3)
        k = rng.randint(0, min(na, nb, 2))
        sa = [rng.randint(1, 4) for _ in range(na)]
        sb = [rng.randint(1, 4) for _ in range(nb)]
        la = rng.sample(range(na), k)
        lb = rng.sample(range(nb), k)
        for i, j in zip(la, lb):
            sb[j] = sa[i]
        if rng.random() < 0.3 and k > 0:
            # integer form: last k axes of a with first k axes of b
            sb[:k] = sa[na - k:]
            axes = k
        else:
            axes = [[i - na if rng.random() < 0.2 else i for i in la], lb]
        dt = _dtype(rng)
        a, b = _rand(rng, sa, dt), _rand(rng, sb, dt if rng.random() < 0.8 else _dtype(rng))
        yield "tensordot", {"a": enc(a), "b": enc(b), "ca": [list(c) for c in U.rand_chunks(rng, sa)],
                            "cb": [list(c) for c in U.rand_chunks(rng, sb)], "axes": axes}


def gen_prod(ctx, n):
    rng = ctx.rng
    for _ in range(n):
        fn = rng.choice(["dot", "matmul", "outer", "vdot", "dot", "matmul"])  # da.inner does not exist in this tree
        if fn == "outer":
            sa, sb = [rng.randint(1, 5)], [rng.randint(1, 5)]
        elif fn == "vdot":
            k = rng.randint(1, 6)
            sa, sb = [k], [k]
        elif fn == "inner":
            k = rng.randint(1, 4)
            sa = [rng.randint(1, 3) for _ in range(rng.randint(0, 2))] + [k]
            sb = [rng.randint(1, 3) for _ in range(rng.randint(0, 2))] + [k]
        elif fn == "dot":
            k = rng.randint(1, 4)
            sa = [rng.randint(1, 3) for _ in range(rng.randint(0, 2))] + [k]
            nb = rng.randint(1, 3)
            sb = [rng.randint(1, 3) for _ in range(nb)]
            sb[-2 if nb >= 2 else 0] = k
        else:
            # matmul: operands of rank 1–4; the batch axes (all but the last two) broadcast against each other, aligned
            # on the right, either side may have fewer of them or size-1 entries
            k = rng.randint(1, 4)
            na, nb = rng.choice([1, 2, 2, 3, 3, 4]), rng.choice([1, 2, 2, 3, 3, 4])
            batch = [rng.randint(1, 3), rng.randint(1, 3)]

            def bdims(nbatch):
                out = batch[2 - nbatch:] if nbatch else []
                return [1 if rng.random() < 0.3 else d for d in out]
            sa = ([k] if na == 1 else bdims(na - 2) + [rng.randint(1, 3), k])
            sb = ([k] if nb == 1 else bdims(nb - 2) + [k, rng.randint(1, 3)])
        dt = _dtype(rng)
        if fn == "vdot" and dt == "bool":
            dt = "int16"        # vdot conjugates its first operand; np.conj(bool) is int8 in dask's path (not examined here)
        yield "prod", {"fn": fn, "a": enc(_rand(rng, sa, dt)), "b": enc(_rand(rng, sb, dt)),
                       "ca": [list(c) for c in U.rand_chunks(rng, sa)], "cb": [list(c) for c in U.rand_chunks(rng, sb)]}


SUBS = ["ij,jk->ik", "ij,jk", "i,i->", "i,j->ij", "ij->ji", "ii->i", "ij->", "ijk,ikl->ijl", "ij,ij->ij", "ij,kj->ik",
        "i,ij,j->", "ij,jk,kl->il", "ijk->kji", "ij,j->i", "abc,cd->abd", "ii", "ij,ji->"]


def gen_einsum(ctx, n):
    rng = ctx.rng
    for _ in range(n):
        sub = rng.choice(SUBS)
        ins = sub.split("->")[0].split(",")
        dims = {}
        ops, chunks = [], []
        dt = rng.choice(["int64", "float64", "int64", "float64", "int32", "uint8", "float32"])
        for term in ins:
            shape = [dims.setdefault(ch, rng.randint(1, 4)) for ch in term]
            ops.append(enc(_rand(rng, shape, dt)))
        # chunks must agree per index for blockwise alignment to be exercised both ways: use independent chunkings
        for term, o in zip(ins, ops):
            chunks.append([list(c) for c in U.rand_chunks(rng, o["shape"])])
        yield "einsum", {"subscripts": sub, "ops": ops, "chunks": chunks, "split_every": rng.choice([None, None, 2])}


def gen_einsumblocks(ctx, n):
    rng = ctx.rng
    subs = ["ij,jk->ik", "ij,jk,k->i", "ij,jk,kl->il", "ij,ji->", "i,i->", "ij,ij->", "ijk,jk->i", "ij,kj->ik", "abc,cd->abd",
            "ij->", "ij,j->i", "i,ij,j->", "ijk,ikl->ijl", "ij,jk"]
    for _ in range(n):
        sub = rng.choice(subs)
        ins = sub.split("->")[0].split(",")
        dims = {}
        ops, chunks = [], []
        dt = rng.choice(["int64", "int64", "int64", "float64", "int32"])
        for term in ins:
            shape = [dims.setdefault(ch, rng.randint(1, 4)) for ch in term]
            ops.append(enc(_rand(rng, shape, dt)))
        for o in ops:
            chunks.append([list(c) for c in U.rand_chunks(rng, o["shape"])])
        yield "einsumblocks", {"subscripts": sub, "ops": ops, "chunks": chunks, "cell": [rng.randint(0, 3) for _ in range(4)]}


def gen_contract(ctx, n):
    rng = ctx.rng
    for _ in range(n):
        k = rng.randint(1, 12)
        ca = list(U.rand_chunks_1d(rng, k))
        cb = ca if rng.random() < 0.4 else list(U.rand_chunks_1d(rng, k))
        yield "contract", {"a": [rng.randint(-5, 5) for _ in range(k)], "b": [rng.randint(-5, 5) for _ in range(k)],
                           "ca": ca, "cb": cb}


def gen_tsqrplan(ctx, n):
    rng = ctx.rng
    for _ in range(n):
        nr = rng.randint(2, 9)
        ncols = rng.randint(1, 4)
        mode = rng.random()
        if mode < 0.4:
            c = rng.randint(1, 10)
            chunks = [c] * nr
        else:
            chunks = [rng.randint(1, 10) for _ in range(nr)]
        yield "tsqrplan", {"chunks": chunks, "n": ncols}


def _mat(rng, m, n):
    return np.array([[round(rng.uniform(-3, 3), 3) for _ in range(n)] for _ in range(m)], dtype=float)


def gen_qr_svd(ctx, n, which):
    rng = ctx.rng
    for _ in range(n):
        kind = rng.random()
        if kind < 0.5:       # tall and skinny, one column block
            ncols = rng.randint(1, 4)
            nr = rng.randint(2, 5)
            rows = [rng.randint(ncols if rng.random() < 0.85 else 1, 8) for _ in range(nr)]
            chunks = [rows, [ncols]]
        elif kind < 0.85:    # short and fat, one row block
            nrows = rng.randint(1, 4)
            nc = rng.randint(1, 4)
            cols = [rng.randint(nrows if rng.random() < 0.8 else 1, 7) for _ in range(nc)]
            chunks = [[nrows], cols]
        elif kind < 0.90:    # chunked like a tall matrix but wider than tall (or the transpose): truncation branch
            nr = rng.randint(2, 3)
            rows = [rng.randint(1, 2) for _ in range(nr)]
            wide = sum(rows) + rng.randint(1, 3)
            chunks = [rows, [wide]] if rng.random() < 0.5 else [[wide], rows]
        elif kind < 0.95:    # single chunk
            chunks = [[rng.randint(1, 6)], [rng.randint(1, 6)]]
        else:                # chunked both ways: must be rejected
            chunks = [[2, 3], [2, 2]]
        a = _mat(rng, sum(chunks[0]), sum(chunks[1]))
        yield which, {"a": enc(a), "chunks": chunks}


def gen_joint(ctx, n):
    rng = ctx.rng
    for _ in range(n):
        k = rng.randint(1, 4)
        a = _rand(rng, [k, k], rng.choice(["int64", "float64"]))
        b = _rand(rng, [k, k], "int64")
        items = rng.sample([{"fn": "tensordot", "axes": [[1], [0]]}, {"fn": "tensordot", "axes": [[0], [0]]},
                            {"fn": "tensordot", "axes": [[1], [1]]}, {"fn": "tensordot", "axes": [[0, 1], [0, 1]]},
                            {"fn": "tensordot", "axes": [[0, 1], [1, 0]]}, {"fn": "dot"}, {"fn": "matmul"},
                            {"fn": "einsum", "sub": "ij,jk->ik"}, {"fn": "einsum", "sub": "ij,kj->ik"},
                            {"fn": "einsum", "sub": "ij,ij->ij"}, {"fn": "einsum", "sub": "ij,ij->"}], rng.randint(3, 6))
        yield "joint", {"a": enc(a), "b": enc(b), "ca": [list(c) for c in U.rand_chunks(rng, [k, k])],
                        "cb": [list(c) for c in U.rand_chunks(rng, [k, k])], "items": items}


def generate(ctx):
    yield from gen_joint(ctx, ctx.n(50, 500))
    yield from gen_contract(ctx, ctx.n(200, 2000))
    yield from gen_tsqrplan(ctx, ctx.n(120, 1200))
    yield from gen_tensordot(ctx, ctx.n(200, 2500))
    yield from gen_prod(ctx, ctx.n(200, 2500))
    yield from gen_einsum(ctx, ctx.n(120, 1500))
    yield from gen_einsumblocks(ctx, ctx.n(100, 1200))
    yield from gen_qr_svd(ctx, ctx.n(90, 900), "qr")
    yield from gen_qr_svd(ctx, ctx.n(90, 900), "svd")
    yield from X.gen_tsqrwire(ctx, ctx.n(110, 1100))
    if ctx.thorough():
        yield from X.exhaustive_tsqrwire(ctx)
