"""Helpers shared by the bag group (C48, C49, C50): fake filesystems, temp dirs, generators."""
from __future__ import annotations

import contextlib
import os
import shutil
import tempfile

_REGISTERED = False
_COUNTER = [0]


def register_sizefs():
    """A filesystem whose files only have a size (path = the size): lets `read_bytes` plan offsets for
    files far larger than anything that could be written, without touching a disk."""
    global _REGISTERED
    if _REGISTERED:
        return
    import fsspec
    from fsspec.spec import AbstractFileSystem

    class SizeFS(AbstractFileSystem):
        protocol = "verifsz"

        def info(self, path, **kw):
            p = self._strip_protocol(path).lstrip("/")
            return {"name": path, "size": int(p), "type": "file"}

        def ukey(self, path):
            return path

    fsspec.register_implementation("verifsz", SizeFS, clobber=True)
    _REGISTERED = True


def real_plan(size, blocksize):
    """(offsets, lengths) exactly as dask.bytes.core.read_bytes computes them for one file of `size` bytes:
    the real function runs; only the per-block reader is replaced by a recorder."""
    register_sizefs()
    from dask.bytes import core as bc
    orig = bc.delayed
    bc.delayed = lambda f: (lambda of, o, l, d, dask_key_name=None: (o, l))
    try:
        _, out = bc.read_bytes(f"verifsz://{size}", blocksize=blocksize, sample=False, delimiter=b"\n")
    finally:
        bc.delayed = orig
    return [o for o, _ in out[0]], [l for _, l in out[0]]


@contextlib.contextmanager
def mem_files(contents):
    """Write byte strings to fsspec's in-memory filesystem under a unique directory; yields urls."""
    import fsspec
    m = fsspec.filesystem("memory")
    _COUNTER[0] += 1
    d = f"/verif_bag_{os.getpid()}_{_COUNTER[0]}"
    urls = []
    try:
        for i, c in enumerate(contents):
            m.pipe(f"{d}/f{i:03d}.txt", bytes(c))
            urls.append(f"memory:/{d}/f{i:03d}.txt")
        yield urls
    finally:
        try:
            m.rm(d, recursive=True)
        except Exception:
            pass


@contextlib.contextmanager
def tmp_files(contents):
    """Real files under a per-case directory in tempfile.gettempdir(), removed afterwards."""
    d = tempfile.mkdtemp(prefix="verif_bag_")
    try:
        paths = []
        for i, c in enumerate(contents):
            p = os.path.join(d, f"f{i:03d}.txt")
            with open(p, "wb") as f:
                f.write(bytes(c))
            paths.append(p)
        yield paths
    finally:
        shutil.rmtree(d, ignore_errors=True)


def files(kind, contents):
    return tmp_files(contents) if kind == "tmp" else mem_files(contents)


def has_border(d):
    d = list(d)
    return any(d[:k] == d[len(d) - k:] for k in range(1, len(d)))


def ref_lines(text, delim):
    """The statement's reference: the text split after each delimiter, no empty trailing element."""
    parts = text.split(delim)
    return [p + delim for p in parts[:-1]] + ([parts[-1]] if parts[-1] else [])


def ref_univ(text):
    """Universal newlines: \\r\\n and \\r become \\n, then split after \\n."""
    return ref_lines(text.replace("\r\n", "\n").replace("\r", "\n"), "\n")


def rand_partition_sizes(rng, n, maxparts):
    """A random composition of n into up to maxparts parts, zeros allowed (empty partitions)."""
    k = rng.randint(1, maxparts)
    cuts = sorted(rng.randint(0, n) for _ in range(k - 1))
    return [b - a for a, b in zip([0] + cuts, cuts + [n])]
