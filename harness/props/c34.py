"""C34 — array creation routines are chunk-invariant and equal NumPy.

Models:   lean/DaskModel/Model/Creation.lean      arange (generic arithmetic), linspace, eye, diag (1-d, k=0), 2-d diagonal walk, tri
          lean/DaskModel/Model/SoftFloat.lean     exact binary64 (dyadic rationals, round-to-nearest-even), no Float
          lean/DaskModel/Model/CreationFloat.lean da.arange over binary64: guard, num, first/second, block values
          lean/DaskModel/Model/DiagonalNd.lean    n-d diagonal (axes, free blocks, task table, read map), diag(v,k), 2-d->1-d diag
          lean/DaskModel/Model/CreationGrid.lean  meshgrid / indices / fromfunction / constant fills
          lean/DaskModel/Model/CreationLike.lean  *_like: _get_like_function_shapes_chunks + normalize_chunks of the resolved arguments
Theorems: lean/DaskModel/Props/C34.lean, lean/DaskModel/Props/C34xLike.lean
Tie:      function level: task arguments of the real arange / linspace / eye / diagonal graphs vs the model tables; per-block
          outputs of arange (binary64, bit for bit), meshgrid, indices, fromfunction vs the model; the binary64 model itself vs
          CPython floats; API level: every routine vs NumPy (values exact incl. float arange/linspace, dtype, per-block
          shapes = declared chunks, chunks add up to the shape) for random chunk specs.
"""
from __future__ import annotations

import itertools
from fractions import Fraction

from sexp import Sym

from props._chunks_util import rand_comp, rand_comp_zeros, comps, valid_dim, setup_dask, blocks_match_chunks

PROP = "C34"
READY = True
DRIVER = "dm_chunks"
LEAN_MODULES = ["DaskModel.Props.C34", "DaskModel.Props.C34xLike"]
CASE_TIMEOUT_S = 20
LEVEL_TEXT = ("Lean 4 theorems, for every chunking (no size bound). arange (after fix b762398: every element from its global "
              "index): arange_den holds for ANY arithmetic of the computation dtype - block lengths are the declared chunks and the "
              "blocks concatenate to the one-block array first+i*(second-first) (NumPy's fill loop), so float arange is chunk-invariant "
              "bit for bit; over the integers (= rationals after scaling) arange_int_spec/arange_int_den/arange_num_spec_pos/neg give "
              "NumPy's values and length. Floats: an exact binary64 model (dyadic rationals, round-to-nearest-even; no Float) is tied "
              "bit for bit to CPython and to the real blocks; arange_f_exact_partial proves that on a dyadic grid with magnitudes "
              "< 2^53 the float plan is the unshifted one, num is exact and all values are the exact ones; arange_f_num_not_exact / "
              "arange_f_exact_refuted show that in general float num is NumPy's ceil of a rounded quotient, not the exact one (dask "
              "and NumPy use the same formula: validated, not proved); old_arange_plan_refuted records the repaired defect. "
              "linspace_den (every element a function of its global index; exact rationals), linspace_any_arith_den / linspace_f_den "
              "(the same for any arithmetic, binary64 incl. the underflowing-step branch: float linspace is chunk-invariant bit for "
              "bit, its divisions never raise; blocks diffed bit for bit against the binary64 model), binary64_round_spec (every "
              "rounding of the model returns a double nearest to the exact result, ties to even - all inputs), "
              "eye_den (any row/column chunking, any k, incl. the "
              "np.zeros blocks), diag_den (1-d, k=0), diag_k_den (1-d, any k: constant pad around it), diag_2d_fast_den, "
              "diagonal_den (2-d walk: terminates, np.diagonal's lengths, exactly the diagonal positions in order), diagonal_nd_den "
              "(any ndim, normalised axes, any offset: the assembled result reads NumPy's positions; free axes' blocks carried "
              "along), diagonal_nd_tasks, normAxes_spec, grid_den (fromfunction: any function of the global index), indices_den, "
              "indices_axis0, meshgrid_den (xy/ij, sparse/dense), full_den (ones/zeros/full(_like)), tri_den, chunks_sum_shape (via "
              "C23). *_like variants (Props/C34xLike.lean over Model/CreationLike.lean = _get_like_function_shapes_chunks + "
              "normalize_chunks of the resolved arguments): like_template_den (defaults: exactly the template's chunks - "
              "normalize_chunks(a.chunks, a.shape) never raises and never consults auto_chunks or the byte limit -, adding up to "
              "a.shape, fill value at every position), like_is_wrap (chunks= and/or shape= given: the plain wrapped routine on the "
              "resolved arguments, the template's chunks not consulted, shape= alone means 'auto'), like_chunks_sum_shape / "
              "like_full_den (every argument combination: chunks add up to the resolved shape, fill value everywhere). "
              "Validated only (differentially, vs NumPy, exact comparison): dtypes, integer floor of linspace, binary32 "
              "arange/linspace, that the model's division equals rounding the exact quotient (proved for exact quotients only), "
              "the pad/stack/broadcast/blockwise layers underneath diag(v,k)/indices/meshgrid/fromfunction (their block plans are "
              "diffed per block), auto/byte-string chunk specs (auto_chunks' result is a parameter of the *_like model, observed from "
              "the real call), the dtype rule of *_like (dtype or a.dtype), non-dask templates (asarray first), empty(_like) "
              "(shape/dtype only).")
LEVEL_NOTE = ("Trusted: Lean kernel + standard axioms; the harness; NumPy kernels on ONE block (np.eye, np.diag, np.diagonal, "
              "np.arange(offset, offset+size), elementwise + - * on an array, broadcast_to, astype) as listed in ASSUMPTIONS. "
              "The binary64 model does not cover overflow to inf, NaN and the sign of zero (the harness diffs only finite "
              "results). In the regime |start| >> |step| dask deliberately returns arange(0, stop-start, step) + start (dask#11706): "
              "there lengths/dtype/chunk-invariance are checked exactly and the shifted values bit for bit against the model, but "
              "against NumPy only within (num+4) ulp of the largest value. Known finding: float arguments with an integer dtype "
              "(pinned strict xfail in dask's own suite).")
TECHNIQUE = ("Lean 4 proof (induction over chunk lists / loop invariant of the diagonal walk / exact integer, rational and binary64 "
             "arithmetic) + differential correspondence (function level on task arguments and per-block outputs, API level vs NumPy)")
ASSUMPTIONS = [
    "NumPy on one block: np.eye(n, m, k)[r, c] = (c - r == k); np.diag(v) of a 1-d block; np.diagonal(block, k, a1, a2)[f.., t] = "
    "block[f.. with max(0,-k)+t on a1 and max(0,k)+t on a2]; np.arange(a, b) of integers; elementwise arithmetic of the dtype; "
    "np.broadcast_to (validated by the API-level comparison of every case)",
    "np.arange(start, stop, step) itself = first + i*(second-first) in the dtype's arithmetic with [0]=first, [1]=second and length "
    "ceil((stop-start)/step) computed in binary64: NumPy's documented fill loop, checked bit for bit on every generated case",
    "binary64 = round-to-nearest-even on dyadic rationals with 53 bits and minimal exponent -1074 (Model/SoftFloat.lean): diffed "
    "against CPython on random significands, exact ties, subnormal results, exact/inexact quotients in every run",
    "exact (integer/rational) theorems transfer to floats only where no operation rounds (arange_f_exact_partial states that regime)",
]
TRUSTED = ["CPython float arithmetic (IEEE-754 binary64, round-to-nearest-even) as the reference for Model/SoftFloat.lean"]


def _chunks_ok(ctx, r, what, zeros_ok=False):
    shape = r.shape
    # zeros_ok: zero-length chunks inside a tuple are legal where the caller put them there (a template's own chunks,
    # explicit chunks=): the statement asks that the lazy chunks add up to the shape
    ok1 = (lambda c, s: len(c) > 0 and all(int(v) >= 0 for v in c) and sum(c) == s) if zeros_ok else valid_dim
    if len(r.chunks) != len(shape) or not all(ok1(c, s) for c, s in zip(r.chunks, shape)):
        ctx.fail(f"{what}: lazy chunks do not add up to the shape / are not positive", observed=[r.chunks, shape])
        return False
    return True


def _same(ctx, what, r, e, exact=True, check_blocks=True, tol_steps=64, value_sig=None, zeros_ok=False):
    """computed dask array == NumPy (shape, dtype, values) and each block has its declared shape."""
    import numpy as np
    e = np.asarray(e)
    if tuple(r.shape) != e.shape:
        ctx.fail(f"{what}: lazy shape differs from NumPy", observed=list(r.shape), expected=list(e.shape))
        return False
    if r.dtype != e.dtype:
        ctx.fail(f"{what}: dtype differs from NumPy", observed=str(r.dtype), expected=str(e.dtype))
        return False
    if not _chunks_ok(ctx, r, what, zeros_ok):
        return False
    try:
        g = r.compute(scheduler="sync")
    except Exception as ex:
        ctx.fail(f"{what}: compute raised {type(ex).__name__}", sig=None, observed=str(ex)[:200])
        return False
    g = np.asarray(g)
    if g.shape != e.shape or g.dtype != e.dtype:
        ctx.fail(f"{what}: computed shape/dtype differs from NumPy", observed=[list(g.shape), str(g.dtype)],
                 expected=[list(e.shape), str(e.dtype)])
        return False
    if exact or g.dtype.kind not in "fc":
        ok = np.array_equal(g, e, equal_nan=g.dtype.kind in "fc")
    else:
        eps = float(np.finfo(g.dtype).eps)
        scale = max(1.0, float(np.max(np.abs(e)))) if e.size else 1.0
        ok = np.allclose(g, e, rtol=0, atol=tol_steps * eps * scale, equal_nan=True)
    if not ok:
        ctx.fail(f"{what}: values differ from NumPy", sig=value_sig, observed=g.tolist(), expected=e.tolist())
        return False
    if check_blocks:
        why = blocks_match_chunks(r)
        if why:
            ctx.fail(f"{what}: {why}", observed=r.chunks)
            return False
    return True


def _num(v):
    """JSON number form -> python value: int | [num, den] (a fraction, turned into a float by one correctly rounded
    division) | {"hex": "0x1.8p+3"} (that exact double)"""
    if isinstance(v, list):
        return v[0] / v[1]
    if isinstance(v, dict):
        return float.fromhex(v["hex"])
    return v


def _f2p(x):
    """a finite float (or int) as the model's pair [m, e] = m * 2**e"""
    if isinstance(x, int):
        return [x, 0]
    n, d = float(x).as_integer_ratio()
    return [n, -(d.bit_length() - 1)]


def _p2frac(p):
    return Fraction(p[0]) * (Fraction(2) ** p[1])


def _tasks(r):
    return dict(r.dask)


def _arange_guard(a, s):
    """the guard of da.arange that switches to `arange(0, stop - start, step) + start`"""
    import numpy as np
    return bool(a != 0 and not np.isclose(a + s - a, s, atol=0))


def case_arange(ctx, inp):
    import math
    import numpy as np
    import dask.array as da
    from dask.array import chunk as da_chunk
    setup_dask()
    a, b, s = inp["start"], inp["stop"], inp["step"]
    dtype = inp.get("dtype")
    chunks = inp["chunks"]
    ints = all(isinstance(v, int) for v in (a, b, s))
    pa, pb, ps = _num(a), _num(b), _num(s)
    try:
        e = np.arange(pa, pb, ps, dtype=dtype)
    except (ZeroDivisionError, ValueError, TypeError):
        e = None
    try:
        r = da.arange(pa, pb, ps, chunks=chunks, dtype=dtype)
    except ZeroDivisionError:
        if ps == 0:
            if ints:
                ctx.eq("arange num (step 0)", ctx.lean(Sym("arange"), a, b, s, []), [Sym("raised")])
            elif all(isinstance(v, float) for v in (pa, pb, ps)):
                ctx.eq("arange_f num (step 0.0)", ctx.lean(Sym("arange_f"), _f2p(pa), _f2p(pb), _f2p(ps), []), [Sym("raised")])
            ctx.branch("arange:step0")
            return
        raise
    except (ValueError, TypeError) as ex:
        if e is None:
            return
        ctx.fail("arange raised although NumPy accepts the arguments", observed=str(ex)[:200])
        return
    if e is None:
        return
    cs = list(r.chunks[0])
    if ints:
        m = ctx.lean(Sym("arange"), a, b, s, cs)
        ctx.eq("arange: num", m[0], len(e))
        ctx.eq("arange: sum(chunks)", sum(cs), len(e))
        tasks = _tasks(r)
        impl = []
        for i in range(len(cs)):
            t = tasks[(r.name, i)]
            if getattr(t.func, "func", t.func) is not da_chunk.arange_block or (t.args[0], t.args[1]) != (a, s):
                ctx.disagree("arange: task is not chunk.arange_block(start, step, …)", [a, s], repr(t)[:200])
            impl.append([int(t.args[2]), int(t.args[3])])
        if not (len(e) == 0 and cs == [0]):
            ctx.eq("arange: task arguments (offset, size)", m[3], impl)
            if dtype in (None, "i8", "i4"):
                blocks = [np.asarray(r.blocks[i].compute(scheduler="sync")).tolist() for i in range(len(cs))]
                ctx.eq("arange: block values vs Lean", m[4], blocks)
            # the fallback of arange_block (dtypes without index arithmetic): chunk.arange on the block bounds
            if len(cs) <= 6:
                fb = [np.asarray(da_chunk.arange(blk[0], blk[1], s, blk[2], "i8")).tolist() for blk in m[1]]
                ctx.eq("arange: chunk.arange on the model's block bounds vs Lean (fallback plan)", m[2], fb)
        ctx.branch("arange:int" + (":neg" if s < 0 else "") + (":empty" if len(e) == 0 else ""))
        if len(cs) > 1:
            ctx.branch("arange:multi-block")
        _same(ctx, "arange", r, e, exact=True)
        return
    shifted = _arange_guard(pa, ps)
    allfloat = all(isinstance(v, float) for v in (pa, pb, ps)) and all(math.isfinite(v) for v in (pa, pb, ps))
    ctx.branch("arange:fractional" + (":neg" if ps < 0 else "") + (":shifted" if shifted else ""))
    if len(cs) > 1:
        ctx.branch("arange:fractional:multi-block")
    if allfloat and dtype in (None, "f8") and len(e) <= 400:
        # function level: the binary64 model (Model/SoftFloat.lean, Model/CreationFloat.lean) bit for bit
        m = ctx.lean(Sym("arange_f"), _f2p(pa), _f2p(pb), _f2p(ps), cs)
        if m == [Sym("raised")]:
            ctx.disagree("arange_f: the model raises, dask returned an array", m, list(r.shape))
            return
        ctx.eq("arange_f: takes the `arange(0, stop-start, step) + start` path", m[0], r.name.startswith("add-"))
        ctx.eq("arange_f: the harness' copy of the guard", m[0], shifted)
        ctx.eq("arange_f: num (binary64 ceil((stop-start)/step), underflow rule)", m[1], len(e))
        if (pb - pa) / ps == 0 and pb != pa:
            ctx.branch("arange:quotient-underflows")
        try:
            blocks = [[Fraction(float(v)) for v in np.asarray(r.blocks[i].compute(scheduler="sync"))] for i in range(len(cs))]
        except Exception as ex:
            ctx.fail(f"arange: block compute raised {type(ex).__name__}", observed=str(ex)[:200])
            return
        mb = [[_p2frac(v) for v in blk] for blk in m[2]]
        if mb != blocks:
            ctx.disagree("arange_f: block values (binary64, bit for bit)", [[float(v) for v in blk] for blk in mb],
                         [[float(v) for v in blk] for blk in blocks])
        if [v for blk in mb for v in blk] != [_p2frac(v) for v in m[3]]:
            ctx.disagree("arange_f: Lean blocks do not concatenate to the Lean one-block array", m[2], m[3])
        ctx.branch("arange:f64-model-diffed")
        if len(e) and len(cs) > 1:
            # what the plan before `fix: da.arange computes every element from its global index` declared: measures how
            # often the generator reaches the inputs on which that plan produced blocks of the wrong length
            old = ctx.lean(Sym("arange_old_lens"), _f2p(pa), _f2p(ps), cs)
            if old != cs:
                ctx.branch("arange:old-plan-block-lengths-wrong")
    if not shifted and dtype in (None, "f8", "f4"):
        # NumPy's own fill loop, reproduced per block from global indices: bit for bit
        _same(ctx, "arange (fractional)", r, e, exact=True)
    else:
        # `arange(0, stop-start, step) + start` deliberately differs from NumPy's fill (dask#11706); int dtypes with float
        # arguments are cast from the float values (pinned strict xfail test_arange_cast_float_int_step)
        if dtype is not None and np.dtype(dtype).kind in "iu":
            _same(ctx, "arange (float arguments, integer dtype)", r, e, exact=True,
                  value_sig="arange:float-arguments:int-dtype:values-differ-from-numpy")
            ctx.branch("arange:float-args:int-dtype")
            return
        _same(ctx, "arange (fractional, shifted)", r, e, exact=False, tol_steps=len(e) + 4)
    # chunk invariance, bit for bit: the same call as one chunk
    one = np.asarray(da.arange(pa, pb, ps, chunks=-1, dtype=dtype).compute(scheduler="sync"))
    got = np.asarray(r.compute(scheduler="sync"))
    if one.shape != got.shape or not np.array_equal(one, got):
        ctx.fail("arange: values depend on the chunking", observed=got.tolist(), expected=one.tolist())


_SF_OPS = ["add", "sub", "mul", "div", "ceil", "ofint", "le", "isclose"]


def case_softfloat(ctx, inp):
    """the binary64 model itself against CPython/NumPy floats, bit for bit"""
    import math
    import numpy as np
    op = inp["op"]
    if op == "const":
        ctx.eq("softfloat: rtol of np.isclose", ctx.lean(Sym("sf"), Sym("mul"), _f2p(1e-5), [1, 0]), _norm_pair(_f2p(1e-5)))
        import inspect
        if inspect.signature(np.isclose).parameters["rtol"].default != 1e-5:
            ctx.disagree("np.isclose default rtol", 1e-5, inspect.signature(np.isclose).parameters["rtol"].default)
        ctx.eq("softfloat: isclose(1, 1+rtol) boundary", ctx.lean(Sym("sf"), Sym("isclose"), _f2p(1 + 1e-5), [1, 0]),
               bool(np.isclose(1 + 1e-5, 1.0, atol=0)))
        return
    if op == "ofint":
        n = inp["x"]
        try:
            want = float(n)
        except OverflowError:
            return
        ctx.eq("softfloat: float(int)", _p2frac(ctx.lean(Sym("sf"), Sym("ofint"), [n, 0], [0, 0])), Fraction(want))
        ctx.branch("sf:ofint" + (":inexact" if int(want) != n else ""))
        return
    x, y = _num(inp["x"]), _num(inp["y"])
    px, py = _f2p(x), _f2p(y)
    with np.errstate(all="ignore"):
        if op == "ceil":
            ctx.eq("softfloat: ceil", ctx.lean(Sym("sf"), Sym("ceil"), px, py), int(math.ceil(x)))
            ctx.branch("sf:ceil")
            return
        if op == "le":
            ctx.eq("softfloat: <=", ctx.lean(Sym("sf"), Sym("le"), px, py), x <= y)
            ctx.branch("sf:le")
            return
        if op == "isclose":
            d = x - y
            if not math.isfinite(d) or not math.isfinite(1e-5 * abs(y)):
                return
            ctx.eq("softfloat: np.isclose(x, y, atol=0)", ctx.lean(Sym("sf"), Sym("isclose"), px, py), bool(np.isclose(x, y, atol=0)))
            ctx.branch("sf:isclose:" + str(bool(np.isclose(x, y, atol=0))))
            return
        try:
            want = {"add": lambda: x + y, "sub": lambda: x - y, "mul": lambda: x * y, "div": lambda: x / y}[op]()
        except ZeroDivisionError:
            ctx.eq("softfloat: division by zero", ctx.lean(Sym("sf"), Sym(op), px, py), [Sym("raised")])
            ctx.branch("sf:div0")
            return
    if not math.isfinite(want):
        ctx.note("softfloat_overflow_skipped")
        return
    got = ctx.lean(Sym("sf"), Sym(op), px, py)
    if _p2frac(got) != Fraction(want):
        ctx.disagree(f"softfloat: {op}", float(_p2frac(got)).hex(), want.hex())
    exact = {"add": lambda: Fraction(x) + Fraction(y), "sub": lambda: Fraction(x) - Fraction(y),
             "mul": lambda: Fraction(x) * Fraction(y), "div": lambda: Fraction(x) / Fraction(y)}[op]()
    kind = "exact" if exact == Fraction(want) else "rounded"
    if want != 0 and abs(want) < 2.0 ** -1022:
        kind += ":subnormal"
    if kind.startswith("rounded"):
        # a tie: the exact result lies half way between two doubles
        lo, hi = sorted([Fraction(want), Fraction(math.nextafter(want, math.inf if exact > Fraction(want) else -math.inf))])
        if exact - lo == hi - exact:
            kind += ":tie"
    ctx.branch(f"sf:{op}:{kind}")


def _norm_pair(p):
    m, e = p
    if m == 0:
        return [0, 0]
    while m % 2 == 0:
        m //= 2
        e += 1
    return [m, e]


def case_linspace(ctx, inp):
    import numpy as np
    import dask.array as da
    setup_dask()
    a, b, num, ep = inp["start"], inp["stop"], inp["num"], inp["endpoint"]
    dtype = inp.get("dtype")
    pa, pb = _num(a), _num(b)
    e, estep = np.linspace(pa, pb, num, endpoint=ep, retstep=True, dtype=dtype)
    r, rstep = da.linspace(pa, pb, num, endpoint=ep, retstep=True, chunks=inp["chunks"], dtype=dtype)
    if num > 1 or (num == 1 and not ep):
        if not np.isclose(rstep, estep, rtol=1e-15, atol=0):
            ctx.fail("linspace: retstep differs from NumPy", observed=float(rstep), expected=float(estep))
    cs = list(r.chunks[0])
    tasks = _tasks(r)
    offs = []
    for i in range(len(cs)):
        t = tasks[(r.name, i)]
        offs.append([int(t.args[3]), int(t.args[4])])   # (offset, size) of chunk.linspace_block
        if float(t.args[2]) != float(rstep) and num > 1:
            ctx.disagree("linspace: task step differs from the returned step", float(rstep), float(t.args[2]))
    if isinstance(a, int) and isinstance(b, int):
        div = ((num - 1) if ep else num) or 1
        m = ctx.lean(Sym("linspace"), a * div, b * div, b - a, num, ep, cs)
        ctx.eq("linspace: task (offset, size) per chunk", m[0], offs)
        ctx.eq("linspace: Lean blocks concatenate to the Lean spec", [v for blk in m[1] for v in blk], m[2])
        # the exact values (numerators over div) against NumPy's floats
        if e.dtype.kind == "f" and num:
            exact = np.array([v / div for v in m[2]], dtype="f8")
            tol = 16 * float(np.finfo(e.dtype).eps) * max(1.0, abs(a), abs(b))
            if not np.allclose(exact, np.asarray(e, dtype="f8"), rtol=0, atol=tol):
                ctx.disagree("linspace: Lean exact values vs NumPy", exact.tolist(), np.asarray(e).tolist())
        ctx.branch("linspace:int-endpoints")
    fa, fb = (float(pa), float(pb)) if all(isinstance(v, (int, float)) for v in (pa, pb)) else (None, None)
    if fa is not None and e.dtype == np.dtype("f8") and num <= 200 and np.isfinite(fb - fa) and np.isfinite(e).all():
        # function level: the binary64 model of da.linspace / chunk.linspace_block, bit for bit
        m = ctx.lean(Sym("linspace_f"), _f2p(fa), _f2p(fb), num, ep, cs)
        ctx.eq("linspace_f: step = (stop - start) / div in binary64", _p2frac(m[0]), Fraction(float(rstep)))
        blocks = [[Fraction(float(v)) for v in np.asarray(r.blocks[i].compute(scheduler="sync"))] for i in range(len(cs))]
        mb = [[_p2frac(v) for v in blk] for blk in m[1]]
        if mb != blocks:
            ctx.disagree("linspace_f: block values (binary64, bit for bit)", [[float(v) for v in blk] for blk in mb],
                         [[float(v) for v in blk] for blk in blocks])
        ctx.branch("linspace:f64-model-diffed")
    if len(cs) > 1:
        ctx.branch("linspace:multi-block")
    if not ep:
        ctx.branch("linspace:no-endpoint")
    if np.dtype(e.dtype).kind in "iu":
        ctx.branch("linspace:int-dtype")
    if num > 1 and float(rstep) == 0.0 and pa != pb:
        ctx.branch("linspace:step-underflows")
    if ep and num > 1 and fa is not None and fa + (num - 1) * float(rstep) != fb:
        ctx.branch("linspace:pinned-endpoint-differs-from-formula")
    if isinstance(a, int) and isinstance(b, int) and max(abs(a), abs(b)) > 2 ** 53:
        ctx.branch("linspace:int-endpoints>2**53")
    # since `fix: da.linspace computes every element from its global index` the result is NumPy's bit for bit
    _same(ctx, "linspace", r, e, exact=True)


def case_eye(ctx, inp):
    import numpy as np
    import dask.array as da
    setup_dask()
    N, M, k, chunks, dtype = inp["N"], inp["M"], inp["k"], inp["chunks"], inp.get("dtype", "f8")
    e = np.eye(N, M, k, dtype=dtype)
    r = da.eye(N, chunks=chunks, M=M, k=k, dtype=dtype)
    if not _same(ctx, "eye", r, e, exact=True):
        return
    v, h = list(r.chunks[0]), list(r.chunks[1])
    m = ctx.lean(Sym("eye"), k, v, h)
    tasks = _tasks(r)
    table = []
    for i in range(len(v)):
        row = []
        for j in range(len(h)):
            t = tasks[(r.name, i, j)]
            if t.func is np.eye:
                row.append([True, int(t.args[2])])
                if (int(t.args[0]), int(t.args[1])) != (v[i], h[j]):
                    ctx.fail("eye: block task has the wrong shape arguments", observed=list(t.args[:2]))
            else:
                row.append([False, None])
        table.append(row)
    model_tab = [[[c[0], c[1] if c[0] else None] for c in row] for row in m[0]]
    ctx.eq("eye: task table (np.eye vs np.zeros, local k)", model_tab, table)
    ctx.eq("eye: Lean eyeDen matrix vs computed", m[1], np.asarray(r.compute(scheduler="sync")).astype(int).tolist())
    if len(v) > 1 or len(h) > 1:
        ctx.branch("eye:multi-block")
    Mv = M if M is not None else N
    if Mv != N:
        ctx.branch("eye:rect")
    if k:
        ctx.branch("eye:k!=0")
    if isinstance(chunks, int) and (chunks > N or chunks > Mv):
        ctx.branch("eye:chunk>dim")
    # where the k-diagonal goes through the np.eye blocks (measures the generator; see _gen_eye)
    if Mv > N and k > 0:
        ctx.branch("eye:M>N:k>0" + (":k>=N" if k >= N else "") + (":k>=M-1" if k >= Mv - 1 else ""))
    if N > Mv and k < 0:
        ctx.branch("eye:N>M:k<0" + (":-k>=M" if -k >= Mv else "") + (":-k>=N-1" if -k >= N - 1 else ""))
    for i, row in enumerate(table):
        for j, cell in enumerate(row):
            if not cell[0]:
                continue
            lk, bv, bh = cell[1], v[i], h[j]
            form = "wide" if bh > bv else ("tall" if bv > bh else "square")
            enters = "left" if lk < 0 else ("top" if lk > 0 else "corner")
            # the diagonal leaves a bv x bh block through the bottom edge iff its last row is bv-1
            dlen = min(bv - max(0, -lk), bh - max(0, lk))
            leaves = "bottom" if max(0, -lk) + dlen == bv and max(0, lk) + dlen < bh else (
                "right" if max(0, lk) + dlen == bh and max(0, -lk) + dlen < bv else "corner")
            ctx.branch(f"eye:block:{form}:{enters}->{leaves}")
            if (len(v) > 1 or len(h) > 1) and dlen < min(bv, bh):
                ctx.branch("eye:block:partial-diagonal")


def case_diag(ctx, inp):
    import numpy as np
    import dask.array as da
    setup_dask()
    chunks = [tuple(c) for c in inp["chunks"]]
    shape = tuple(sum(c) for c in chunks)
    k = inp["k"]
    op = inp.get("op", "diag")
    isdask = inp.get("dask", True)
    if op == "diagonal":
        # distinct values: the position every output element was read from is recovered from its value
        x = np.arange(int(np.prod(shape)), dtype="i8").reshape(shape)
    else:
        x = (np.arange(int(np.prod(shape)), dtype="i8") * 5 % 17 + 1).reshape(shape)
    d = da.from_array(x, chunks=tuple(chunks)) if isdask else x
    if op == "diag":
        e = np.diag(x, k)
        r = da.diag(d, k)
    else:
        ax1, ax2 = inp["axes"]
        try:
            e = np.diagonal(x, k, ax1, ax2)
        except Exception as ex:   # AxisError / ValueError (same axis)
            e = None
        try:
            r = da.diagonal(d, k, ax1, ax2)
        except Exception as ex:
            if e is not None:
                ctx.fail(f"diagonal raised {type(ex).__name__} although NumPy accepts the arguments", observed=str(ex)[:200])
            else:
                ctx.eq("diagonal_nd: the model raises too", ctx.lean(Sym("diagonal_nd"), [list(c) for c in chunks], k, ax1, ax2),
                       [Sym("raised")])
                ctx.branch("diagonal:raises")
            return
        if e is None:
            ctx.fail("diagonal accepted arguments NumPy rejects", observed=[k, ax1, ax2])
            return
    if not _same(ctx, f"{op}({len(shape)}-d, k={k})", r, e, exact=True):
        return
    if len(shape) == 2 and isdask and not (op == "diag" and k == 0 and chunks[0] == chunks[1]):
        # function level: the walk along the k-diagonal through the blocks vs the Lean plan
        kk, rc, cc = k, list(chunks[0]), list(chunks[1])
        if op == "diagonal":
            a1, a2 = (a % 2 for a in inp["axes"])
            if a1 > a2:
                kk = -k
                rc, cc = rc, cc
        m = ctx.lean(Sym("diagonal"), rc, cc, kk)
        tasks = _tasks(r)
        segs = []
        if r.chunks[-1] != (0,):
            for i in range(len(r.chunks[-1])):
                t = tasks[(r.name, i)]
                ref = t.args[0].key
                segs.append([int(ref[1]), int(ref[2]), int(t.args[1]), int(r.chunks[-1][i])])
        ctx.eq("diagonal: (block row, block column, local k, chunk length) per task", m, [Sym("ok"), segs])
        ctx.branch("diagonal:plan-diffed" + (":multi" if len(segs) > 1 else ""))
    if op == "diagonal" and isdask:
        # function level, n-d: normalised axes, output chunks, the whole task table (output block -> input block, local k)
        nd = len(shape)
        m = ctx.lean(Sym("diagonal_nd"), [list(c) for c in chunks], k, ax1, ax2)
        if m == [Sym("raised")]:
            ctx.disagree("diagonal_nd: the model raises, dask returned an array", m, list(r.shape))
            return
        _, a1, a2, oc, mt = m
        ctx.eq("diagonal_nd: out_chunks", oc, [list(c) for c in r.chunks])
        tasks = _tasks(r)
        impl = []
        for key, t in tasks.items():
            if key[0] != r.name or t.func is not np.diagonal:
                continue
            ref = t.args[0].key
            if (int(t.args[2]), int(t.args[3])) != (a1, a2):
                ctx.disagree("diagonal_nd: np.diagonal is not called with the normalised axes", [a1, a2], [int(t.args[2]), int(t.args[3])])
            impl.append([[int(v) for v in key[1:]], [int(v) for v in ref[1:]], int(t.args[1])])
        ctx.eq("diagonal_nd: task table (output block, input block, local k)", sorted(mt), sorted(impl))
        # the read map: which input position every output element holds, through the model's block plan
        kk = -k if (ax1 % nd) > (ax2 % nd) else k
        g = np.asarray(r.compute(scheduler="sync"))
        if g.size:
            idxs = [tuple(int(v) for v in ix) for ix in np.ndindex(*g.shape)]
            step = max(1, len(idxs) // 5)
            for ix in idxs[::step][:6] + [idxs[-1]]:
                want = [int(v) for v in np.unravel_index(int(g[ix]), shape)]
                ctx.eq("diagonal_read: input position read for an output position", ctx.lean(
                    Sym("diagonal_read"), [list(c) for c in chunks], a1, a2, kk, list(ix[:-1]), ix[-1]), want)
        free_multi = any(len(c) > 1 for i, c in enumerate(chunks) if i not in (a1, a2))
        ctx.branch(f"diagonal_nd:{nd}d" + (":free-multiblock" if free_multi and nd > 2 else "") + (":swapped" if kk != k or (k == 0 and (ax1 % nd) > (ax2 % nd)) else "")
                   + (":nonadjacent" if a2 - a1 > 1 else "") + (":empty" if not g.size else ""))
    if op == "diag" and len(shape) == 1 and isdask:
        cs = list(chunks[0])
        if k == 0:
            m = ctx.lean(Sym("diag"), cs, [int(v) for v in x])
            ctx.eq("diag: Lean diagDen vs computed", m, np.asarray(r.compute(scheduler="sync")).tolist())
            ctx.branch("diag:1d-k0")
        else:
            m = ctx.lean(Sym("diag_k"), cs, [int(v) for v in x], k)
            ctx.eq("diag(v, k): Lean diagKDen (pad around the k=0 plan) vs computed", m, np.asarray(r.compute(scheduler="sync")).tolist())
            # the embedded diag(v) keeps the input's chunks; the pad (split by da.pad as it likes) makes up the other |k|
            n, tc = len(cs), tuple(cs)
            rows, cols = r.chunks
            ok = ((rows[:n] == tc and cols[len(cols) - n:] == tc) if k > 0 else (rows[len(rows) - n:] == tc and cols[:n] == tc))
            if not ok or sum(rows) != sum(cs) + abs(k) or sum(cols) != sum(cs) + abs(k):
                ctx.fail("diag(v, k): the embedded diag(v) does not keep the input's chunks", observed=r.chunks, expected=[cs, k])
            ctx.branch("diag:1d:k" + (">0" if k > 0 else "<0"))
    elif op == "diag" and len(shape) == 2 and isdask and k == 0 and chunks[0] == chunks[1]:
        # 2-d -> 1-d fast path: block i of the result is np.diag(block (i, i))
        tasks = _tasks(r)
        for i in range(len(chunks[0])):
            t = tasks[(r.name, i)]
            if t.func is not np.diag or tuple(t.args[0].key[1:]) != (i, i):
                ctx.disagree("diag (2-d, k=0, square chunks): task i is not np.diag(block (i, i))", [i, i], repr(t)[:120])
        if r.chunks != (chunks[0],):
            ctx.fail("diag (2-d fast path): chunks", observed=r.chunks, expected=(chunks[0],))
        ctx.branch("diag:2d:fast-path")
    else:
        ctx.branch(f"{op}:{len(shape)}d" + (":k" if k else "") + ("" if isdask else ":numpy-input"))


def _spec_py(c):
    if isinstance(c, list):
        return tuple(_spec_py(x) for x in c)
    return c


def case_misc(ctx, inp):
    import numpy as np
    import dask.array as da
    setup_dask()
    op = inp["op"]
    chunks = _spec_py(inp.get("chunks", "auto"))
    if op == "tri":
        N, M, k, dt = inp["N"], inp["M"], inp["k"], inp.get("dtype", "f8")
        r = da.tri(N, M, k, dtype=dt, chunks=chunks)
        if _same(ctx, "tri", r, np.tri(N, M, k, dtype=dt)) and r.size:
            # function level: every block = (row offset + r >= column offset + c - k)
            for b, sizes, vals in ctx.lean(Sym("tri"), k, list(r.chunks[0]), list(r.chunks[1])):
                blk = np.asarray(r.blocks[tuple(b)].compute(scheduler="sync"))
                if blk.shape != tuple(sizes) or blk.ravel().astype("i8").tolist() != vals:
                    ctx.disagree("tri: block values", [b, vals], blk.tolist())
            ctx.branch("grid:tri-blocks-diffed" + (":multi" if r.npartitions > 1 else ""))
        if isinstance(chunks, tuple) and all(isinstance(c, tuple) for c in chunks) and r.chunks != chunks:
            ctx.fail("tri: explicit chunks not honoured", observed=r.chunks, expected=chunks)
    elif op == "indices":
        dims, dt = tuple(inp["dims"]), inp.get("dtype", "i8")
        r = da.indices(dims, dtype=dt, chunks=chunks)
        if _same(ctx, "indices", r, np.indices(dims, dtype=dt)) and all(dims):
            # function level: chunks, and every block of every component = block offset + local index along its axis
            cs = [list(c) for c in r.chunks[1:]]
            ctx.eq("indices: chunks = ((1,)*ndim, *chunks)", [list(c) for c in r.chunks], [[1] * len(dims)] + cs)
            if isinstance(chunks, tuple) and all(isinstance(c, tuple) for c in chunks) and r.chunks[1:] != chunks:
                ctx.fail("indices: explicit chunks not honoured", observed=r.chunks[1:], expected=chunks)
            for b, offs, sizes, comps_, _w in ctx.lean(Sym("grid"), cs):
                for j in range(len(dims)):
                    blk = np.asarray(r.blocks[(j,) + tuple(b)].compute(scheduler="sync"))
                    if blk.shape != (1,) + tuple(sizes) or blk.ravel().astype("i8").tolist() != comps_[j]:
                        ctx.disagree("indices: block values (offset + local index)", [b, j, comps_[j]], blk.tolist())
            ctx.branch("grid:indices-blocks-diffed" + (":multi" if any(len(c) > 1 for c in cs) else ""))
    elif op == "meshgrid":
        xs = [np.arange(n) * (i + 2) for i, n in enumerate(inp["lens"])]
        ds = [da.from_array(x, chunks=tuple(c)) for x, c in zip(xs, inp["xchunks"])]
        if inp.get("mix"):
            ds[0] = xs[0]
        kw = {"indexing": inp["indexing"], "sparse": inp["sparse"]}
        es = np.meshgrid(*xs, **kw)
        rs = da.meshgrid(*ds, **kw)
        if len(es) != len(rs):
            ctx.fail("meshgrid: number of outputs differs", observed=len(rs))
        ok = True
        for i, (r, e) in enumerate(zip(rs, es)):
            ok = _same(ctx, f"meshgrid[{i}]", r, e) and ok
        if ok and rs:
            # function level: chunks of every output, and every block = the block of input j broadcast along axis sigma(j)
            xc = [list(d.chunks[0]) if hasattr(d, "chunks") else [len(d)] for d in ds]
            m = ctx.lean(Sym("meshgrid"), xc, inp["indexing"] == "xy", bool(inp["sparse"]))
            for j, (r, (mc, ax)) in enumerate(zip(rs, m)):
                ctx.eq(f"meshgrid[{j}]: chunks", mc, [list(c) for c in r.chunks])
                starts = np.cumsum([0] + xc[j])
                for b in itertools.product(*[range(len(c)) for c in r.chunks]):
                    blk = np.asarray(r.blocks[b].compute(scheduler="sync"))
                    src = xs[j][starts[b[ax]]:starts[b[ax] + 1]]
                    shp = [1] * r.ndim
                    shp[ax] = len(src)
                    want = np.broadcast_to(src.reshape(shp), tuple(c[i] for c, i in zip(r.chunks, b)))
                    if blk.shape != want.shape or not np.array_equal(blk, want):
                        ctx.disagree(f"meshgrid[{j}]: block {b} is not block {b[ax]} of input {j} broadcast along axis {ax}",
                                     want.tolist(), blk.tolist())
            ctx.branch("grid:meshgrid-blocks-diffed:" + inp["indexing"] + (":sparse" if inp["sparse"] else "") + (f":{len(xs)}in"))
    elif op == "fromfunction":
        shape, dt = tuple(inp["shape"]), inp.get("dtype", "f8")
        f = (lambda *a: sum((i + 1) * x for i, x in enumerate(a)))
        r = da.fromfunction(f, shape=shape, dtype=dt, chunks=chunks)
        if isinstance(chunks, tuple) and all(isinstance(c, tuple) for c in chunks) and r.chunks != chunks:
            ctx.fail("fromfunction: explicit chunks not honoured", observed=r.chunks, expected=chunks)
        if _same(ctx, "fromfunction", r, np.fromfunction(f, shape, dtype=dt)):
            # function level: every block = f on (block offset + local index)
            for b, offs, sizes, _c, w in ctx.lean(Sym("grid"), [list(c) for c in r.chunks]):
                blk = np.asarray(r.blocks[tuple(b)].compute(scheduler="sync"))
                if blk.shape != tuple(sizes) or blk.ravel().astype("i8").tolist() != w:
                    ctx.disagree("fromfunction: block values f(offset + local index)", [b, w], blk.tolist())
            ctx.branch("grid:fromfunction-blocks-diffed" + (":multi" if any(len(c) > 1 for c in r.chunks) else ""))
    elif op in ("ones", "zeros", "full", "empty"):
        shape, dt = tuple(inp["shape"]), inp.get("dtype")
        if op == "full":
            fv = inp["fill"]
            r, e = da.full(shape, fv, dtype=dt, chunks=chunks), np.full(shape, fv, dtype=dt)
        else:
            r, e = getattr(da, op)(shape, dtype=dt, chunks=chunks), getattr(np, op)(shape, dtype=dt)
        if isinstance(chunks, tuple) and chunks and all(isinstance(c, tuple) for c in chunks) and r.chunks != chunks:
            ctx.fail(f"{op}: explicit chunks not honoured", observed=r.chunks, expected=chunks)
        if op == "empty":
            if tuple(r.shape) != e.shape or r.dtype != e.dtype or not _chunks_ok(ctx, r, op):
                ctx.fail("empty: shape/dtype/chunks", observed=[r.shape, str(r.dtype), r.chunks])
            elif r.compute(scheduler="sync").shape != e.shape:
                ctx.fail("empty: computed shape", observed=r.compute().shape)
        else:
            _same(ctx, op, r, e)
    elif op in ("ones_like", "zeros_like", "full_like", "empty_like"):
        shape = tuple(sum(c) for c in inp["achunks"])
        x = np.arange(int(np.prod(shape)), dtype=inp.get("adtype", "i8")).reshape(shape)
        d = da.from_array(x, chunks=tuple(tuple(c) for c in inp["achunks"]))
        kw = {}
        if inp.get("dtype"):
            kw["dtype"] = inp["dtype"]
        if inp.get("shape") is not None:
            kw["shape"] = tuple(inp["shape"])
        ckw = dict(kw)
        if inp.get("chunks") is not None:
            ckw["chunks"] = chunks
        if op == "full_like":
            r, e = da.full_like(d, inp["fill"], **ckw), np.full_like(x, inp["fill"], **kw)
        else:
            r, e = getattr(da, op)(d, **ckw), getattr(np, op)(x, **kw)
        if op == "empty_like":
            if tuple(r.shape) != e.shape or r.dtype != e.dtype or not _chunks_ok(ctx, r, op):
                ctx.fail("empty_like: shape/dtype/chunks", observed=[r.shape, str(r.dtype), r.chunks])
        else:
            _same(ctx, op, r, e)
            if inp.get("shape") is None and inp.get("chunks") is None and r.chunks != d.chunks:
                ctx.fail(f"{op}: chunks differ from the template's", observed=r.chunks, expected=d.chunks)
    ctx.branch("misc:" + op)


# ---------------------------------------------------------------------------
# extension round: *_like argument resolution (Model/CreationLike.lean, Props/C34xLike.lean)
# ---------------------------------------------------------------------------

def _like_spec_sx(c):
    """one entry of a chunks= argument -> spec s-expression of Drivers/chunks.lean; None = outside the model"""
    import numpy as np
    from dask.utils import parse_bytes
    if c is None:
        return Sym("none")
    if isinstance(c, (bool, np.bool_)):
        return None
    if isinstance(c, (int, np.integer)):
        return int(c)
    if isinstance(c, str):
        return Sym("auto") if c == "auto" else [Sym("bytes"), int(parse_bytes(c))]
    if isinstance(c, (tuple, list)) and all(isinstance(x, (int, np.integer)) and not isinstance(x, (bool, np.bool_)) for x in c):
        return [Sym("t")] + [int(x) for x in c]
    return None


def _like_top_sx(c):
    """a chunks= argument (as `_get_like_function_shapes_chunks` returns it) -> top s-expression; None = outside the model"""
    if isinstance(c, dict):
        items = [[int(k), _like_spec_sx(v)] for k, v in c.items()]
        return None if any(v is None for _k, v in items) else [Sym("dict")] + items
    if isinstance(c, (tuple, list)):
        items = [_like_spec_sx(v) for v in c]
        return None if any(v is None for v in items) else [Sym("seq")] + items
    v = _like_spec_sx(c)
    return None if v is None or c is None else [Sym("scalar"), v]


def _like_chunks_py(c):
    if isinstance(c, dict):
        return {int(k): _spec_py(v) for k, v in c["d"]}
    return _spec_py(c)


def case_like(ctx, inp):
    """ones_like / zeros_like / full_like / empty_like: `_get_like_function_shapes_chunks` + `normalize_chunks` of the resolved
    arguments against `likeArgs` / `likeChunks` (the result of the real `auto_chunks` call, if one happens, is a parameter of the
    model); the clauses of like_template_den / like_chunks_sum_shape / like_full_den evaluated on the real result; NumPy."""
    import numpy as np
    import dask.array as da
    import dask.array.core as dac
    import dask.array.creation as dcr
    from sexp import enc
    setup_dask()
    op = inp["op"]
    achunks = tuple(tuple(c) for c in inp["achunks"])
    ashape = tuple(sum(c) for c in achunks)
    adt = inp.get("adtype", "i8")
    x = np.arange(int(np.prod(ashape, dtype="i8")), dtype=adt).reshape(ashape)
    a = da.from_array(x, chunks=achunks) if inp.get("from_array", True) and all(all(v > 0 for v in c) for c in achunks) \
        else da.zeros(ashape, chunks=achunks, dtype=adt)
    if a.chunks != achunks:
        raise RuntimeError(f"template chunks {a.chunks} != requested {achunks}")
    chunks = _like_chunks_py(inp["chunks"]) if inp.get("chunks") is not None else None
    shape = inp.get("shape")
    shape = None if shape is None else (shape if isinstance(shape, int) else tuple(shape))
    kw = {}
    if inp.get("dtype"):
        kw["dtype"] = inp["dtype"]
    if shape is not None:
        kw["shape"] = shape
    ckw = dict(kw)
    if chunks is not None:
        ckw["chunks"] = chunks
    # --- the real helper ------------------------------------------------------------------------------------
    rshape, rchunks = dcr._get_like_function_shapes_chunks(a, chunks, shape)
    rshape_l = [int(rshape)] if isinstance(rshape, int) else [int(v) for v in rshape]   # `_parse_wrap_args`: shape = (shape,)
    shape_l = None if shape is None else ([shape] if isinstance(shape, int) else list(shape))
    want_shape = list(ashape) if shape is None else shape_l
    # --- the real call, observing auto_chunks ---------------------------------------------------------------
    rec = {"depth": 0, "res": None, "called": False}
    orig = dac.auto_chunks

    def wrapper(*args, **kwargs):
        rec["depth"] += 1
        rec["called"] = True
        try:
            out = orig(*args, **kwargs)
        finally:
            rec["depth"] -= 1
        if rec["depth"] == 0:
            rec["res"] = out
        return out

    dac.auto_chunks = wrapper
    try:
        try:
            r = da.full_like(a, inp["fill"], **ckw) if op == "full_like" else getattr(da, op)(a, **ckw)
            impl = [Sym("ok"), [[int(v) for v in c] for c in r.chunks]]
        except ValueError:
            r, impl = None, [Sym("raised"), Sym("ValueError")]
    finally:
        dac.auto_chunks = orig
    # --- function level -------------------------------------------------------------------------------------
    top = None if chunks is None else _like_top_sx(chunks)
    ar = Sym("none")
    if rec["called"] and rec["res"] is not None:
        from props.c23 import autores_sx
        ar = autores_sx(rec["res"]) or Sym("none")
    modelled = chunks is None or top is not None
    if modelled:
        mshape, mtop, mres = ctx.lean(Sym("like_args"), list(ashape), [list(c) for c in achunks],
                                      Sym("none") if chunks is None else top,
                                      Sym("none") if shape is None else shape_l, Sym("none"), ar)
        ctx.eq("_get_like_function_shapes_chunks: shape", mshape, rshape_l)
        rtop = _like_top_sx(rchunks)
        ctx.eq("_get_like_function_shapes_chunks: chunks", enc(mtop), enc(rtop) if rtop is not None else repr(rchunks))
        if mres == [Sym("unsupported")]:
            ctx.note("like:outside-the-modelled-chunk-specs")
        elif mres == [Sym("raised"), Sym("auto")]:
            ctx.disagree("like: the model wants auto_chunks, the real call never reached it", mres, impl)
        else:
            ctx.eq(f"{op}: lazy chunks vs likeChunks", mres, impl)
    kind = ("template" if chunks is None else "chunks-given") if shape is None else ("shape-given:auto" if chunks is None else "both-given")
    ctx.branch("like:" + kind + (":auto_chunks-consulted" if rec["called"] else ""))
    if r is None:
        ctx.branch("like:raised-ValueError")
        if chunks is None:
            ctx.fail(f"{op}: raised although no chunks= was given", observed="ValueError")
        return
    # --- the theorems' clauses on the real result -------------------------------------------------------------
    if shape is None and chunks is None:
        if r.chunks != a.chunks:
            ctx.fail(f"{op}: chunks differ from the template's (like_template_den)", observed=r.chunks, expected=a.chunks)
        if rec["called"]:
            ctx.fail(f"{op}: auto_chunks consulted for the template's own chunks", observed=str(rec["res"]))
        if any(0 in c for c in achunks):
            ctx.branch("like:template:zero-length-chunk")
        if not achunks:
            ctx.branch("like:template:0-d")
    if [int(v) for v in r.shape] != want_shape:
        ctx.fail(f"{op}: lazy shape is not shape= / the template's", observed=list(r.shape), expected=want_shape)
    if isinstance(chunks, tuple) and chunks and all(isinstance(c, tuple) for c in chunks) and r.chunks != chunks:
        ctx.fail(f"{op}: explicit chunks not honoured", observed=r.chunks, expected=chunks)
    if op == "full_like":
        e = np.full_like(x, inp["fill"], **kw)
    else:
        e = getattr(np, op)(x, **kw)
    # zero-length chunks are legal exactly where the caller supplied them: the template's own chunks, explicit tuples
    zeros_ok = (chunks is None and shape is None) or (chunks is not None and "(t " in enc(top or []))
    if not zeros_ok and any(0 in c and len(c) > 1 for c in r.chunks):
        ctx.fail(f"{op}: zero-length chunk although none was asked for", observed=r.chunks)
    if op == "empty_like":
        if tuple(r.shape) != e.shape or r.dtype != e.dtype or not _chunks_ok(ctx, r, op, zeros_ok):
            ctx.fail("empty_like: shape/dtype/chunks", observed=[r.shape, str(r.dtype), r.chunks])
        elif r.compute(scheduler="sync").shape != e.shape:
            ctx.fail("empty_like: computed shape", observed=list(r.compute(scheduler="sync").shape))
    else:
        _same(ctx, op, r, e, zeros_ok=zeros_ok)


CASES = {"arange": case_arange, "linspace": case_linspace, "eye": case_eye, "diag": case_diag, "misc": case_misc,
         "softfloat": case_softfloat, "like": case_like}


def _chunk_spec(rng, n, allow_tuple=True):
    r = rng.random()
    if r < 0.5:
        return rng.randint(1, max(1, n + 2))
    if r < 0.6:
        return "auto"
    if r < 0.7:
        return -1
    if r < 0.8:
        return rng.choice(["16B", "64B", "200B"])
    if allow_tuple:
        return [rand_comp(rng, n)]
    return rng.randint(1, 4)


def _shape_chunks(rng, shape):
    r = rng.random()
    if r < 0.4:
        return [rand_comp(rng, s) for s in shape]
    if r < 0.7:
        return [rng.randint(1, s + 1) for s in shape]
    if r < 0.8:
        return rng.randint(1, 4)
    if r < 0.9:
        return "auto"
    return rng.choice(["32B", "128B"])


_EYE_BYTES = ["16B", "40B", "48B", "64B", "96B", "128B", "200B"]   # i8: non-square blocks such as (2,),(4,3)


def _eye_chunk(rng, N, M):
    """int chunk sizes aimed at block shapes: > N (one wide block row), > M, not dividing N / M, or a byte string"""
    r = rng.random()
    if r < 0.30:
        return rng.randint(N + 1, max(N + 1, M + 2))          # wider than tall when M > N (taller than wide when N > M)
    if r < 0.55:
        nd = [c for c in range(2, max(N, M) + 1) if (N % c) or (M % c)]
        return rng.choice(nd) if nd else rng.randint(1, max(1, M))
    if r < 0.75:
        return rng.randint(1, max(1, min(N, M)))
    if r < 0.9:
        return rng.choice(_EYE_BYTES)
    return rng.choice(["auto", max(N, M) + 1, 1])


def _eye_k_upper(rng, N, M):
    """0 < k: inside, k >= N, near M, at/over M"""
    return rng.choice([1, 2, max(1, N - 1), N, N + 1, max(1, M - 2), max(1, M - 1), M,
                       rng.randint(1, max(1, M - 1)), rng.randint(1, max(1, M - 1)), rng.randint(1, max(1, M - 1)),
                       rng.randint(min(N, M), max(N, M))])


def _gen_eye(ctx):
    rng = ctx.rng
    # regression: the eye defect (#30) and friends
    yield "eye", {"N": 1, "M": 2, "k": 0, "chunks": 2, "dtype": "f8"}
    yield "eye", {"N": 2, "M": 7, "k": 3, "chunks": 3, "dtype": "i8"}
    yield "eye", {"N": 2, "M": 7, "k": 5, "chunks": "64B", "dtype": "i8"}
    yield "eye", {"N": 7, "M": 3, "k": -4, "chunks": "40B", "dtype": "i8"}
    # --- more columns than rows, upper diagonals through wide blocks (an independently seeded defect of this kind
    #     was missed by the earlier generator); the mirror image (N > M, k < 0); runs first so a short deadline keeps it
    for _ in range(ctx.n(170, 2500)):
        N = rng.randint(1, 6)
        M = N + rng.randint(1, 9)
        k = _eye_k_upper(rng, N, M)
        if rng.random() < 0.3:
            N, M, k = M, N, -k
        yield "eye", {"N": N, "M": M, "k": k, "chunks": _eye_chunk(rng, min(N, M), max(N, M)) if N < M else _eye_chunk(rng, M, N),
                      "dtype": rng.choice(["i8", "i8", "f8", "bool"])}
    # --- exhaustive small eye grid: N, M <= 7, every k in [-N-1, M+1], chunks 1..8 (5120 cases) in thorough;
    #     a seeded 1/16 sample of it in quick (the boundary diagonals k in {-N, -1, 0, 1, N, M-1, M} at 1/6)
    top = 8
    for N in range(top):
        for M in range(top):
            for c in range(1, 9):
                for k in range(-N - 1, M + 2):
                    if not ctx.thorough():
                        p = 1 / 6 if (k in (-N, -1, 0, 1, N, M - 1, M) and M != N) else 1 / 20
                        if rng.random() >= p:
                            continue
                    yield "eye", {"N": N, "M": M, "k": k, "chunks": c, "dtype": "i8"}
    if ctx.thorough():
        for N in range(6):
            for M in [None] + list(range(6)):
                for c in ["auto"] + _EYE_BYTES:
                    for k in range(-N - 1, (N if M is None else M) + 2):
                        yield "eye", {"N": N, "M": M, "k": k, "chunks": c, "dtype": "i8"}
    for _ in range(ctx.n(90, 2000)):
        N, M = rng.randint(0, 12), rng.choice([None, rng.randint(0, 12)])
        yield "eye", {"N": N, "M": M, "k": rng.randint(-13, 13), "chunks": rng.choice([rng.randint(1, 14), "auto", "16B", "64B"]),
                      "dtype": rng.choice(["f8", "i8", "bool", "f4"])}


def _hx(x):
    return {"hex": float(x).hex()}


def _gen_arange_float(ctx):
    """float `arange` where binary64 rounding decides lengths: steps of about one ulp of the values (the inputs on which
    the plan before `fix: da.arange computes every element from its global index` built blocks of the wrong length),
    (stop-start)/step within a few ulps of an integer, the guard `isclose(start + step - start, step)` from both sides"""
    import math
    rng = ctx.rng
    yield "arange", {"start": _hx(2.0 ** 30 - 3 * 2.0 ** -23), "stop": _hx(2.0 ** 30 + 10 * 2.0 ** -23), "step": _hx(2.0 ** -23),
                     "chunks": 2, "dtype": None}
    yield "arange", {"start": _hx(2.0 ** 53 - 2), "stop": _hx(2.0 ** 53 + 10), "step": _hx(1.0), "chunks": 3, "dtype": None}
    for _ in range(ctx.n(90, 1500)):
        # step = a small multiple of the ulp just below / above a power of two; the range crosses the binade
        e = rng.randint(-8, 53)
        u = 2.0 ** (e - 52) / rng.choice([1, 2, 2])
        step = u * rng.choice([1, 1, 1, 2, 3, -1, -2, 1.5, 0.5])
        start = 2.0 ** e - rng.randint(0, 7) * abs(u) * rng.choice([1, 1, 1, -1])
        if rng.random() < 0.2:
            start = -start
        n = rng.randint(0, 24)
        stop = start + n * step
        yield "arange", {"start": _hx(start), "stop": _hx(stop), "step": _hx(step),
                         "chunks": rng.choice([1, 2, 2, 3, 4, 5, 7]), "dtype": None}
    steps = [0.1, 0.3, 0.7, 1 / 3, 0.01, 1e-3, 2.5, 1.1, 0.2, 1e-7, 3.3]
    for _ in range(ctx.n(110, 2000)):
        # (stop - start) / step within a few ulps of an integer
        step = rng.choice(steps) * rng.choice([1, 1, 1, -1]) * rng.choice([1, 1, 2.0 ** rng.randint(-20, 20)])
        start = rng.choice([0.0, 1.0, -1.0, 0.1, rng.uniform(-5, 5), rng.uniform(-1e3, 1e3), float(rng.randint(-9, 9))])
        n = rng.randint(0, 60)
        stop = start + n * step
        for _k in range(rng.randint(0, 3)):
            stop = math.nextafter(stop, rng.choice([math.inf, -math.inf]))
        yield "arange", {"start": _hx(start), "stop": _hx(stop), "step": _hx(step),
                         "chunks": rng.choice([1, 2, 3, 4, 5, 7, 11, 13, "auto"]), "dtype": rng.choice([None, None, None, "f8", "f4"])}
    for _ in range(ctx.n(80, 1200)):
        # |start| large against step: the guard isclose(start + step - start, step, rtol=1e-5) from both sides
        k = rng.randint(8, 62)
        start = rng.choice([1, -1]) * (2.0 ** k + rng.randint(-3, 3) * 2.0 ** max(k - 52, -30))
        ulp = math.ulp(start)
        step = ulp * rng.choice([0.3, 0.5, 1, 1.5, 2, 7, 1000.5, 5e4 + 0.5, 1e5 + 0.5, 1e6 + 0.5, 2 ** 20, 3 * 2 ** 17 + 1]) * rng.choice([1, 1, -1])
        n = rng.randint(0, 30)
        stop = start + n * step + rng.choice([0, 0, step / 2, -step / 3])
        yield "arange", {"start": _hx(start), "stop": _hx(stop), "step": _hx(step),
                         "chunks": rng.choice([1, 2, 3, 5, 7, "auto"]), "dtype": None}
    for _ in range(ctx.n(30, 400)):
        # (stop - start) / step underflows to zero although stop != start (NumPy: one element if the quotient is +0.0),
        # infinite steps, the sign of a zero start
        tiny = 5e-324
        a = rng.choice([0.0, 0.0, -0.0, tiny * rng.randint(-5, 5), 1.0, rng.uniform(-1, 1)])
        b = a + tiny * rng.randint(-6, 6) if rng.random() < 0.7 else a + rng.uniform(-3, 3)
        st = rng.choice([1, -1]) * rng.choice([1.0, 1310720.0, 1e300, math.inf, 0.5, tiny * 3, 1e-310])
        if abs((b - a) / st) > 500:
            continue
        yield "arange", {"start": _hx(a), "stop": _hx(b), "step": _hx(st), "chunks": rng.choice([1, 2, "auto"]),
                         "dtype": rng.choice([None, None, "f4"])}
    for _ in range(ctx.n(12, 150)):
        # float arguments with an integer dtype (documented NumPy quirk; pinned strict xfail in dask's suite)
        d = rng.choice([10, 4, 3])
        yield "arange", {"start": [rng.randint(-30, 30), d], "stop": [rng.randint(-30, 60), d], "step": [rng.choice([1, 2, 3, 7, -3, -7]), d],
                         "chunks": rng.choice([1, 2, 3, 5]), "dtype": rng.choice(["i8", "i4"])}


def _rand_double(rng, emin=-1074, emax=900):
    """a random finite double: random 53-bit significand patterns (dense, sparse, all-ones) times a power of two"""
    r = rng.random()
    if r < 0.5:
        m = rng.getrandbits(53) | (1 << 52)
    elif r < 0.65:
        m = (1 << 53) - 1 - rng.getrandbits(3)
    elif r < 0.8:
        m = (1 << 52) + rng.getrandbits(3)
    elif r < 0.9:
        m = rng.getrandbits(rng.randint(1, 27)) or 1
    else:
        m = rng.getrandbits(rng.randint(1, 52)) or 1          # fewer bits: subnormal-like patterns
    e = rng.randint(emin, emax)
    import math
    return math.ldexp(m, e) * rng.choice([1, 1, -1])


def _gen_softfloat(ctx):
    """operands for the binary64 model itself: random significands over the whole exponent range, exact ties
    (half an ulp), results in the subnormal range, exact and inexact quotients, integers around 2**53"""
    import math
    rng = ctx.rng
    yield "softfloat", {"op": "const"}
    for _ in range(ctx.n(360, 9000)):
        op = rng.choice(["add", "add", "sub", "sub", "mul", "mul", "div", "div", "div", "ceil", "le", "isclose", "ofint"])
        if op == "ofint":
            k = rng.choice([52, 53, 54, 60, 63, 64, 100])
            n = rng.choice([1, -1]) * ((1 << k) + rng.randint(-5, 5) + rng.choice([0, 1 << (k - 53) if k > 53 else 0, 3 << max(k - 54, 0)]))
            yield "softfloat", {"op": op, "x": n}
            continue
        r = rng.random()
        if op in ("add", "sub"):
            x = _rand_double(rng, -1074, 60)
            if r < 0.35:
                # y = half an ulp of x (a tie) or next to it
                y = math.ulp(x) / 2 * rng.choice([1, -1])
                if y != 0 and rng.random() < 0.5:
                    y = math.nextafter(y, rng.choice([0.0, math.copysign(math.inf, y)]))
            elif r < 0.6:
                y = x * rng.choice([-1, 1]) + math.ulp(x) * rng.randint(-3, 3)      # cancellation
            elif r < 0.8:
                y = _rand_double(rng, -1074, -1000) if abs(x) < 1e-290 else math.ldexp(_rand_double(rng, 0, 0), rng.randint(-56, 3)) * x / (2.0 ** 52)
            else:
                y = _rand_double(rng, -1074, 60)
        elif op == "mul":
            x = _rand_double(rng, -600, 400)
            if r < 0.3:
                x = _rand_double(rng, -500, -52)
                t = rng.randint(-1078, -1015) - 52 - math.frexp(x)[1]
                y = _rand_double(rng, t, t)                                                    # product in the subnormal range
            elif r < 0.5:
                x = float(rng.getrandbits(27) + 1) * 2.0 ** rng.randint(-40, 40)
                y = float(rng.getrandbits(26) + 1) * 2.0 ** rng.randint(-40, 40)                   # exact
            else:
                y = _rand_double(rng, -400, 400)
        elif op == "div":
            y = _rand_double(rng, -400, 400)
            if r < 0.1:
                y = 0.0
                x = _rand_double(rng, -10, 10)
            elif r < 0.35:
                x = y * float(rng.randint(-1000, 1000))                                      # exact integer quotient
                if math.isinf(x):
                    x = 1.0
            elif r < 0.55:
                x = float(rng.randint(-(1 << 53), 1 << 53))
                y = float(rng.randint(1, 1 << rng.randint(1, 53)))
            elif r < 0.7:
                x = _rand_double(rng, -1074, -1020) * 1.0
                y = _rand_double(rng, 0, 40)                                                  # subnormal quotient
            else:
                x = _rand_double(rng, -400, 400)
        elif op == "ceil":
            k = rng.randint(-3, 60)
            x = rng.choice([1, -1]) * (float(rng.randint(0, 1 << max(k, 1))) + rng.choice([0.0, 0.5, 2.0 ** -20, -2.0 ** -20, 1 - 2.0 ** -30]))
            if r < 0.15:
                x = _rand_double(rng, -1074, 70)
            y = 0.0
        elif op == "le":
            x = _rand_double(rng, -1074, 100)
            y = rng.choice([x, -x, math.nextafter(x, math.inf), math.nextafter(x, -math.inf), _rand_double(rng, -1074, 100), 0.0])
        else:   # isclose: y*(1 ± 1e-5) to within a few ulps, equal values, far values
            y = _rand_double(rng, -900, 900)
            x = y * (1 + rng.choice([1e-5, -1e-5, 1e-5 * (1 + 2.0 ** -30), 1e-5 * (1 - 2.0 ** -30), 0, 1e-3, 2e-5, 1e-6]))
            for _k in range(rng.randint(0, 2)):
                x = math.nextafter(x, rng.choice([math.inf, -math.inf]))
            if r < 0.1:
                y = 0.0
        if not (math.isfinite(x) and math.isfinite(y)):
            continue
        yield "softfloat", {"op": op, "x": _hx(x), "y": _hx(y)}


_DENS = [10, 3, 7, 100, 1000, 9, 6, 64]


def _gen_arange_int(ctx):
    rng = ctx.rng
    # --- arange: integers (function level) -------------------------------------------------------
    for _ in range(ctx.n(300, 6000)):
        a, b = rng.randint(-20, 20), rng.randint(-20, 30)
        s = rng.choice([1, 1, 2, 3, 5, 7, -1, -2, -3, -7, 0]) if rng.random() < 0.9 else rng.randint(-40, 40)
        n = max(0, -((a - b) // s)) if s else 0
        yield "arange", {"start": a, "stop": b, "step": s, "chunks": _spec_py(_chunk_spec(rng, n)),
                         "dtype": rng.choice([None, None, "i8", "f8", "i4"])}
    if ctx.thorough():
        # every (start, stop, step) in a small box with every chunking of the result (num <= 5); halves as floats too
        for a in range(-3, 4):
            for b in range(-3, 5):
                for st in (1, 2, 3, -1, -2, -3):
                    n = max(0, -((a - b) // st))
                    if n > 5:
                        continue
                    for c in comps(n):
                        yield "arange", {"start": a, "stop": b, "step": st, "chunks": [list(c)], "dtype": None}
                        yield "arange", {"start": [a, 2], "stop": [b, 2], "step": [st, 2], "chunks": [list(c)], "dtype": None}
        for num in range(0, 6):
            for c in comps(num):
                for ep in (True, False):
                    for a, b in ((0, 1), (-3, 4), (5, -5), (2, 2), ([1, 3], [7, 3])):
                        yield "linspace", {"start": a, "stop": b, "num": num, "endpoint": ep, "chunks": [list(c)], "dtype": None}


def _gen_arange_frac(ctx):
    rng = ctx.rng
    # --- arange: fractional steps aimed at length-rounding edges -------------------------------------
    for _ in range(ctx.n(240, 5000)):
        d = rng.choice(_DENS)
        sgn = rng.choice([1, 1, 1, -1])
        sn = rng.randint(1, 9) * sgn
        a = rng.randint(-3 * d, 3 * d)
        cnt = rng.randint(0, 40)
        # stop exactly on / one ulp-ish off a grid point: (stop-start)/step is (nearly) an integer
        b = a + sn * cnt + rng.choice([0, 0, 0, sgn, -sgn])
        if rng.random() < 0.3:  # integer start
            a0 = rng.randint(-3, 3)
            a, b = a0 * d, a0 * d + (b - a)
        # an integral start stays a Python int in ~1/3 of the cases (mixed int/float arithmetic: API level only),
        # otherwise it is the float (all-float inputs are also diffed against the binary64 model)
        st = [a, d] if a % d else (a // d if rng.random() < 0.35 else {"hex": float(a // d).hex()})
        yield "arange", {"start": st, "stop": [b, d], "step": [sn, d],
                         "chunks": rng.choice([1, 2, 3, 4, 5, 7, 11, "auto"]), "dtype": rng.choice([None, None, "f8", "f4"])}
    yield from _gen_arange_float(ctx)


def _gen_linspace(ctx):
    rng = ctx.rng
    # --- linspace ------------------------------------------------------------------------------------
    for _ in range(ctx.n(240, 4000)):
        num = rng.choice([0, 1, 2, 3, 5, 8, 13, 50]) if rng.random() < 0.7 else rng.randint(0, 60)
        if rng.random() < 0.5:
            a, b = rng.randint(-50, 50), rng.randint(-50, 50)
        else:
            d = rng.choice(_DENS)
            a, b = [rng.randint(-50, 50), d], [rng.randint(-50, 50), d]
        yield "linspace", {"start": a, "stop": b, "num": num, "endpoint": rng.random() < 0.6,
                           "chunks": _spec_py(_chunk_spec(rng, num)), "dtype": rng.choice([None, None, "f4", "i8"])}
    for _ in range(ctx.n(40, 600)):
        # denormal ranges ((stop-start)/div underflows to 0.0: NumPy divides before multiplying) and integer endpoints
        # beyond 2**53 (NumPy subtracts them as floats)
        num = rng.choice([0, 1, 2, 3, 4, 5, 7, 9, 13])
        if rng.random() < 0.3:
            # endpoints for which start + (num-1)*step does not round to stop: only the pinned last element gives stop
            num = rng.choice([2, 2, 3, 5, 6, 7])
            for _t in range(50):
                fa = rng.choice([rng.uniform(-1, 1), rng.randint(-99, 99) / 1000, rng.uniform(-1e3, 1e3)])
                fb = rng.choice([rng.uniform(-1, 1) * 10 ** rng.randint(-3, 3), rng.randint(-99, 99) / 7])
                if fa + (num - 1) * ((fb - fa) / (num - 1)) != fb:
                    break
            yield "linspace", {"start": _hx(fa), "stop": _hx(fb), "num": num, "endpoint": True,
                               "chunks": rng.choice([1, 2, 3, "auto"]), "dtype": None}
            continue
        if rng.random() < 0.5:
            tiny = 5e-324
            a = rng.choice([0.0, tiny * rng.randint(-5, 5), 1.0, -2.5, rng.uniform(-1, 1)])
            a, b = _hx(a), _hx(a + tiny * rng.randint(-40, 40))
        else:
            k = rng.randint(50, 62)
            a = rng.choice([1, -1]) * (2 ** k + rng.randint(-9, 9))
            b = a + rng.randint(-40, 40) * rng.choice([1, 1, 2 ** max(k - 52, 0)])
        yield "linspace", {"start": a, "stop": b, "num": num, "endpoint": rng.random() < 0.6,
                           "chunks": rng.choice([1, 2, 3, 5, "auto"]), "dtype": rng.choice([None, None, "f4", "i8"])}


def _gen_diag(ctx):
    rng = ctx.rng
    # --- diag / diagonal ---------------------------------------------------------------------------------
    for _ in range(ctx.n(200, 2500)):
        r = rng.random()
        if r < 0.35:
            n = rng.randint(1, 9)
            yield "diag", {"chunks": [rand_comp(rng, n)], "k": rng.choice([0, 0, 0, 1, -1, 2, -3]), "dask": rng.random() < 0.9}
        elif r < 0.7:
            n, m = rng.randint(1, 7), rng.randint(1, 7)
            c0 = rand_comp(rng, n)
            c1 = c0 if (n == m and rng.random() < 0.5) else rand_comp(rng, m)
            if sum(c1) != m:
                m = sum(c1)
            yield "diag", {"chunks": [c0, c1], "k": rng.randint(-7, 7), "dask": rng.random() < 0.9}
        else:
            nd = rng.choice([2, 3, 3, 4])
            shape = [rng.randint(1, 5) for _ in range(nd)]
            ax = rng.sample(range(nd), 2)
            if rng.random() < 0.3:
                ax = [a - nd for a in ax]
            yield "diag", {"op": "diagonal", "chunks": [rand_comp(rng, s) for s in shape], "k": rng.randint(-5, 5), "axes": ax}
    # --- 2-d diagonal: the block walk vs the Lean plan -----------------------------------------------------------
    for _ in range(ctx.n(60, 1000)):
        n, m = rng.randint(1, 9), rng.randint(1, 9)
        yield "diag", {"op": "diagonal", "chunks": [rand_comp(rng, n), rand_comp(rng, m)], "k": rng.randint(-n - 1, m + 1),
                       "axes": rng.choice([[0, 1], [1, 0], [-2, -1]])}
    # every chunking of an n x m array, every offset, both axis orders (n, m <= 4 in thorough; a 1/5 sample of n, m <= 3 in quick)
    top = 4 if ctx.thorough() else 3
    for n in range(1, top + 1):
        for m in range(1, top + 1):
            for c0 in comps(n):
                for c1 in comps(m):
                    for k in range(-n - 1, m + 2):
                        for axes in ([0, 1], [1, 0]):
                            if ctx.thorough() or rng.random() < 0.2:
                                yield "diag", {"op": "diagonal", "chunks": [list(c0), list(c1)], "k": k, "axes": axes}
    # --- n-d diagonal: free axes with several blocks, non-adjacent / negative / swapped axes -----------------------
    for _ in range(ctx.n(90, 1500)):
        nd = rng.choice([3, 3, 3, 4, 4, 5])
        shape = [rng.randint(1, 4) for _ in range(nd)]
        ax = rng.sample(range(nd), 2)
        for a in ax:   # the two diagonal axes are a bit longer
            shape[a] = rng.randint(1, 6)
        ax = [a - nd if rng.random() < 0.3 else a for a in ax]
        ch = [rand_comp(rng, s_) for s_ in shape]
        kk = rng.randint(-(shape[ax[0]] - 1), shape[ax[1]] - 1) if rng.random() < 0.85 else rng.randint(-shape[ax[0]] - 1, shape[ax[1]] + 1)
        yield "diag", {"op": "diagonal", "chunks": ch, "k": kk, "axes": ax}
    for _ in range(ctx.n(16, 160)):
        # 2-d -> 1-d diag: equal row/column chunks (fast path for k = 0), or a square array whose row and column chunkings
        # differ although they have the same number of blocks (must not take the fast path)
        c0 = rand_comp(rng, rng.randint(2, 8), style=rng.choice(["irregular", "ragged", "uniform"]))
        c1 = c0
        if rng.random() < 0.5:
            c1 = list(reversed(c0)) if list(reversed(c0)) != c0 else c0[1:] + c0[:1]
        yield "diag", {"chunks": [c0, c1], "k": rng.choice([0, 0, 0, 1, -1]), "dask": True}
    for _ in range(ctx.n(8, 60)):
        nd = rng.choice([2, 3])
        shape = [rng.randint(1, 3) for _ in range(nd)]
        bad = rng.choice([[0, 0], [1, -nd + 1], [0, -nd - 1], [-nd - 2, 1], [0, nd], [nd + 1, 0]])
        yield "diag", {"op": "diagonal", "chunks": [rand_comp(rng, s_) for s_ in shape], "k": rng.randint(-1, 1), "axes": bad}


def _gen_grid(ctx):
    rng = ctx.rng
    # --- index grids: meshgrid / indices / fromfunction, per-block diff against the model --------------------------
    for _ in range(ctx.n(70, 900)):
        op = rng.choice(["meshgrid", "meshgrid", "indices", "fromfunction"])
        if op == "meshgrid":
            lens = [rng.randint(1, 5) for _ in range(rng.choice([1, 2, 2, 3, 3, 4]))]
            yield "misc", {"op": op, "lens": lens, "xchunks": [[rand_comp(rng, n)] for n in lens],
                           "indexing": rng.choice(["xy", "ij"]), "sparse": rng.random() < 0.5, "mix": rng.random() < 0.15}
        elif op == "indices":
            dims = [rng.randint(1, 5) for _ in range(rng.randint(1, 3))]
            if rng.random() < 0.4:      # equal dimensions, different chunkings per axis (an axis mix-up keeps the shape)
                dims = [rng.randint(2, 5)] * len(dims)
            yield "misc", {"op": op, "dims": dims, "dtype": rng.choice(["i8", "f8", "i4"]),
                           "chunks": [rand_comp(rng, d) for d in dims] if rng.random() < 0.7 else [rng.randint(1, d) for d in dims]}
        else:
            shape = [rng.randint(1, 5) for _ in range(rng.randint(1, 3))]
            if rng.random() < 0.4:
                shape = [rng.randint(2, 5)] * len(shape)
            yield "misc", {"op": op, "shape": shape, "dtype": rng.choice(["f8", "i8"]),
                           "chunks": [rand_comp(rng, d) for d in shape] if rng.random() < 0.7 else _shape_chunks(rng, shape)}
    if ctx.thorough():
        # every chunking of two inputs of length <= 3, both indexings, sparse and dense; every chunking of a 2-d index grid
        for n0 in range(1, 4):
            for n1 in range(1, 4):
                for c0 in comps(n0):
                    for c1 in comps(n1):
                        for ix in ("xy", "ij"):
                            for sp in (False, True):
                                yield "misc", {"op": "meshgrid", "lens": [n0, n1], "xchunks": [[list(c0)], [list(c1)]],
                                               "indexing": ix, "sparse": sp, "mix": False}
                        yield "misc", {"op": "indices", "dims": [n0, n1], "dtype": "i8", "chunks": [list(c0), list(c1)]}
                        yield "misc", {"op": "fromfunction", "shape": [n0, n1], "dtype": "i8", "chunks": [list(c0), list(c1)]}


def _gen_misc(ctx):
    rng = ctx.rng
    # --- the rest: API level --------------------------------------------------------------------------------
    for _ in range(ctx.n(220, 3000)):
        op = rng.choice(["tri", "indices", "meshgrid", "fromfunction", "ones", "zeros", "full", "empty",
                         "ones_like", "zeros_like", "full_like", "empty_like"])
        if op == "tri":
            N, M = rng.randint(0, 8), rng.choice([None, rng.randint(0, 8)])
            Mv = N if M is None else M
            yield "misc", {"op": op, "N": N, "M": M, "k": rng.randint(-8, 8), "dtype": rng.choice(["f8", "bool", "i4"]),
                           "chunks": rng.choice([rng.randint(1, 5), "auto", [rng.randint(1, 4), rng.randint(1, 4)],
                                                 [rand_comp(rng, N), rand_comp(rng, Mv)]])}
        elif op == "indices":
            dims = [rng.randint(0 if rng.random() < 0.1 else 1, 5) for _ in range(rng.randint(1, 3))]
            yield "misc", {"op": op, "dims": dims, "dtype": rng.choice(["i8", "f8", "i4"]),
                           "chunks": [rng.randint(1, max(1, d)) for d in dims] if rng.random() < 0.8 else "auto"}
        elif op == "meshgrid":
            lens = [rng.randint(1, 5) for _ in range(rng.randint(1, 3))]
            yield "misc", {"op": op, "lens": lens, "xchunks": [[rand_comp(rng, n)] for n in lens],
                           "indexing": rng.choice(["xy", "ij"]), "sparse": rng.random() < 0.4, "mix": rng.random() < 0.2}
        elif op == "fromfunction":
            shape = [rng.randint(1, 5) for _ in range(rng.randint(1, 3))]
            yield "misc", {"op": op, "shape": shape, "dtype": rng.choice(["f8", "i8"]), "chunks": _shape_chunks(rng, shape)}
        elif op in ("ones", "zeros", "full", "empty"):
            shape = [rng.randint(0 if rng.random() < 0.15 else 1, 6) for _ in range(rng.randint(0, 3))]
            inp = {"op": op, "shape": shape, "dtype": rng.choice([None, "f8", "i4", "bool", "c16"]), "chunks": _shape_chunks(rng, shape)}
            if op == "full":
                inp["fill"] = rng.choice([7, 2.5, True, -1])
            yield "misc", inp
        else:
            shape = [rng.randint(1, 6) for _ in range(rng.randint(1, 3))]
            inp = {"op": op, "achunks": [rand_comp(rng, s) for s in shape], "adtype": rng.choice(["i8", "f8"]),
                   "dtype": rng.choice([None, None, "f4", "i2"])}
            if rng.random() < 0.3:
                ns = [rng.randint(1, 5) for _ in range(rng.randint(1, 3))]
                inp["shape"] = ns
                if rng.random() < 0.5:
                    inp["chunks"] = _shape_chunks(rng, ns)
            elif rng.random() < 0.3:
                inp["chunks"] = _shape_chunks(rng, shape)
            if op == "full_like":
                inp["fill"] = rng.choice([3, 1.5, -2])
            yield "misc", inp


def _like_chunk_arg(rng, shape):
    """a chunks= argument for a *_like call on `shape` (JSON form)"""
    r = rng.random()
    if r < 0.3:
        return [rand_comp_zeros(rng, s) if rng.random() < 0.3 else rand_comp(rng, s) for s in shape]
    if r < 0.45:
        return [rng.choice([rng.randint(1, s + 1), -1, None, "auto", rand_comp(rng, s)]) for s in shape]
    if r < 0.6:
        return rng.randint(1, 4)
    if r < 0.7:
        return {"d": [[i, rng.choice([rng.randint(1, s + 1), -1, "auto", rand_comp(rng, s)])]
                      for i, s in enumerate(shape) if rng.random() < 0.6]}
    if r < 0.8:
        return "auto"
    if r < 0.9:
        return rng.choice(["32B", "128B"])
    # malformed: wrong number of axes / tuples that do not add up / a negative size
    return rng.choice([[rand_comp(rng, s + 1) for s in shape], [1] * (len(shape) + 1) if len(shape) != 0 else [1],
                       [rng.randint(1, 3)] * max(0, len(shape) - 1) or -2, -3])


def _gen_like(ctx):
    rng = ctx.rng
    ops = ["ones_like", "zeros_like", "full_like", "empty_like"]
    yield "like", {"op": "ones_like", "achunks": []}
    yield "like", {"op": "full_like", "achunks": [[2, 0, 3], [0]], "fill": 3}
    yield "like", {"op": "zeros_like", "achunks": [[2, 3], [4]], "shape": [7, 2]}
    yield "like", {"op": "full_like", "achunks": [[2, 3], [4]], "shape": 7, "fill": 1.5, "chunks": 3}
    for _ in range(ctx.n(110, 1500)):
        op = rng.choice(ops)
        nd = rng.choice([0, 1, 1, 2, 2, 3])
        shape = [rng.randint(0 if rng.random() < 0.15 else 1, 6) for _ in range(nd)]
        inp = {"op": op, "achunks": [rand_comp_zeros(rng, s) if rng.random() < 0.25 else rand_comp(rng, s) for s in shape],
               "adtype": rng.choice(["i8", "f8", "i2"]), "dtype": rng.choice([None, None, "f4", "i2"]),
               "from_array": rng.random() < 0.5}
        r = rng.random()
        if r < 0.4:
            pass                                                       # the defaults: the template's chunks
        elif r < 0.6:
            inp["chunks"] = _like_chunk_arg(rng, shape)
        else:
            ns = [rng.randint(0 if rng.random() < 0.1 else 1, 6) for _ in range(rng.choice([nd, rng.randint(0, 3)]))]
            inp["shape"] = ns[0] if len(ns) == 1 and rng.random() < 0.3 else ns
            if r < 0.8:
                inp["chunks"] = _like_chunk_arg(rng, ns)
        if op == "full_like":
            inp["fill"] = rng.choice([3, 1.5, -2])
        yield "like", inp


def generate(ctx):
    gens = [_gen_eye, _gen_arange_int, _gen_arange_frac, _gen_softfloat, _gen_linspace, _gen_diag, _gen_grid, _gen_misc, _gen_like]
    if not ctx.thorough():
        for g in gens:
            yield from g(ctx)
        return
    # thorough: round-robin in slices of 60 cases, so that a deadline cuts every stream at the same relative depth
    its = [iter(g(ctx)) for g in gens]
    while its:
        for it in list(its):
            for _ in range(60):
                try:
                    yield next(it)
                except StopIteration:
                    its.remove(it)
                    break
