"""C46 — window, cumulative and shift operations are seamless across partitions.

Model:    lean/DaskModel/Model/Cumulative.lean (TakeLast, cum*_aggregate, CumulativeFinalize — Series path and one
          column of the DataFrame path), lean/DaskModel/Model/Overlap.lean (CreateOverlappingPartitions,
          _combined_parts, overlap_chunk for integer before/after, the before/after rules of Shift/Diff/FFill/BFill/
          RollingReduction, FillnaCheck for unlimited fills, the windowed row functions), Model/OverlapTime.lean (timedelta
          `before`), Model/OverlapTime2.lean (timedelta `after`: centered / forward-looking time windows; section toverlap2
          in props/_c46x_center.py).
Theorems: lean/DaskModel/Props/C46.lean (cum_eq_pandas, cum_partition_lengths, overlap_local_eq_global,
          mapOverlap_isSome_iff, cum_df_refuted / cum_df_partial).
Tie:      function level: TakeLast.operation, methods.cum*_aggregate, _combined_parts, the lowered
          expressions' before/after; partition level: every partition of the computed collection vs the model;
          API level vs pandas (Series, DataFrames, rolling hows, time-based windows, map_overlap).
"""
from __future__ import annotations

import itertools

from sexp import Sym

from props import _dfrows_util as U
from props import _c46x_center as XC

U.warm()

PROP = "C46"
READY = True
DRIVER = "dm_dfrows"
LEAN_MODULES = ["DaskModel.Props.C46", "DaskModel.Props.C46Time", "DaskModel.Props.C46xCenter"]
CASE_TIMEOUT_S = 60
LEVEL_TEXT = (
    "Proved in Lean for all inputs: (1) cum_eq_pandas — the lowered Series cumsum/cumprod/cummax/cummin "
    "(CumulativeBlockwise + TakeLast + CumulativeFinalize with the cum*_aggregate None/NaN rules, as repaired by the "
    "fix commits) equals pandas on the concatenation for EVERY partitioning incl. empty and all-NA partitions, "
    "both skipna settings, any associative-commutative operation; partition lengths preserved. "
    "(2) overlap_local_eq_global + mapOverlap_isSome_iff — MapOverlap with integer before/after "
    "(CreateOverlappingPartitions/_combined_parts/overlap_chunk) applied to any (b,a)-local row function "
    "(shift, diff, ffill/bfill(limit), rolling with min_periods/center) equals that function of the whole frame on every "
    "partitioning, and raises exactly when a partition is smaller than the overlap it must lend; overlap_reverse_symmetric "
    "(the construction commutes with reversing the frame, before/after swapped). "
    "(3) ffill_unlimited / bfill_unlimited — FillnaCheck + FFill(before=1) / BFill(after=1) equal pandas ffill()/bfill() "
    "whenever the code does not raise. "
    "(4) time_window_local_eq_global — the TIMEDELTA branch (fast path, slow path over several partitions, _tail_timedelta, "
    "_combined_parts, overlap_chunk with before=prev_part_length) computes every (t-W, t]-local row function "
    "(rolling('Ws'), map_overlap(before=Timedelta)) as on the whole frame for every partitioning with truthful divisions "
    "(empty / narrower-than-window partitions included) and never raises. "
    "(5) time_window_centered_local_eq_global / time_after_local_eq_global (time_overlap2_local_eq_global) — a TIMEDELTA `after` "
    "(append tasks over the immediate neighbour with 2*after, _head_timedelta_nonempty, the validation of _combined_parts, "
    "overlap_chunk with after=next_part_length), alone or with a timedelta `before`: rolling('Ws', center=True) and "
    "map_overlap(before=Timedelta, after=Timedelta) compute every row function local within (t-b, t+a), b <= before, a <= after, as on "
    "the whole frame for every partitioning with truthful divisions WHENEVER NO TASK RAISES the documented NotImplementedError "
    "(the code refuses a neighbour it cannot validate); mapOverlapTime2_isSome_iff — it raises EXACTLY when afterOK fails (a non-empty "
    "partition whose neighbour is an empty non-last partition, or has rows before max+2A but none in [max+A, max+2A)), "
    "time_window_centered_accepted is the total form; the real raising set is diffed against afterOK on every case. "
    "Refuted variants: empty_neighbour_unchecked_refuted (the code before fix 52c39fa: an empty neighbour passed the validation and "
    "the rows after it were silently left out), narrow_neighbour_unvalidated_refuted (validation dropped). "
    "Partial: the DataFrame (2-d) cumulative path is modelled per column and REFUTED (cum_df_refuted; known findings), "
    "cum_df_partial holds on its complement; "
    "shift(periods, freq=...) lowers to the INTEGER overlap of (2) and is compared with pandas at API level; "
    "pandas' own kernels are specification functions validated against pandas.")
LEVEL_NOTE = ("Trusted: Lean kernel; the harness' encoding of frames as integer cells (NaN = none); pandas as reference for the "
              "per-partition kernels (cumsum…, shift, ffill, rolling) — every Lean specification function is diffed against "
              "pandas on each run; pyarrow import stub.")
TECHNIQUE = "Lean 4 proof (block-scan / context-window induction over an arbitrary partition list) + differential correspondence at function, partition and API level"
ASSUMPTIONS = [
    "pandas Series.cumsum/cumprod/cummax/cummin(skipna) on one partition = cumSkip/cumNo (validated: cumspec vs pandas)",
    "pandas shift/diff/ffill(limit)/bfill(limit)/rolling(w,min_periods,center).sum/count/max on one block = winFn of the g-instances (validated: winspec vs pandas)",
    "pandas rolling('Ws', min_periods).sum/count = twinFn of gTRollSum/gTRollCount (validated: tspec vs pandas); divisions of the collection are truthful (dask's invariant for known divisions)",
    "pandas rolling('Ws', center=True, min_periods).sum/count and the forward window [t, t+a) (rolling of the time-reversed block) = twinFn2 of gCRollSum/gCRollCount with b = ceil(W/2), a = floor(W/2)+1 in integer seconds (validated: tspec2 vs pandas)",
    "values are integers embedded in float64/int64, times integer seconds; float round-off is outside the theorems",
]
TRUSTED = ["dd.from_map over explicit pandas pieces with known divisions builds the partitioning handed to the real code"]

OPS = {"sum": "cumsum", "prod": "cumprod", "max": "cummax", "min": "cummin"}
MSG_SMALL = "Partition size is less than overlapping"
MSG_ALLNAN = "All NaN partition encountered"


def _py(x):
    """python value flowing through the cumulative graph -> model encoding"""
    import pandas as pd
    if x is None:
        return U.PYNONE
    if isinstance(x, (pd.Series, pd.DataFrame)):
        return ["series", U.series_cells(x)] if isinstance(x, pd.Series) else ["frame"]
    c = U.cell_of(x)
    return U.NONE if c is None else c


def _enc_py(v):
    return U.PYNONE if v == "pynone" else (U.NONE if v is None else v)


def _dec(x):
    """decoded driver answer -> comparable JSON (Sym none -> None is done by sexp.dec already)"""
    return x


# ------------------------------------------------------------------------------------------------
# function level
# ------------------------------------------------------------------------------------------------

def case_takelast(ctx, inp):
    U.dd()
    from dask.dataframe.dask_expr._cumulative import TakeLast
    cells, skipna = inp["cells"], inp["skipna"]
    s = U.mk_series(cells, inp.get("dtype", "float64"))
    got = TakeLast.operation(s, skipna)
    impl = _py(got)
    model = ctx.lean(Sym("takelast"), skipna, U.cells_to_sexp(cells))
    model = U.PYNONE if model == "pynone" else (U.NONE if model[1] is None else model[1])
    ctx.eq("TakeLast.operation", model, impl)
    if not cells:
        ctx.branch("takelast-empty")
    elif all(c is None for c in cells):
        ctx.branch("takelast-allna")
    elif cells[-1] is None:
        ctx.branch("takelast-trailing-nan")


def case_agg(ctx, inp):
    import numpy as np
    U.dd()
    from dask.dataframe import methods
    fn = getattr(methods, OPS[inp["op"]] + "_aggregate")

    def real(v):
        return None if v == "pynone" else (np.float64("nan") if v is None else np.float64(v))
    if "xs" in inp:
        x = U.mk_series(inp["xs"])
        try:
            got = fn(x, real(inp["y"]))
            impl = U.series_cells(got)
        except Exception as e:
            impl = ["raised", U.exc_sig(e)]
        model = ctx.lean(Sym("aggvs"), Sym(inp["op"]), U.cells_to_sexp(inp["xs"]), _enc_py(inp["y"]))
        ctx.eq("cum_aggregate(Series, scalar)", model, impl)
        ctx.branch("aggvs-none" if inp["y"] == "pynone" else ("aggvs-nan" if inp["y"] is None else "aggvs-scalar"))
    else:
        try:
            impl = _py(fn(real(inp["x"]), real(inp["y"])))
        except Exception as e:
            impl = ["raised", U.exc_sig(e)]
        model = ctx.lean(Sym("aggss"), Sym(inp["op"]), _enc_py(inp["x"]), _enc_py(inp["y"]))
        model = U.PYNONE if model == "pynone" else (U.NONE if model is None else model)
        ctx.eq("cum_aggregate(scalar, scalar)", model, impl)
        kinds = tuple("none" if v == "pynone" else ("nan" if v is None else "val") for v in (inp["x"], inp["y"]))
        if kinds != ("val", "val"):
            ctx.branch("aggss-%s-%s" % kinds)


def case_combined(ctx, inp):
    U.dd()
    from dask.dataframe.dask_expr._expr import _combined_parts
    b, a = inp["b"], inp["a"]

    def ser(cells, off):
        return None if cells is None else U.mk_series(cells, index=range(off, off + len(cells)))
    prev, cur, nxt = inp["prev"], inp["cur"], inp["next"]
    try:
        comb, pl, nl = _combined_parts(ser(prev, 0), ser(cur, 100), ser(nxt, 200), b, a)
        impl = [Sym("ok"), U.series_cells(comb), pl, nl]
    except NotImplementedError as e:
        impl = [Sym("raised")]
        if MSG_SMALL not in str(e):
            ctx.fail("_combined_parts raised an undocumented NotImplementedError", observed=str(e))

    def enc(c):
        return U.PYNONE if c is None else U.cells_to_sexp(c)
    model = ctx.lean(Sym("combined"), b, a, enc(prev), U.cells_to_sexp(cur), enc(nxt))
    ctx.eq("_combined_parts", model, impl)
    if impl[0] == "raised":
        ctx.branch("combined-raised")
    elif prev is not None and nxt is not None:
        ctx.branch("combined-both")
    elif prev is not None or nxt is not None:
        ctx.branch("combined-one-side")


# ------------------------------------------------------------------------------------------------
# cumulative, partition level + oracle
# ------------------------------------------------------------------------------------------------

def _cum_branches(ctx, parts, skipna):
    if any(len(p) == 0 for p in parts):
        ctx.branch("cum-empty-partition")
        if len(parts) > 1 and len(parts[0]) == 0:
            ctx.branch("cum-leading-empty")
    if any(p and all(c is None for c in p) for p in parts[:-1]):
        ctx.branch("cum-allna-partition")
    if not skipna and any(None in p for p in parts[:-1]):
        ctx.branch("cum-noskip-nan-before-boundary")
    if len(parts) >= 3:
        ctx.branch("cum-3plus-partitions")


def case_cum(ctx, inp):
    cells, lens, op, skipna = inp["cells"], inp["lens"], inp["op"], inp["skipna"]
    dtype = inp.get("dtype", "float64")
    s = U.mk_series(cells, dtype)
    parts = U.split(cells, lens)
    expected = getattr(s, OPS[op])(skipna=skipna)
    exp_cells = U.series_cells(expected)
    spec = ctx.lean(Sym("cumspec"), Sym(op), skipna, U.cells_to_sexp(cells))
    ctx.eq("pandas cum kernel vs Lean spec", spec, exp_cells)
    model = ctx.lean(Sym("cum"), Sym(op), skipna, U.parts_to_sexp(parts))
    d = U.from_parts(s, lens, known=inp.get("known", True))
    try:
        r = getattr(d, OPS[op])(skipna=skipna)
        got = U.compute_parts(r)
    except Exception as e:
        ctx.fail(f"Series.{OPS[op]}(skipna={skipna}) raised {type(e).__name__} on a partitioned series",
                 observed=f"{type(e).__name__}: {e}"[:300], expected=exp_cells)
        ctx.disagree("cum partitions (dask raised)", model, f"{type(e).__name__}")
        return
    got_parts = [U.series_cells(p) for p in got]
    ctx.eq("cum partitions", model, got_parts)
    flat = [c for p in got_parts for c in p]
    idx = [i for p in got for i in p.index.tolist()]
    if flat != exp_cells or idx != list(s.index):
        ctx.fail(f"Series.{OPS[op]}(skipna={skipna}) differs from pandas", observed=got_parts, expected=exp_cells)
    _cum_branches(ctx, parts, skipna)


def _cumdf_class(cols, lens, op, skipna):
    """input class of the known DataFrame-path findings (None = no known class applies)"""
    b = U.bounds_of(lens)
    if len(cols) == 1 and len(lens) > 1:
        if op in ("max", "min"):
            return "single-column-minmax"
    if skipna and len(lens) > 1:
        for cells in cols.values():
            for i in range(len(lens) - 1):
                p = cells[b[i]:b[i + 1]]
                if p and all(c is None for c in p):
                    return "allna-column-partition-skipna"
    return None


def case_cumdf(ctx, inp):
    import pandas as pd
    cols, lens, op, skipna = inp["cols"], inp["lens"], inp["op"], inp["skipna"]
    n = sum(lens)
    ints = set(inp.get("int_cols", []))
    df = pd.DataFrame({k: U.mk_series(v, "int64" if k in ints else "float64") for k, v in cols.items()}, index=range(n))
    expected = getattr(df, OPS[op])(skipna=skipna)
    d = U.from_parts(df, lens)
    cls = _cumdf_class(cols, lens, op, skipna)
    try:
        r = getattr(d, OPS[op])(skipna=skipna)
        got = U.compute_parts(r)
    except Exception as e:
        ctx.fail(f"DataFrame.{OPS[op]}(skipna={skipna}) raised {type(e).__name__}",
                 sig=(f"cumdf:{cls}:{type(e).__name__}" if cls else None),
                 observed=f"{type(e).__name__}: {e}"[:300])
        ctx.branch("cumdf-raised")
        return
    whole = pd.concat(got) if got else expected.iloc[:0]
    ok = True
    for k in cols:
        if U.series_cells(whole[k]) != U.series_cells(expected[k]) or list(whole.index) != list(expected.index):
            ok = False
    if not ok:
        ctx.fail(f"DataFrame.{OPS[op]}(skipna={skipna}) differs from pandas",
                 sig=(f"cumdf:{cls}:wrong-values" if cls else None),
                 observed={k: U.series_cells(whole[k]) for k in cols}, expected={k: U.series_cells(expected[k]) for k in cols})
    if ok and [str(t) for t in whole.dtypes] != [str(t) for t in expected.dtypes]:
        mixed = bool(ints) and len(ints) < len(cols) and len(lens) > 1
        ctx.fail(f"DataFrame.{OPS[op]}: values equal pandas but dtypes differ",
                 sig=("cumdf:mixed-int-float-columns:int-upcast-to-float64" if mixed else None),
                 observed=[str(t) for t in whole.dtypes], expected=[str(t) for t in expected.dtypes])
    # per-column model of the DataFrame path (defined for >= 2 columns)
    if len(cols) >= 2:
        for k, cells in cols.items():
            model = ctx.lean(Sym("cumdf"), Sym(op), skipna, U.parts_to_sexp(U.split(cells, lens)))
            ctx.eq(f"cumdf column {k}", model, [U.series_cells(p[k]) for p in got])
        ctx.branch("cumdf-modelled")
    if cls:
        ctx.branch("cumdf-class-" + cls)
    elif len(lens) > 1:
        ctx.branch("cumdf-clean-multipartition")
        if any(x == 0 for x in lens):
            ctx.branch("cumdf-empty-partition")


# ------------------------------------------------------------------------------------------------
# overlap, partition level + oracle
# ------------------------------------------------------------------------------------------------

def _apply_fn(obj, fn):
    """apply the row function to a pandas or dask Series/DataFrame"""
    name = fn[0]
    if name == "shift":
        return obj.shift(fn[1])
    if name == "diff":
        return obj.diff(fn[1])
    if name == "ffill":
        return obj.ffill(limit=fn[1])
    if name == "bfill":
        return obj.bfill(limit=fn[1])
    how = {"rollsum": "sum", "rollcount": "count", "rollmax": "max"}[name]
    return getattr(obj.rolling(fn[1], min_periods=fn[2], center=fn[3]), how)()


def _fn_sexp(fn):
    return [Sym(fn[0])] + [U.NONE if v is None else v for v in fn[1:]]


def case_overlap(ctx, inp):
    cells, lens, fn = inp["cells"], inp["lens"], inp["fn"]
    s = U.mk_series(cells)
    parts = U.split(cells, lens)
    unlimited = fn[0] in ("ffill", "bfill") and fn[1] is None
    expected = _apply_fn(s, fn)
    exp_cells = U.series_cells(expected)
    if unlimited:
        spec = ctx.lean(Sym("fillspec"), Sym(fn[0]), U.cells_to_sexp(cells))
        model = ctx.lean(Sym("fillu"), Sym(fn[0]), U.parts_to_sexp(parts))
        model = [model[0], None, None] + model[1:]
    else:
        spec = ctx.lean(Sym("winspec"), _fn_sexp(fn), U.cells_to_sexp(cells))
        model = ctx.lean(Sym("overlap"), _fn_sexp(fn), U.parts_to_sexp(parts))
    ctx.eq("pandas kernel vs Lean spec (%s)" % fn[0], spec, exp_cells)
    d = U.from_parts(s, lens)
    blockwise_roll = fn[0].startswith("roll") and (fn[1] <= 1 or len(lens) == 1)
    try:
        r = _apply_fn(d, fn)
        # function level: before/after as derived by the real expression classes
        low = r.expr
        if fn[0].startswith("roll"):
            low = r.expr._lower()
            bw = ctx.lean(Sym("rollblockwise"), fn[1], len(lens))
            ctx.eq("RollingReduction._is_blockwise_op", bw, bool(r.expr._is_blockwise_op))
        if hasattr(low, "before") and not blockwise_roll and not unlimited:
            ctx.eq("before/after of the lowered expression", [model[1], model[2]], [int(low.before), int(low.after)])
        got = U.compute_parts(r)
        impl = [Sym("ok"), [U.series_cells(p) for p in got]]
    except NotImplementedError as e:
        impl = [Sym("raised")]
        if MSG_SMALL not in str(e):
            ctx.fail("undocumented NotImplementedError", observed=str(e)[:300])
    except ValueError as e:
        impl = [Sym("raised")]
        if not (unlimited and MSG_ALLNAN in str(e)):
            ctx.fail(f"{fn[0]} raised ValueError", observed=str(e)[:300], expected=exp_cells)
        else:
            # documented limitation: only when a checked partition has nothing to fill from
            checked = parts[1:] if fn[0] == "ffill" else parts[:-1]
            if not any(all(c is None for c in p) for p in checked):
                ctx.fail(f"{fn[0]}() raised 'All NaN partition' although no checked partition is all-NaN",
                         observed=str(e)[:200], expected=exp_cells)
    except Exception as e:
        ctx.fail(f"{fn[0]} raised {type(e).__name__}", observed=f"{type(e).__name__}: {e}"[:300], expected=exp_cells)
        return
    if blockwise_roll:
        # single partition / window <= 1: plain per-partition pandas call
        mdl = [Sym("ok"), [U.series_cells(_apply_fn(U.mk_series(p), fn)) for p in parts]]
    else:
        mdl = [model[0]] + ([model[3]] if model[0] == "ok" else [])
    ctx.eq("MapOverlap partitions (%s)" % fn[0], mdl, impl)
    if impl[0] == "ok":
        flat = [c for p in impl[1] for c in p]
        idx = [i for p in got for i in p.index.tolist()]
        if flat != exp_cells or idx != list(s.index):
            ctx.fail(f"{fn} differs from pandas on the unpartitioned series", observed=impl[1], expected=exp_cells)
        if len(lens) > 1 and not blockwise_roll:
            ctx.branch("overlap-ok-multipartition")
            b, a = (model[1] or 0), (model[2] or 0)
            if b and a:
                ctx.branch("overlap-both-sides")
            if any(0 < n <= max(b, a) for n in lens):
                ctx.branch("overlap-window-spans-whole-partition")
            if any(None in p for p in parts):
                ctx.branch("overlap-nan")
    else:
        ctx.branch("overlap-raised-allnan" if unlimited else "overlap-raised-too-small")
        if not unlimited:
            ok = ctx.lean(Sym("sideok"), model[1], model[2], lens)
            if ok is not False:
                ctx.fail("MapOverlap raised although every partition is large enough", observed=[lens, model[1], model[2]])


# ------------------------------------------------------------------------------------------------
# API level vs pandas (frames, float kernels, time-based windows, map_overlap)
# ------------------------------------------------------------------------------------------------

def _mk_frame(inp):
    import numpy as np
    import pandas as pd  # noqa: F811
    cols = {k: [np.nan if c is None else float(c) + 0.5 * (i % 2) for i, c in enumerate(v)] for k, v in inp["cols"].items()}
    n = len(next(iter(cols.values())))
    if inp.get("tindex"):
        idx = pd.to_datetime("2020-01-01") + pd.to_timedelta(inp["tindex"], unit="s")
    else:
        idx = pd.RangeIndex(n)
    return pd.DataFrame(cols, index=idx)


def _api_ops(inp):
    k = inp["kind"]
    p = inp["params"]
    if k == "rolling":
        return lambda x: getattr(x.rolling(p["window"], min_periods=p.get("min_periods"), center=p.get("center", False)), p["how"])()
    if k == "trolling":
        return lambda x: getattr(x.rolling(p["window"], min_periods=p.get("min_periods"), center=p.get("center", False)), p["how"])()
    if k == "shift":
        return lambda x: x.shift(p["periods"])
    if k == "diff":
        return lambda x: x.diff(p["periods"])
    if k == "ffill":
        return lambda x: x.ffill(limit=p["limit"])
    if k == "bfill":
        return lambda x: x.bfill(limit=p["limit"])
    if k == "cum":
        return lambda x: getattr(x, p["how"])()
    raise KeyError(k)


def gen_time_window(rng):
    """time-based windows over >= 3 partitions whose WIDTHS are irregular around the window size: narrow partitions
    (narrower than the window) at every position, in particular ONLY the second-to-last one"""
    w = rng.choice([3, 5, 6, 8])
    k = rng.randint(3, 5)
    wide = lambda: rng.choice([w + 1, 2 * w + 3, 3 * w, w + 5])
    narrow = lambda: rng.choice([1, max(1, w // 2), w - 1])
    mode = rng.choice(["second-to-last", "second-to-last", "first", "middle", "last", "several", "none"])
    widths = [wide() for _ in range(k)]
    if mode == "second-to-last":
        widths[k - 2] = narrow()
    elif mode == "first":
        widths[0] = narrow()
    elif mode == "middle":
        widths[rng.randint(1, k - 2)] = narrow()
    elif mode == "last":
        widths[k - 1] = narrow()
    elif mode == "several":
        for i in rng.sample(range(k), 2):
            widths[i] = narrow()
    t, lens, start = [], [], 0
    for wd in widths:
        # rows at irregular 1..3 s spacing inside [start, start + wd); at least one row, first row AT the start
        cur, rows = start, []
        while cur < start + wd:
            rows.append(cur)
            cur += rng.choice([1, 1, 2, 3])
        t.extend(rows)
        lens.append(len(rows))
        start += wd
    n = len(t)
    kind = rng.choice(["trolling", "trolling", "tmap_overlap"])
    inp = {"cols": {"a": gen_cells_f(rng, n, 0.1), "b": gen_cells_f(rng, n, 0.3)}, "tindex": t, "lens": lens, "kind": kind,
           "column": rng.choice([None, "a", "b"]), "narrow": mode,
           "params": {"window": f"{w}s", "min_periods": rng.choice([None, 1, 2]), "how": rng.choice(["sum", "mean", "count", "max"]),
                      "center": kind == "trolling" and rng.random() < 0.35},
           "check_partitions": rng.random() < 0.3}
    return inp


def gen_cells_f(rng, n, p):
    return U.gen_cells(rng, n, p_nan=p)


def case_api(ctx, inp):
    import pandas as pd
    df = _mk_frame(inp)
    lens = inp["lens"]
    kind, p = inp["kind"], inp["params"]
    if inp.get("column"):
        pobj = df[inp["column"]]
    else:
        pobj = df
    d = U.from_parts(pobj, lens)
    got_parts = None
    try:
        if kind == "map_overlap":
            w = p["window"]
            f = _RollSum(w)
            expected = f(pobj)
            r = d.map_overlap(f, p["before"], p["after"])
        elif kind == "tmap_overlap":
            f = _RollSum(p["window"])
            expected = f(pobj)
            r = d.map_overlap(f, pd.Timedelta(p["window"]), 0)
        else:
            op = _api_ops(inp)
            expected = op(pobj)
            r = op(d)
        proj = inp.get("proj")
        if proj is not None and isinstance(expected, pd.DataFrame):
            # `op(...)[["a"]]` must stay a one-column DataFrame, `op(...)["a"]` a Series
            expected = expected[proj]
            r = r[proj]
        got = r.compute(scheduler="sync")
        if inp.get("check_partitions") and r.npartitions > 1:
            # `.partitions[i]` selects ONE output partition: it must still see the rows of its neighbours
            got_parts = pd.concat([r.partitions[i].compute(scheduler="sync") for i in range(r.npartitions)])
    except NotImplementedError as e:
        if MSG_SMALL in str(e):
            ctx.branch("api-raised-too-small")
            if kind in ("trolling", "tmap_overlap") and not p.get("center"):
                ctx.fail("time-based rolling raised 'partition too small' (time windows may span partitions)", observed=str(e)[:200])
            # a CENTERED time window looks ahead: `_combined_parts` refuses (documented message) when it cannot tell that the
            # next partition alone covers the look-ahead -- the same explicit refusal as for integer windows
            return
        ctx.fail(f"{kind} raised NotImplementedError", observed=str(e)[:300])
        return
    except ValueError as e:
        if MSG_ALLNAN in str(e) and kind in ("ffill", "bfill") and p["limit"] is None:
            ctx.branch("api-raised-allnan")
            return
        ctx.fail(f"{kind} raised ValueError", observed=str(e)[:300])
        return
    except Exception as e:
        sig = None
        if kind == "cum" and isinstance(pobj, pd.DataFrame):
            # the projection `op(...)[["b"]]` is pushed into the cumulative op: the frame it runs on has these columns only
            proj = inp.get("proj")
            eff = proj if isinstance(proj, list) else list(pobj.columns)
            cols = {k: [None if v != v else 1 for v in pobj[k].tolist()] for k in eff}
            cls = _cumdf_class(cols, lens, p["how"][3:], True)
            sig = f"cumdf:{cls}:{type(e).__name__}" if cls else None
        ctx.fail(f"{kind} raised {type(e).__name__}", sig=sig, observed=f"{type(e).__name__}: {e}"[:300])
        return
    try:
        if isinstance(expected, pd.DataFrame):
            pd.testing.assert_frame_equal(got, expected, check_exact=False, rtol=1e-9, atol=1e-9, check_freq=False)
        else:
            pd.testing.assert_series_equal(got, expected, check_exact=False, rtol=1e-9, atol=1e-9, check_freq=False)
    except AssertionError as e:
        cls = None
        if kind == "cum" and isinstance(expected, pd.DataFrame):
            cols = {k: [None if v != v else 1 for v in pobj[k].tolist()] for k in pobj.columns}
            cls = _cumdf_class(cols, lens, p["how"][3:], True)
        ctx.fail(f"{kind} {p} differs from pandas", sig=(f"cumdf:{cls}:wrong-values" if cls else None),
                 observed=str(e)[:300])
        return
    if got_parts is not None:
        try:
            if isinstance(expected, pd.DataFrame):
                pd.testing.assert_frame_equal(got_parts, expected, check_exact=False, rtol=1e-9, atol=1e-9, check_freq=False)
            else:
                pd.testing.assert_series_equal(got_parts, expected, check_exact=False, rtol=1e-9, atol=1e-9, check_freq=False)
            ctx.branch("api-partitions-selected-one-by-one")
        except AssertionError as e:
            cls = None
            if kind == "cum" and isinstance(expected, pd.DataFrame):
                cols = {k: [None if v != v else 1 for v in pobj[k].tolist()] for k in pobj.columns}
                cls = _cumdf_class(cols, lens, p["how"][3:], True)
            ctx.fail(f"{kind} {p}: concatenation of .partitions[i] differs from pandas (the whole result is right)",
                     sig=(f"cumdf:{cls}:wrong-values" if cls else None), observed=str(e)[:300])
            return
    ctx.branch("api-" + kind + ("-multi" if len(lens) > 1 else "-single"))
    if inp.get("proj") is not None:
        ctx.branch("api-projection-of-result")
    if inp.get("narrow"):
        ctx.branch("api-time-window-narrow-partition-" + str(inp["narrow"]))
    if kind == "trolling" and p.get("center"):
        ctx.branch("api-time-window-centered")


class _RollSum:
    """map_overlap payload: needs `window-1` rows of context before (given more, the result is the same)"""

    def __init__(self, w):
        self.w = w

    def __call__(self, x):
        return x.rolling(self.w, min_periods=1).sum()

    def __dask_tokenize__(self):
        return ("c46-rollsum", self.w)


# ------------------------------------------------------------------------------------------------
# time-based windows: the timedelta branch of CreateOverlappingPartitions._layer / _tail_timedelta / _combined_parts
# ------------------------------------------------------------------------------------------------

def _trows(t, cells):
    return [[int(a), U.NONE if c is None else int(c)] for a, c in zip(t, cells)]


def case_toverlap(ctx, inp):
    import pandas as pd
    from dask.dataframe.dask_expr._expr import CreateOverlappingPartitions, _tail_timedelta
    t, cells, lens, W, how, m = inp["tindex"], inp["cells"], inp["lens"], inp["window"], inp["how"], inp["min_periods"]
    base = pd.Timestamp("2021-01-01")
    idx = base + pd.to_timedelta(t, unit="s")
    s = U.mk_series(cells, "float64", index=idx)
    d = U.from_parts(s, lens)
    b = U.bounds_of(lens)
    parts_rows = [_trows(t[b[i]:b[i + 1]], cells[b[i]:b[i + 1]]) for i in range(len(lens))]
    divs = [int((x - base).total_seconds()) for x in d.divisions]
    mm = 1 if m is None else m
    # (a) pandas kernel vs the Lean window function
    op = lambda x: getattr(x.rolling(f"{W}s", min_periods=m), how)()
    expected = op(s)
    spec = ctx.lean(Sym("tspec"), Sym(how), mm, W, _trows(t, cells))
    ctx.eq("pandas rolling('%ds').%s vs Lean spec" % (W, how), U.sexp_to_cells(spec), U.series_cells(expected))
    # (b) the partitions each prepend task reads (fast path / slow path, the while loop)
    delta = pd.Timedelta(seconds=W)
    if len(lens) > 1:
        layer = CreateOverlappingPartitions(d.expr, delta, 0)._layer()
        slow = bool(ctx.lean(Sym("tslow"), W, divs))
        pieces = [s.iloc[b[i]:b[i + 1]] for i in range(len(lens))]
        for key, task in layer.items():
            if isinstance(key[0], str) and key[0].startswith("overlap-prepend") and len(key) == 2:
                i = key[1]
                ks = [k[1] for k in task[2]]
                if slow:
                    j = ctx.lean(Sym("tstart"), W, divs, i)
                    model_ks = list(range(int(j), i + 1)) if j != "none" else "none"
                else:
                    model_ks = [i]
                ctx.eq("partitions read by prepend task %d" % i, model_ks, ks)
                # (c) _tail_timedelta on the real partitions
                real = _tail_timedelta(pieces[i + 1], [pieces[k] for k in ks], delta)
                mt = ctx.lean(Sym("ttail"), W, parts_rows[i + 1], [parts_rows[k] for k in ks])
                ctx.eq("_tail_timedelta", [[int(a), None if (c is None or c == "none") else int(c)] for a, c in mt],
                       [[int((ix - base).total_seconds()), U.cell_of(v)] for ix, v in real.items()])
        if slow:
            ctx.branch("toverlap-slow-path")
            if any(len(task[2]) > 1 for key, task in layer.items() if isinstance(key[0], str) and key[0].startswith("overlap-prepend")):
                ctx.branch("toverlap-several-partitions-prepended")
        else:
            ctx.branch("toverlap-fast-path")
    # (d) the lowered expression, partition by partition, vs the model; the whole vs pandas
    model = ctx.lean(Sym("toverlap"), Sym(how), mm, W, divs, parts_rows)
    try:
        r = op(d)
        got_parts = U.compute_parts(r)
        got = r.compute(scheduler="sync")
    except Exception as e:
        ctx.fail(f"rolling('{W}s').{how} raised {type(e).__name__}", observed=f"{type(e).__name__}: {e}"[:300])
        return
    ctx.eq("rolling('%ds').%s partitions" % (W, how), [Sym("ok"), U.parts_to_sexp([U.series_cells(p) for p in got_parts])]
           if False else ["ok", [U.series_cells(p) for p in got_parts]],
           [str(model[0]), U.sexp_to_parts(model[1])] if model[0] == "ok" else model)
    try:
        pd.testing.assert_series_equal(got, expected, check_exact=False, rtol=1e-9, atol=1e-9, check_freq=False)
    except AssertionError as e:
        ctx.fail(f"rolling('{W}s', min_periods={m}).{how} differs from pandas", observed=str(e)[:300])
        return
    if any(n == 0 for n in lens):
        ctx.branch("toverlap-empty-partition")
    if len(set(t)) < len(t):
        ctx.branch("toverlap-duplicate-timestamps")
    ctx.branch("toverlap-" + how)


CASES = {"takelast": case_takelast, "agg": case_agg, "combined": case_combined, "cum": case_cum,
         "cumdf": case_cumdf, "overlap": case_overlap, "api": case_api, "toverlap": case_toverlap,
         "toverlap2": XC.case_toverlap2}


# ------------------------------------------------------------------------------------------------
# generators
# ------------------------------------------------------------------------------------------------

def _gen_fn(rng, n):
    t = rng.random()
    if t < 0.2:
        return ["shift", rng.choice([1, 2, 3, -1, -2, -3, 0])]
    if t < 0.35:
        return ["diff", rng.choice([1, 2, 3, -1, -2])]
    if t < 0.5:
        return ["ffill", rng.choice([None, 1, 2, 3])]
    if t < 0.62:
        return ["bfill", rng.choice([None, 1, 2, 3])]
    w = rng.choice([1, 2, 3, 4, 5])
    return [rng.choice(["rollsum", "rollcount", "rollmax"]), w, rng.randint(0, w), rng.random() < 0.4]


def _friendly_lens(rng, n, need):
    """partitions large enough for the overlap most of the time, boundaries inside NaN runs"""
    k = rng.randint(2, 4)
    base = max(need, 1)
    lens = [base + rng.randint(0, 2) for _ in range(k)]
    tot = sum(lens)
    return lens, tot


def gen_api(rng):
    n = rng.randint(4, 16)
    cols = {"a": U.gen_cells(rng, n, p_nan=rng.choice([0.0, 0.2])), "b": U.gen_cells(rng, n, p_nan=0.3)}
    kind = rng.choice(["rolling", "rolling", "trolling", "trolling", "shift", "diff", "ffill", "bfill", "map_overlap", "cum"])
    inp = {"cols": cols, "kind": kind, "column": rng.choice([None, "a", "b"])}
    if kind == "rolling":
        w = rng.randint(1, 5)
        inp["params"] = {"window": w, "min_periods": rng.choice([None, 1, w]), "center": rng.random() < 0.3,
                         "how": rng.choice(["mean", "std", "var", "min", "median", "sum", "count", "max"])}
        inp["lens"] = _friendly_lens(rng, 0, w)[0] if rng.random() < 0.8 else U.gen_lens(rng, n, 3)
    elif kind == "trolling":
        gaps = [rng.choice([1, 1, 2, 3, 7]) for _ in range(n)]
        t = list(itertools.accumulate(gaps))
        inp["tindex"] = t
        inp["params"] = {"window": rng.choice(["2s", "3s", "5s", "10s", "40s"]), "min_periods": rng.choice([None, 1, 2]),
                         "how": rng.choice(["sum", "mean", "count", "max"])}
        inp["lens"] = U.gen_lens(rng, n, 4, allow_empty=False)
    elif kind in ("shift", "diff"):
        per = rng.choice([1, 2, -1, -2, 3])
        inp["params"] = {"periods": per}
        inp["lens"] = _friendly_lens(rng, 0, abs(per))[0]
    elif kind in ("ffill", "bfill"):
        lim = rng.choice([None, 1, 2])
        inp["params"] = {"limit": lim}
        inp["lens"] = _friendly_lens(rng, 0, lim or 1)[0]
    elif kind == "map_overlap":
        w = rng.randint(2, 4)
        inp["params"] = {"window": w, "before": w - 1 + rng.choice([0, 0, 1]), "after": rng.choice([0, 0, 1])}
        inp["lens"] = _friendly_lens(rng, 0, w)[0]
    else:
        inp["params"] = {"how": rng.choice(["cumsum", "cummax", "cummin", "cumprod"])}
        inp["lens"] = U.gen_lens(rng, n, 4, allow_empty=False)
        inp["cols"] = {k: [None if c is None else max(-2, min(2, c)) for c in v] for k, v in cols.items()}
    m = sum(inp["lens"])
    inp["cols"] = {k: (v * (m // max(len(v), 1) + 1))[:m] for k, v in inp["cols"].items()}
    if inp.get("tindex"):
        t = inp["tindex"]
        while len(t) < m:
            t = t + [t[-1] + 1 + i for i in range(m)]
        inp["tindex"] = t[:m]
    if m == 0:
        return None
    if inp["column"] is None and kind in ("rolling", "shift", "diff", "ffill", "cum") and rng.random() < 0.35:
        inp["proj"] = rng.choice([["a"], ["b"], "a", ["b", "a"]])
    inp["check_partitions"] = kind != "trolling" and rng.random() < 0.3
    return inp


def gen_toverlap(rng):
    """integer-second timestamps (unique or with duplicates kept inside one partition), partitions narrower and wider than
    the window, empty partitions"""
    base = gen_time_window(rng)
    t, lens = base["tindex"], base["lens"]
    if rng.random() < 0.3:
        # duplicates: repeat some timestamps (boundaries are snapped so that equal labels stay in one partition)
        t2 = []
        for x in t:
            t2.extend([x] * rng.choice([1, 1, 1, 2, 3]))
        n = len(t2)
        cuts = sorted(rng.randint(0, n) for _ in range(len(lens) - 1))
        lens = U.snap_lens(t2, [b - a for a, b in zip([0] + cuts, cuts + [n])])
        t = t2
    elif rng.random() < 0.3:
        # an empty partition somewhere
        i = rng.randrange(len(lens) + 1)
        lens = lens[:i] + [0] + lens[i:]
    w = int(base["params"]["window"][:-1])
    return {"tindex": t, "lens": lens, "cells": U.gen_cells(rng, len(t), p_nan=rng.choice([0.0, 0.15, 0.4])), "window": w,
            "how": rng.choice(["sum", "sum", "count"]), "min_periods": rng.choice([None, 1, 2, 0])}


def generate(ctx):
    rng = ctx.rng
    # --- function level: TakeLast, aggregates (exhaustive small spaces) -------------------------
    vals = [None, 1, 2]
    for n in range(0, 4):
        for cells in itertools.product(vals, repeat=n):
            for sk in (True, False):
                yield "takelast", {"cells": list(cells), "skipna": sk}
    for op in OPS:
        for x in ("pynone", None, -2, 3):
            for y in ("pynone", None, -2, 5):
                yield "agg", {"op": op, "x": x, "y": y}
        for xs in ([], [None], [1, None, 4], [None, -3]):
            for y in ("pynone", None, 2):
                yield "agg", {"op": op, "xs": xs, "y": y}
    for _ in range(ctx.n(60, 600)):
        yield "takelast", {"cells": U.gen_cells(rng, rng.randint(0, 8)), "skipna": rng.random() < 0.5,
                           "dtype": "float64"}
    # --- time-based windows (timedelta branch of the overlap machinery) -------------------------
    for _ in range(ctx.n(45, 900)):
        yield "toverlap", gen_toverlap(rng)
    # --- _combined_parts --------------------------------------------------------------------------
    for _ in range(ctx.n(120, 1500)):
        b, a = rng.choice([0, 1, 2, 3]), rng.choice([0, 0, 1, 2])
        prev = None if (b == 0 or rng.random() < 0.2) else U.gen_cells(rng, rng.choice([b, b, b, max(b - 1, 0), 0]))
        nxt = None if (a == 0 or rng.random() < 0.2) else U.gen_cells(rng, rng.choice([a, a, a, max(a - 1, 0), 0]))
        yield "combined", {"b": b, "a": a, "prev": prev, "cur": U.gen_cells(rng, rng.randint(0, 4)), "next": nxt}
    # --- cumulative: exhaustive small space ------------------------------------------------------
    small = [[None, 2], [1, None, 3], [None, None, 1], [2, 1, None], [3, 1, 2]] if not ctx.thorough() else \
        [list(c) for n in (2, 3, 4) for c in itertools.product([None, 1, 3], repeat=n)]
    for cells in small:
        for lens in U.compositions(len(cells), 3 if not ctx.thorough() else 4):
            for op in OPS:
                for sk in (True, False):
                    if ctx.thorough() or rng.random() < 0.3:
                        yield "cum", {"cells": cells, "lens": lens, "op": op, "skipna": sk}
    for _ in range(ctx.n(90, 2500)):
        n = rng.randint(0, 14)
        cells = U.gen_cells(rng, n)
        dtype = "float64"
        if rng.random() < 0.2:
            cells = [c if c is not None else 1 for c in cells]
            dtype = "int64"
        if rng.random() < 0.3 and cells:  # all-NA stretch that is likely to cover a whole partition
            i = rng.randrange(len(cells)); j = min(len(cells), i + rng.randint(1, 5))
            if dtype == "float64":
                cells[i:j] = [None] * (j - i)
        op = rng.choice(list(OPS))
        if op == "prod":
            cells = [None if c is None else max(-2, min(2, c)) for c in cells]
        yield "cum", {"cells": cells, "lens": U.gen_lens(rng, n, 5), "op": op, "skipna": rng.random() < 0.6,
                      "dtype": dtype, "known": rng.random() < 0.8}
    # --- DataFrame path --------------------------------------------------------------------------
    for _ in range(ctx.n(60, 800)):
        n = rng.randint(1, 10)
        ncols = rng.choice([1, 2, 2, 3])
        clean = rng.random() < 0.5
        cols = {"abc"[i]: U.gen_cells(rng, n, p_nan=(rng.choice([0.0, 0.1]) if clean else None), lo=-2, hi=2) for i in range(ncols)}
        lens = U.gen_lens(rng, n, 4, allow_empty=not clean)
        if clean:   # every partition starts with a valid value in every column: outside every known class
            b = U.bounds_of(lens)
            for v in cols.values():
                for i in b[:-1]:
                    if i < n:
                        v[i] = 1
        inp = {"cols": cols, "lens": lens, "op": rng.choice(list(OPS)), "skipna": rng.random() < 0.6}
        if rng.random() < 0.3:
            ic = [c for c in cols if rng.random() < 0.5]
            for c in ic:
                cols[c] = [1 if v is None else v for v in cols[c]]
            inp["int_cols"] = ic
        yield "cumdf", inp
    # --- overlap ---------------------------------------------------------------------------------
    for _ in range(ctx.n(170, 4000)):
        fn = _gen_fn(rng, 0)
        need = abs(fn[1]) if fn[0] in ("shift", "diff") else ((fn[1] or 1) if fn[0] in ("ffill", "bfill") else fn[1])
        if rng.random() < 0.7:
            lens, n = _friendly_lens(rng, 0, need)
            if rng.random() < 0.3:
                lens[-1] = rng.randint(0, 2); n = sum(lens)
        else:
            n = rng.randint(0, 12)
            lens = U.gen_lens(rng, n, 4)
        cells = U.gen_cells(rng, n, p_nan=rng.choice([0.0, 0.2, 0.5]) if fn[0] != "ffill" and fn[0] != "bfill" else rng.choice([0.3, 0.6]))
        yield "overlap", {"cells": cells, "lens": lens, "fn": fn}
    # --- time-based windows with irregular partition widths ---------------------------------------
    for _ in range(ctx.n(40, 600)):
        yield "api", gen_time_window(rng)
    # --- API level -------------------------------------------------------------------------------
    for _ in range(ctx.n(60, 1200)):
        inp = gen_api(rng)
        if inp is not None:
            yield "api", inp
    # --- extension round: centered / forward-looking time windows (appended last: earlier rng streams unchanged) ---------
    for _ in range(ctx.n(60, 1200)):
        yield "toverlap2", XC.gen_toverlap2(rng)


def search(ctx):
    yield from generate(ctx)
