"""C46 extension round: centered / forward-looking TIME windows (a timedelta `after` of MapOverlap).

Section `toverlap2` (hooked into c46.py). Ties lean/DaskModel/Model/OverlapTime2.lean to the real code:
  (a) pandas kernel (centered rolling / forward rolling) vs the Lean window function `twinFn2`;
  (b) the graph of `CreateOverlappingPartitions._layer`: which partitions every append task reads (the immediate
      neighbour only), its `2*after`, which task function it is (`_head_timedelta_nonempty` unless the neighbour is the
      last partition); every append task executed on the real partitions vs `nextOfTime`; `_head_timedelta` vs `headTime`;
  (c) `_combined_parts` on the real prepend/append outputs vs `combinedTime2` (rows, prev/next lengths, raising);
  (d) the lowered expression partition by partition vs `mapOverlapTime2` (same raising set = `afterOK`), and — the
      property itself — vs pandas on the unpartitioned frame whenever it does not raise.
"""
from __future__ import annotations

from sexp import Sym

from props import _dfrows_util as U

MSG_SMALL = "Partition size is less than overlapping"
NONE = U.NONE


def _trows(t, cells):
    return [[int(a), NONE if c is None else int(c)] for a, c in zip(t, cells)]


def _rows_of(obj, base):
    """pandas Series -> [[seconds, cell] ...] as decoded from the driver"""
    return [[int((ix - base).total_seconds()), U.cell_of(v)] for ix, v in obj.items()]


def _enc_rows(rows):
    return [[int(a), NONE if c is None else int(c)] for a, c in rows]


def _dec_rows(x):
    return [[int(a), None if (c is None or c == "none") else int(c)] for a, c in x]


class _Fwd:
    """forward-looking time window `[t, t + a)` on one block: the rolling window of the time-reversed block"""

    def __init__(self, a, how, m):
        self.a, self.how, self.m = a, how, m

    def __call__(self, x):
        import pandas as pd
        ref = pd.Timestamp("2021-01-01")
        y = x.iloc[::-1]
        y = y.set_axis(pd.Timestamp("2022-01-01") - (y.index - ref))
        out = getattr(y.rolling(f"{self.a}s", min_periods=self.m), self.how)()
        return out.iloc[::-1].set_axis(x.index)

    def __dask_tokenize__(self):
        return ("c46x-fwd", self.a, self.how, self.m)


class _Ctr:
    """centered time window of `w` seconds on one block"""

    def __init__(self, w, how, m):
        self.w, self.how, self.m = w, how, m

    def __call__(self, x):
        return getattr(x.rolling(f"{self.w}s", center=True, min_periods=self.m), self.how)()

    def __dask_tokenize__(self):
        return ("c46x-ctr", self.w, self.how, self.m)


def case_toverlap2(ctx, inp):
    import dask
    import pandas as pd
    U.dd()
    from dask.dataframe.dask_expr import _expr as E
    from dask.dataframe.rolling import _head_timedelta
    t, cells, lens, how, m, mode = inp["tindex"], inp["cells"], inp["lens"], inp["how"], inp["min_periods"], inp["mode"]
    w, Bs, As = inp["w"], inp["B"], inp["A"]
    base = pd.Timestamp("2021-01-01")
    idx = base + pd.to_timedelta(t, unit="s")
    s = U.mk_series(cells, "float64", index=idx)
    d = U.from_parts(s, lens)
    bnd = U.bounds_of(lens)
    n = len(lens)
    pieces = [s.iloc[bnd[i]:bnd[i + 1]] for i in range(n)]
    parts_rows = [_trows(t[bnd[i]:bnd[i + 1]], cells[bnd[i]:bnd[i + 1]]) for i in range(n)]
    divs = [int((x - base).total_seconds()) for x in d.divisions]
    mm = 1 if m is None else m
    # the function, its window (b, a) in integer seconds, dask's (B, A)
    if mode == "center":        # rolling('ws', center=True): before = after = Timedelta(w) (RollingReduction._lower)
        f = _Ctr(w, how, m)
        b, a, B, A = (w + 1) // 2, w // 2 + 1, w, w
        op = lambda x: getattr(x.rolling(f"{w}s", center=True, min_periods=m), how)()
    elif mode == "both":        # map_overlap(before=Timedelta(B), after=Timedelta(A)) of a centered window that fits
        f = _Ctr(w, how, m)
        b, a, B, A = (w + 1) // 2, w // 2 + 1, Bs, As
        op = lambda x: x.map_overlap(f, pd.Timedelta(seconds=B), pd.Timedelta(seconds=A)) if hasattr(x, "dask") else f(x)
    else:                       # map_overlap(before=0, after=Timedelta(A)) of a forward-looking window [t, t + a)
        f = _Fwd(w, how, m)
        b, a, B, A = None, w, None, As
        op = lambda x: x.map_overlap(f, 0, pd.Timedelta(seconds=A)) if hasattr(x, "dask") else f(x)
    sb, sB = (NONE if b is None else b), (NONE if B is None else B)
    assert a <= A and (b is None or b <= B)
    # (a) pandas kernel vs the Lean window function
    expected = op(s)
    spec = ctx.lean(Sym("tspec2"), Sym(how), mm, sb, a, _trows(t, cells))
    ctx.eq("pandas %s window (w=%d) %s vs Lean twinFn2" % (mode, w, how), U.sexp_to_cells(spec), U.series_cells(expected))
    # (b) the append tasks of the graph
    dA = pd.Timedelta(seconds=A)
    dB = 0 if B is None else pd.Timedelta(seconds=B)
    prevs_real, nexts_real = [None] * n, [None] * n
    if n > 1:
        layer = E.CreateOverlappingPartitions(d.expr, dB, dA)._layer()
        fname = d.expr._name
        graph = dict(layer)
        for i in range(n):
            graph[(fname, i)] = pieces[i]
        seen = set()
        for key, task in layer.items():
            if not (isinstance(key[0], str) and len(key) == 2):
                continue
            if key[0].startswith("overlap-append"):
                i = key[1]
                seen.add(i)
                ctx.eq("append task %d: (function, partitions read, after)" % i,
                       ["_head_timedelta" if i == n - 1 else "_head_timedelta_nonempty", [i - 1, i], 2 * A],
                       [getattr(task[0], "__name__", repr(task[0])), [task[1][1], task[2][1]], int(task[3].total_seconds())])
                mnx = ctx.lean(Sym("tnextof"), A, parts_rows[i - 1], parts_rows[i:])
                try:
                    real = task[0](pieces[i - 1], pieces[i], task[3])
                    rv = ["rows", _rows_of(real, base)]
                    nexts_real[i - 1] = real
                except NotImplementedError as e:
                    rv = ["raised"] if MSG_SMALL in str(e) else ["raised", str(e)[:80]]
                    nexts_real[i - 1] = "raised"
                    ctx.branch("toverlap2-append-task-refuses-empty-neighbour")
                ctx.eq("append task %d executed" % i, [str(mnx[0]), _dec_rows(mnx[1])] if mnx[0] == "rows" else [str(x) for x in mnx], rv)
                mh = ctx.lean(Sym("thead"), A, parts_rows[i - 1], parts_rows[i])
                ctx.eq("_head_timedelta", _dec_rows(mh), _rows_of(_head_timedelta(pieces[i - 1], pieces[i], dA), base))
            elif key[0].startswith("overlap-prepend"):
                prevs_real[key[1] + 1] = dask.get(graph, key)
        ctx.eq("append tasks present", sorted(seen), list(range(1, n)))
        # (c) _combined_parts on the real neighbours
        for i in range(n):
            if isinstance(nexts_real[i], str):
                continue
            pv, nx = prevs_real[i], nexts_real[i]
            mc = ctx.lean(Sym("tcombined2"), sB, A, NONE if pv is None else _enc_rows(_rows_of(pv, base)), parts_rows[i],
                          NONE if nx is None else _enc_rows(_rows_of(nx, base)))
            try:
                comb, pl, nl = E._combined_parts(pv, pieces[i], nx, dB, dA)
                rv = ["ok", _rows_of(comb, base), pl, nl]
            except NotImplementedError as e:
                rv = ["raised"] if MSG_SMALL in str(e) else ["raised", str(e)[:80]]
                ctx.branch("toverlap2-combined-parts-refuses-narrow-neighbour")
            mv = ["ok", _dec_rows(mc[1]), None if mc[2] in (None, "none") else int(mc[2]), None if mc[3] in (None, "none") else int(mc[3])] \
                if mc[0] == "ok" else [str(x) for x in mc]
            ctx.eq("_combined_parts of partition %d" % i, mv, rv)
    # (e) shift(periods, freq=...): pandas only relabels the index; dask's Shift still lowers to the INTEGER overlap
    sf = inp.get("shift_freq")
    if sf:
        try:
            gs = d.shift(sf[0], freq=sf[1]).compute(scheduler="sync")
            pd.testing.assert_series_equal(gs, s.shift(sf[0], freq=sf[1]), check_freq=False, check_names=False)
            ctx.branch("toverlap2-shift-freq")
        except NotImplementedError as e:
            if MSG_SMALL not in str(e):
                ctx.fail("shift(freq=) raised NotImplementedError", observed=str(e)[:300])
            else:
                ctx.branch("toverlap2-shift-freq-partition-too-small")
        except AssertionError as e:
            ctx.fail(f"shift({sf[0]}, freq={sf[1]!r}) differs from pandas", observed=str(e)[:300])
        except Exception as e:
            ctx.fail(f"shift(freq=) raised {type(e).__name__}", observed=f"{type(e).__name__}: {e}"[:300])
    # (d) the lowered expression
    model = ctx.lean(Sym("toverlap2"), Sym(how), mm, sb, a, sB, A, divs, parts_rows)
    aok = bool(ctx.lean(Sym("tafterok"), A, parts_rows))
    ctx.eq("mapOverlapTime2 raises exactly when afterOK fails", model[0] == "ok", aok)
    try:
        r = op(d)
        got_parts = U.compute_parts(r)
        got = r.compute(scheduler="sync")
        real = ["ok", [U.series_cells(p) for p in got_parts]]
    except NotImplementedError as e:
        if MSG_SMALL not in str(e):
            ctx.fail(f"{mode} time window raised NotImplementedError", observed=str(e)[:300])
            return
        real = ["raised"]
    except Exception as e:
        ctx.fail(f"{mode} time window raised {type(e).__name__}", observed=f"{type(e).__name__}: {e}"[:300])
        return
    ctx.eq("%s time window (w=%d, B=%s, A=%d) %s: partitions" % (mode, w, B, A, how),
           ["ok", U.sexp_to_parts(model[1])] if model[0] == "ok" else [str(x) for x in model], real)
    if real[0] == "raised":
        ctx.branch("toverlap2-raised-" + mode)
        empties = [i for i in range(1, n - 1) if lens[i] == 0 and any(lens[:i])]
        if empties:
            ctx.branch("toverlap2-raised-empty-neighbour")
        return
    try:
        pd.testing.assert_series_equal(got, expected, check_exact=False, rtol=1e-9, atol=1e-9, check_freq=False, check_names=False)
    except AssertionError as e:
        ctx.fail(f"{mode} time window (w={w}s, min_periods={m}).{how} over {n} partitions differs from pandas on the whole frame",
                 observed=str(e)[:300])
        return
    ctx.branch("toverlap2-ok-" + mode)
    if n > 1:
        # a window that really reaches into the next partition
        last = [t[bnd[i + 1] - 1] for i in range(n - 1) if lens[i] and bnd[i + 1] < len(t)]
        nxt = [t[bnd[i + 1]] for i in range(n - 1) if lens[i] and bnd[i + 1] < len(t)]
        if any(y < x + a for x, y in zip(last, nxt)):
            ctx.branch("toverlap2-lookahead-crosses-boundary")
        if B is not None and bool(ctx.lean(Sym("tslow"), B, divs)):
            ctx.branch("toverlap2-slow-path-lookback")
        if lens[-1] == 0:
            ctx.branch("toverlap2-empty-last-partition-accepted")
        if any(x == 0 for x in lens):
            ctx.branch("toverlap2-empty-partition")
        if len(set(lens)) > 1:
            ctx.branch("toverlap2-irregular-partitions")


def gen_toverlap2(rng):
    """integer-second time stamps, >= 2 partitions of IRREGULAR widths: wide ones (the validation of the look-ahead finds a
    row in [max + A, max + 2A)), narrow ones (narrower than the look-ahead: refusal), empty ones (in the middle: refusal by
    the append task; at the end: accepted), duplicates"""
    mode = rng.choice(["center", "center", "both", "after"])
    w = rng.choice([2, 3, 4, 5, 6, 8])
    if mode == "center":
        B = A = w
    elif mode == "both":
        B = (w + 1) // 2 + rng.choice([0, 1, 3])
        A = w // 2 + 1 + rng.choice([0, 1, 2])
    else:
        B = None
        A = w + rng.choice([0, 0, 1, 2])
    k = rng.randint(2, 5)
    shape = rng.choice(["wide", "wide", "wide", "narrow", "empty-mid", "empty-last", "mixed"])
    widths = [A + rng.choice([1, 2, A, 2 * A + 1]) for _ in range(k)]
    if shape == "narrow":
        widths[rng.randrange(k)] = rng.choice([1, max(1, A // 2), max(1, A - 1)])
    elif shape == "mixed":
        for i in rng.sample(range(k), min(2, k)):
            widths[i] = rng.choice([1, max(1, A - 1), A, 3 * A])
    t, lens, start = [], [], 0
    for wd in widths:
        cur, rows = start, []
        while cur < start + wd:
            rows.append(cur)
            cur += rng.choice([1, 1, 1, 2, 3]) if shape != "wide" or rng.random() < 0.8 else rng.choice([A, 2 * A])
        t.extend(rows)
        lens.append(len(rows))
        start += wd
    if shape == "empty-mid" and k >= 2:
        i = rng.randint(1, len(lens) - 1)
        lens = lens[:i] + [0] + lens[i:]
    elif shape == "empty-last" or rng.random() < 0.1:
        lens = lens + [0]
    if rng.random() < 0.2:
        # duplicates (equal labels stay in one partition)
        t2, l2 = [], []
        b = U.bounds_of(lens)
        for i in range(len(lens)):
            rows = []
            for x in t[b[i]:b[i + 1]]:
                rows.extend([x] * rng.choice([1, 1, 2, 3]))
            t2.extend(rows)
            l2.append(len(rows))
        t, lens = t2, l2
    return {"tindex": t, "lens": lens, "cells": U.gen_cells(rng, len(t), p_nan=rng.choice([0.0, 0.15, 0.4])), "w": w, "B": B, "A": A,
            "mode": mode, "how": rng.choice(["sum", "sum", "count"]), "min_periods": rng.choice([None, 1, 2, 0]), "shape": shape,
            "shift_freq": rng.choice([None, None, None, [1, "2s"], [-2, "3s"], [2, "1s"]])}
