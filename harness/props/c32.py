"""C32 — approximate percentiles stay within the data and are monotone.

Model:    lean/DaskModel/Model/Percentile.lean (merge_percentiles over exact rationals)
Theorems: lean/DaskModel/Props/C32.lean
Tie:      function level — `merge_percentiles` on generated (qs, vals, Ns) vs the Lean model (exact rationals
          vs float64, tolerance 1e-9) + the property oracle on the real output; API level — `da.percentile` on
          1-d data for all chunkings of small arrays / random chunkings (oracle + Lean merge of NumPy's per-chunk
          percentiles), `da.nanpercentile` / n-d `da.percentile` along an axis vs NumPy.
Extension: lean/DaskModel/Model/ChunkPercentile.lean (+IO), lean/DaskModel/Props/C32xData.lean, section `pctdata`
          (every percentile_chunk task of the real graph vs Lean `chunkpct`, the Lean pipeline `pct1d` vs da.percentile).
"""
from __future__ import annotations

import warnings
from fractions import Fraction

import numpy as np

from sexp import Sym
from props import _reduce_util as U

PROP = "C32"
READY = True
DRIVER = "dm_reduce"
LEAN_MODULES = ["DaskModel.Props.C32", "DaskModel.Props.C32xData"]
CASE_TIMEOUT_S = 20
METHODS = ["linear", "lower", "higher", "midpoint", "nearest"]
LEVEL_TEXT = (
    "Proved in Lean 4 over exact rationals, for every value-sorted arrangement of the merged entries (NumPy's argsort is not "
    "stable) with non-negative weights and for all five methods: merge_within_minmax (every output lies between the smallest "
    "and largest merged value), q0_q100 (desired weight ≤ 0 gives the smallest, ≥ total the largest merged value — the code "
    "after the two fix: commits), merge_monotone_in_q for all five methods (nearest_mono is the delicate case); for the "
    "executable model of merge_percentiles (any validated sort permutation): mergePercentilesWith_spec (its outputs are "
    "select on sorted vals / cumulative weights whose values all come from the inputs), mergePercentilesWith_within (every "
    "output lies between two of the merged input values; _between: within any bounds of the inputs), "
    "mergePercentilesWith_monotone (sorted finalq ⇒ sorted outputs). Extension (Props/C32xData, Model/ChunkPercentile): NumPy's "
    "percentile of one chunk is modelled too (virtual index (n-1)q/100; floor / ceil / round-half-even / midpoint / lerp on the "
    "sorted chunk) and the whole 1-d pipeline percentile1d (chunks -> _percentile at [0]+q+[100] -> merge_percentiles) is proved "
    "about the DATA, for every chunking (empty chunks included), method and validated sort permutation: chunk_pct_within, "
    "chunk_pct_q0 / chunk_pct_q100 (a chunk's 0th / 100th percentile is its minimum / maximum), percentile_within_data, "
    "percentile_monotone, percentile_q0_q100 (where q = 0 / 100 the result IS the data's minimum / maximum: arrange_perm, "
    "liveEntries_weight), percentile_1d_statement (the four clauses together; a run returns values iff every q is in [0, 100] "
    "and some chunk is non-empty: percentile1d_ok). Float rounding (interpolation, NumPy's float virtual index) and "
    "nanpercentile / n-d percentile (rechunk + NumPy per block) are validated only."
)
LEVEL_NOTE = ("Trusted: Lean kernel + standard axioms; that np.percentile on one chunk is the modelled formula (diffed on every chunk "
              "task of the real graph in section pctdata; chunks where NumPy's float virtual index rounds across an integer are "
              "compared by the oracle only); float64 rounding of np.interp/cumsum ('up to rounding' in the statement); t-digest path "
              "needs crick (absent).")
TECHNIQUE = "Lean 4 proof over Rat (order reasoning on sorted merged entries) + differential correspondence against merge_percentiles / da.percentile / NumPy"
ASSUMPTIONS = ["q vectors are sorted (weights non-negative), data NaN-free",
               "np.percentile(chunk, q, method) is the exact-arithmetic formula of Model/ChunkPercentile (NumPy 2.x _quantile; validated per chunk task)"]
TRUSTED = ["np.sort / np.partition inside np.percentile (the model sorts the chunk itself)",
           "np.interp / np.searchsorted semantics as modelled (validated by the function-level diff)"]


def _da():
    import dask
    import dask.array as da
    dask.config.set(scheduler="sync")
    return da


def frac(x):
    return Fraction(x) if not isinstance(x, str) else Fraction(x)


def enc_rat(x):
    f = Fraction(x)
    return [f.numerator, f.denominator]


def dec_rats(r):
    return [Fraction(p[0], p[1]) for p in r]


def close(a, b, scale):
    return abs(float(a) - float(b)) <= 1e-9 * max(1.0, scale)


def oracle(ctx, what, res, fq, lo, hi, scale, method):
    """The three clauses of the statement on a concrete output `res` for sorted `fq` (0..100)."""
    res = [float(v) for v in res]
    tol = 1e-9 * max(1.0, scale)
    for v in res:
        if not (lo - tol <= v <= hi + tol):
            ctx.fail(f"{what}[{method}]: value outside [min, max] of the data", observed=res, expected=[lo, hi])
            return
    for a, b in zip(res, res[1:]):
        if a > b + tol:
            ctx.fail(f"{what}[{method}]: not non-decreasing in q", observed=res, expected=[float(q) for q in fq])
            return
    for q, v in zip(fq, res):
        if q == 0 and abs(v - lo) > tol:
            ctx.fail(f"{what}[{method}]: q=0 is not the minimum", observed=v, expected=lo)
        if q == 100 and abs(v - hi) > tol:
            ctx.fail(f"{what}[{method}]: q=100 is not the maximum", observed=v, expected=hi)


def lean_merge(ctx, method, fq, inputs, arrs=None):
    """Lean merge_percentiles in the arrangement np.argsort picks for the same concatenated values
    (NumPy's sort is not stable and depends on the dtype; the model takes the permutation as a parameter
    and validates it). `arrs` = the per-input value arrays exactly as the real code sees them."""
    if arrs is None:
        arrs = [np.array([float(v) for v in i["v"]]) for i in inputs]
    live = [a for a, i in zip(arrs, inputs) if i["N"]]
    order = [int(k) for k in np.argsort(np.concatenate(live))] if live else Sym("stable")
    r = ctx.lean(Sym("mergepct"), Sym(method), [enc_rat(q) for q in fq],
                 [[[enc_rat(q) for q in i["q"]], [enc_rat(v) for v in i["v"]], i["N"]] for i in inputs], order)
    if r[0] == "bad-order":
        raise AssertionError("np.argsort permutation rejected by the model")
    if r[0] != "ok":
        return None
    return dec_rats(r[1])


def tie_sensitive(inputs):
    return False


def case_merge(ctx, inp):
    from dask.array.percentile import merge_percentiles
    method = inp["method"]
    fq = [Fraction(q) for q in inp["finalq"]]
    inputs = [{"q": [Fraction(q) for q in i["q"]], "v": [Fraction(v) for v in i["v"]], "N": i["N"]} for i in inp["inputs"]]
    with warnings.catch_warnings():
        warnings.simplefilter("ignore")
        try:
            res = merge_percentiles(np.array([float(q) for q in fq]), [np.array([float(q) for q in i["q"]]) for i in inputs],
                                    [np.array([float(v) for v in i["v"]]) for i in inputs], method,
                                    [i["N"] for i in inputs])
            impl = [float(v) for v in np.asarray(res)]
        except ValueError as e:
            impl = "raised"
    model = lean_merge(ctx, method, fq, inputs)
    live = [i for i in inputs if i["N"]]
    if model is None or impl == "raised":
        ctx.eq("merge_percentiles raises iff no non-trivial input", "raised" if model is None else "ok",
               "raised" if impl == "raised" else "ok")
        if impl == "raised" and live:
            ctx.fail("merge_percentiles raised although a non-empty input exists", observed=impl)
        ctx.branch("no non-trivial input")
        return
    vals = [float(v) for i in live for v in i["v"]]
    scale = max(abs(v) for v in vals)
    if not tie_sensitive(inputs):
        if len(model) != len(impl) or any(not close(m, v, scale) for m, v in zip(model, impl)):
            ctx.disagree(f"merge_percentiles[{method}] vs Lean (exact)", [float(m) for m in model], impl)
        ctx.branch("model-diff")
    else:
        ctx.branch("ties>16 (oracle only)")
    if all(i["q"][0] == 0 and i["q"][-1] == 100 for i in live) and fq == sorted(fq):
        oracle(ctx, "merge_percentiles", impl, fq, min(vals), max(vals), scale, method)
    if len(set(vals)) < len(vals):
        ctx.branch("duplicate values")
    if any(i["N"] == 0 for i in inputs):
        ctx.branch("empty input")
    ctx.branch(method)


def case_pct(ctx, inp):
    da = _da()
    a = np.array([float(v) for v in inp["data"]])
    if inp.get("int"):
        a = a.astype(np.int64)
    if inp.get("dtype"):
        a = a.astype(inp["dtype"])
        ctx.branch("dtype=" + inp["dtype"])
    chunks = tuple(inp["chunks"])
    method = inp["method"]
    fq = [Fraction(q) for q in inp["q"]]
    qf = [float(q) for q in fq]
    x = da.from_array(a, chunks=(chunks,))
    with warnings.catch_warnings():
        warnings.simplefilter("ignore")
        try:
            res = np.asarray(U.sync_compute(da.percentile(x, qf, method=method)))
        except ValueError as e:
            if a.size == 0:
                ctx.branch("empty array raises")
                return
            ctx.fail(f"percentile raised on non-empty data: {e}", observed=str(e))
            return
    if a.size == 0:
        ctx.fail("percentile of an empty array returned a value", observed=res.tolist())
        return
    if res.shape != (len(fq),):
        ctx.fail("percentile: wrong shape", observed=list(res.shape))
        return
    fin = a[np.isfinite(a)]
    scale = float(np.abs(fin).max()) if fin.size else 1.0
    if np.isfinite(a).all():
        oracle(ctx, "da.percentile", res.tolist(), fq, float(a.min()), float(a.max()), scale, method)
    else:
        # infinities: only order-based methods are generated; compare in the extended reals
        r = res.tolist()
        if any(v != v for v in r):
            ctx.fail(f"percentile[{method}] produced NaN on NaN-free data", observed=r)
        elif any(x_ > y_ for x_, y_ in zip(r, r[1:])):
            ctx.fail(f"percentile[{method}] not monotone (with infinities)", observed=r)
        elif any(v < a.min() or v > a.max() for v in r):
            ctx.fail(f"percentile[{method}] outside the data range", observed=r)
        for q, v in zip(fq, r):
            if (q == 0 and v != a.min()) or (q == 100 and v != a.max()):
                ctx.fail(f"percentile[{method}] end point wrong (with infinities)", observed=r)
        ctx.branch("infinities")
    # model: Lean merge of NumPy's per-chunk percentiles
    if np.isfinite(a).all():
        calc_q = [Fraction(0)] + fq + [Fraction(100)]
        inputs, arrs = [], []
        for _, _, blk in U.blocks_c_order(a, (chunks,)):
            if len(blk):
                with warnings.catch_warnings():
                    warnings.simplefilter("ignore")
                    v = np.percentile(blk, [float(q) for q in calc_q], method=method)
                inputs.append({"q": calc_q, "v": [Fraction(float(t)) for t in v], "N": len(blk)})
                arrs.append(v)
            else:
                inputs.append({"q": calc_q, "v": [Fraction(0)] * len(calc_q), "N": 0})
                arrs.append(np.zeros(len(calc_q)))
        if not tie_sensitive(inputs):
            model = lean_merge(ctx, method, fq, inputs, arrs)
            if model is None or any(not close(m, v, scale) for m, v in zip(model, res.tolist())):
                ctx.disagree(f"da.percentile[{method}] vs Lean merge of per-chunk NumPy percentiles",
                             None if model is None else [float(m) for m in model], res.tolist())
            ctx.branch("model-diff")
    if 0 in chunks:
        ctx.branch("empty chunk")
    if len(chunks) > 1:
        ctx.branch("multi-chunk")
    if len(set(a.tolist())) < a.size:
        ctx.branch("duplicate data")
    ctx.branch(method)


def case_nanpct(ctx, inp):
    da = _da()
    a = np.array([float("nan") if v == "nan" else float(v) for v in inp["data"]]).reshape(inp["shape"])
    chunks = tuple(tuple(c) for c in inp["chunks"])
    x = da.from_array(a, chunks=chunks)
    q, axis, method, kd, fn = inp["q"], inp["axis"], inp["method"], inp["keepdims"], inp["fn"]
    got, exp = U.run_both(lambda: U.sync_compute(getattr(da, fn)(x, q, axis=axis, method=method, keepdims=kd)),
                          lambda: getattr(np, fn)(a, q, axis=axis, method=method, keepdims=kd))
    if exp[0] == "raised":
        if got[0] != "raised":
            ctx.fail(f"{fn}: NumPy raises, dask returns", observed=str(got[1]))
        return
    if got[0] == "raised":
        ctx.fail(f"{fn}: dask raised: {got[1]}", observed=got[1])
        return
    if not U.same_values(got[1], exp[1], False, U.fsum_abs(a)):
        ctx.fail(f"{fn} along an axis differs from NumPy", observed=np.asarray(got[1]).tolist(), expected=np.asarray(exp[1]).tolist())
    if np.isnan(a).any():
        ctx.branch("nan data")
    if len(chunks[axis]) > 1:
        ctx.branch("axis chunked")
    ctx.branch(fn)


def case_joint(ctx, inp):
    """percentiles computed in ONE graph keep their own results: different (q, method) of the same array, the same
    (q, method) of a second array with the same length/chunks but other values, and of the same values chunked otherwise"""
    da = _da()
    a = np.array([float(v) for v in inp["data"]])
    x = da.from_array(a, chunks=(tuple(inp["chunks"]),))
    srcs = [("x", x)]
    if len(a):
        srcs.append(("other values", da.from_array(a[::-1] * 2.0 + 1.0, chunks=(tuple(inp["chunks"]),))))
        srcs.append(("other chunks", da.from_array(a, chunks=(tuple(U.compositions(len(a))[(len(a) * 7) % (1 << (len(a) - 1))]),))))
    arrs, labels = [], []
    for nm, src in srcs:
        for it in inp["items"]:
            arrs.append(da.percentile(src, [float(Fraction(q)) for q in it["q"]], method=it["method"]))
            labels.append((nm, it))
    bad = U.joint_vs_solo(arrs)
    for i in bad:
        ctx.fail("a percentile computed together with others differs from the same percentile computed alone",
                 observed={"item": labels[i], "name": arrs[i].name,
                           "same_name_as": [labels[j] for j, y in enumerate(arrs) if j != i and y.name == arrs[i].name]})
    ctx.branch(f"joint×{len(inp['items'])}")


def _index_rounding_differs(n, qf, qx):
    """NumPy computes the virtual index (n-1)*(q/100) in float64; the model computes it exactly. When floor / ceil /
    round-half-even of the two differ (an exact integer or half-integer index missed by one ulp) NumPy picks a
    neighbouring element: float behaviour outside the exact model — such a chunk is compared by the oracle only."""
    import math
    vf = (n - 1) * (qf / 100.0)
    vx = (n - 1) * qx / 100
    fx = vx.numerator // vx.denominator
    if math.floor(vf) != fx or math.ceil(vf) != -((-vx.numerator) // vx.denominator):
        return True
    return int(np.around(vf)) != (fx if vx - fx < Fraction(1, 2) else fx + 1 if vx - fx > Fraction(1, 2) else fx + (fx % 2))


def case_pctdata(ctx, inp):
    """Extension round: the chunk side (`_percentile` = NumPy's percentile of one block at [0] + q + [100]) and the
    whole 1-d pipeline against the Lean model `ChunkPercentile` (exact rationals), on the intermediates of the REAL graph."""
    import dask
    da = _da()
    a = np.array([float(Fraction(v)) for v in inp["data"]])
    if inp.get("int"):
        a = a.astype(np.int64)
    chunks = tuple(inp["chunks"])
    method = inp["method"]
    fq = [Fraction(q) for q in inp["q"]]
    qf = [float(q) for q in fq]
    calc_q = [Fraction(0)] + fq + [Fraction(100)]
    in_range = all(0 <= q <= 100 for q in fq)
    x = da.from_array(a, chunks=(chunks,))
    y = da.percentile(x, qf, method=method)
    g = dict(y.__dask_graph__())
    ckeys = sorted(k for k in g if isinstance(k, tuple) and isinstance(k[0], str) and k[0].startswith("percentile_chunk-"))
    ctx.eq("one percentile_chunk task per block", len(chunks), len(ckeys))
    blocks = [blk for _, _, blk in U.blocks_c_order(a, (chunks,))]
    enc_blocks = [[enc_rat(Fraction(float(v))) for v in blk.tolist()] for blk in blocks]
    exact = True
    real_parts = None
    with warnings.catch_warnings():
        warnings.simplefilter("ignore")
        try:
            real_parts = dask.get(g, ckeys)
        except ValueError:
            real_parts = None
    # function level: every chunk task of the real graph vs the Lean chunk function
    if real_parts is None:
        if in_range or a.size == 0:
            ctx.fail("a percentile_chunk task raised ValueError for percentiles in [0, 100]", observed="raised")
            return
        for eb in enc_blocks:
            if eb:
                ctx.eq("np.percentile raises for a percentile outside [0, 100]", "raised",
                       str(ctx.lean(Sym("chunkpct"), Sym(method), [enc_rat(q) for q in calc_q], eb)[0]))
        ctx.branch("q outside [0, 100]: chunk raises")
    else:
        for i, (blk, eb, (rv, rn)) in enumerate(zip(blocks, enc_blocks, real_parts)):
            r = ctx.lean(Sym("chunkpct"), Sym(method), [enc_rat(q) for q in calc_q], eb)
            if len(blk) == 0:
                ctx.eq("_percentile of an empty block is (None, 0)", [0, "none"], [rn, "none" if rv is None else "some"])
                ctx.eq("Lean chunk of an empty block", [0, "none"], [r[0], "none" if r[1] is None else "some"])
                continue
            if not in_range:
                ctx.fail("np.percentile accepted a percentile outside [0, 100]", observed=np.asarray(rv).tolist())
                return
            ctx.eq("N of the chunk", len(blk), int(rn))
            if any(_index_rounding_differs(len(blk), float(q), q) for q in calc_q) and method != "linear":
                exact = False
                ctx.branch("float index rounding in NumPy (oracle only)")
                continue
            mv = dec_rats(r[1])
            sc = max(1.0, float(np.abs(blk).max()))
            if r[0] != len(blk) or len(mv) != len(calc_q) or any(not close(m, v, sc) for m, v in zip(mv, np.asarray(rv).tolist())):
                ctx.disagree(f"_percentile[{method}] of block {i} vs Lean chunkPct", [float(m) for m in mv], np.asarray(rv).tolist())
            # the two clauses the merge relies on, on the real chunk result
            rl = [float(v) for v in np.asarray(rv).tolist()]
            if abs(rl[0] - float(blk.min())) > 1e-9 * sc or abs(rl[-1] - float(blk.max())) > 1e-9 * sc:
                ctx.fail("per-chunk percentile at 0 / 100 is not the chunk's min / max", observed=rl, expected=[float(blk.min()), float(blk.max())])
            if any(v < float(blk.min()) - 1e-9 * sc or v > float(blk.max()) + 1e-9 * sc for v in rl):
                ctx.fail("per-chunk percentile outside the chunk's range", observed=rl)
            ctx.branch("chunk-diff")
    # API level: the whole Lean pipeline (with NumPy's argsort permutation of the real chunk results) vs dask
    with warnings.catch_warnings():
        warnings.simplefilter("ignore")
        try:
            res = np.asarray(U.sync_compute(y)).tolist()
        except ValueError:
            res = "raised"
    live = [np.asarray(rv, dtype=float) for rv, rn in (real_parts or []) if rn]
    order = [int(k) for k in np.argsort(np.concatenate(live))] if live else Sym("stable")
    if fq != sorted(fq):
        # calc_q unsorted: negative weights, np.searchsorted on a non-monotone cumsum — outside the statement (and the
        # merge model, which reads searchsorted as a count); the chunk level above is still compared
        ctx.branch("unsorted q (chunk level only)")
    elif exact:
        r = ctx.lean(Sym("pct1d"), Sym(method), [enc_rat(q) for q in fq], enc_blocks, order)
        if r[0] == "bad-order":
            # the model's own chunk values are not sorted by the permutation that sorts the real ones
            ctx.disagree("np.argsort permutation of the real chunk results vs the model's chunk values", "not value-sorting", order)
        elif r[0] != "ok" or res == "raised":
            ctx.eq("da.percentile raises iff the model does", str(r[0]), "raised" if res == "raised" else "ok")
        else:
            mv = dec_rats(r[1])
            sc = max(1.0, float(np.abs(a).max()))
            if len(mv) != len(res) or any(not close(m, v, sc) for m, v in zip(mv, res)):
                ctx.disagree(f"da.percentile[{method}] vs Lean percentile1d (exact)", [float(m) for m in mv], res)
            ctx.branch("pipeline-diff")
    if res == "raised":
        if a.size and in_range:
            ctx.fail("da.percentile raised on non-empty data with percentiles in [0, 100]", observed="raised")
        ctx.branch("raises (empty data)" if not a.size else "raises (q out of range)")
        return
    if not in_range:
        ctx.fail("da.percentile returned values for a percentile outside [0, 100]", observed=res)
        return
    if fq == sorted(fq):
        oracle(ctx, "da.percentile", res, fq, float(a.min()), float(a.max()), max(1.0, float(np.abs(a).max())), method)
    if 0 in chunks:
        ctx.branch("empty chunk")
    if len([c for c in chunks if c]) > 1:
        ctx.branch("several non-empty chunks")
    if len(set(a.tolist())) < a.size:
        ctx.branch("duplicate data")
    if any(c == 1 for c in chunks):
        ctx.branch("one-element chunk")
    ctx.branch("x:" + method)


CASES = {"pctdata": case_pctdata, "joint": case_joint, "merge": case_merge, "pct": case_pct, "nanpct": case_nanpct}
CASES = {k: U.pure_sources(v) for k, v in CASES.items()}


# ---------------------------------------------------------------------------------------------

def _rand_q(rng, ends=True):
    k = rng.randint(0, 5)
    den = rng.choice([1, 2, 4, 8])
    qs = sorted(Fraction(rng.randint(0, 100 * den), den) for _ in range(k))
    if ends or rng.random() < 0.7:
        if rng.random() < 0.8:
            qs = [Fraction(0)] + qs
        if rng.random() < 0.8:
            qs = qs + [Fraction(100)]
    return qs or [Fraction(50)]


def _s(fs):
    return [str(f) for f in fs]


def gen_merge(ctx, n):
    rng = ctx.rng
    for _ in range(n):
        nin = rng.randint(1, 5)
        hi = rng.choice([2, 4, 10, 50])
        inputs = []
        shared_q = [Fraction(0)] + _rand_q(rng, ends=False) + [Fraction(100)] if rng.random() < 0.6 else None
        for _ in range(nin):
            q = shared_q or sorted(set([Fraction(0), Fraction(100)] + _rand_q(rng, ends=False)))
            if rng.random() < 0.1:
                q = q[1:-1] or [Fraction(50)]          # general use: ends not included
            v = sorted(rng.randint(-hi, hi) for _ in q)
            N = rng.choice([0, 1, 1, 2, 3, 5, 10]) if rng.random() < 0.9 else 0
            inputs.append({"q": _s(q), "v": _s(v), "N": N})
        fq = sorted(_rand_q(rng))
        if rng.random() < 0.05:
            rng.shuffle(fq)
        yield "merge", {"method": rng.choice(METHODS), "finalq": _s(fq), "inputs": inputs}


def gen_pct(ctx, n):
    rng = ctx.rng
    for _ in range(n):
        ln = rng.randint(1, 14)
        chunks = U.rand_chunks_1d(rng, ln, zero_p=0.15)
        if rng.random() < 0.1:      # long array, few large chunks
            ln = rng.randint(15, 60)
            cuts = sorted(rng.sample(range(1, ln), rng.randint(0, 3)))
            chunks = tuple(b - a for a, b in zip([0] + cuts, cuts + [ln]))
        method = rng.choice(METHODS)
        kind = rng.random()
        if kind < 0.55:
            data, is_int = [rng.randint(0, rng.choice([1, 3, 9])) for _ in range(ln)], True
        elif kind < 0.85 or method in ("linear", "midpoint"):
            data, is_int = [rng.choice([0.5, 1.25, -2.0, 7.75, 3.0, 3.0, rng.randint(-5, 5) / 4]) for _ in range(ln)], False
        else:
            data, is_int = [rng.choice([float("inf"), float("-inf"), 1.0, 2.0, 0.0]) for _ in range(ln)], False
        inp = {"data": [str(v) if isinstance(v, float) and v in (float("inf"), float("-inf")) else v for v in data],
               "int": is_int, "chunks": list(chunks), "q": _s(sorted(_rand_q(rng))), "method": method}
        if rng.random() < 0.2:
            inp["dtype"] = rng.choice(["int32", "uint8", "int16"]) if is_int else "float32"
        yield "pct", inp


def gen_exhaustive(ctx):
    rng = ctx.rng
    maxn = 6 if ctx.thorough() else 5
    for n in range(1, maxn + 1):
        for ch in U.chunkings_1d(n, zeros=True):
            if not ctx.thorough() and n >= 4 and rng.random() < 0.5:
                continue
            data = [rng.randint(0, 3) for _ in range(n)]
            yield "pct", {"data": data, "int": True, "chunks": list(ch), "q": ["0", "25", "50", "75", "100"],
                          "method": rng.choice(METHODS)}


def gen_nanpct(ctx, n):
    rng = ctx.rng
    for _ in range(n):
        shape = U.rand_shape(rng, 3, 4)
        if len(shape) == 1:
            shape = shape + (rng.randint(1, 4),)
        chunks = U.rand_chunks(rng, shape)
        fn = rng.choice(["nanpercentile", "nanpercentile", "percentile"])
        cnt = U.prod_shape(shape)
        data = [("nan" if (fn == "nanpercentile" and rng.random() < 0.25) else rng.choice([rng.randint(-4, 4), round(rng.uniform(-9, 9), 2)]))
                for _ in range(cnt)]
        yield "nanpct", {"data": data, "shape": list(shape), "chunks": [list(c) for c in chunks], "fn": fn,
                         "q": rng.choice([50, 0, 100, [0, 100], [10, 50, 90], 33.3]), "axis": rng.randrange(len(shape)),
                         "method": rng.choice(METHODS), "keepdims": rng.random() < 0.3}


def gen_pctdata(ctx, n):
    rng = ctx.rng
    for _ in range(n):
        ln = rng.randint(0, 12) if rng.random() < 0.9 else rng.randint(13, 40)
        chunks = U.rand_chunks_1d(rng, ln, zero_p=0.2)
        if ln > 12:
            cuts = sorted(rng.sample(range(1, ln), rng.randint(0, 3)))
            chunks = tuple(b - a for a, b in zip([0] + cuts, cuts + [ln]))
        is_int = rng.random() < 0.5
        if is_int:
            data = [rng.randint(-3, rng.choice([1, 3, 9])) for _ in range(ln)]
        else:
            data = [Fraction(rng.randint(-40, 40), rng.choice([1, 2, 4, 8])) for _ in range(ln)]
        q = sorted(_rand_q(rng))
        r = rng.random()
        if r < 0.05:
            q = q + [Fraction(rng.choice([101, 250]))]
        elif r < 0.08:
            q = [Fraction(-1)] + q
        elif r < 0.13:
            rng.shuffle(q)
        yield "pctdata", {"data": _s(data), "int": is_int, "chunks": list(chunks), "q": _s(q), "method": rng.choice(METHODS)}


def generate(ctx):
    yield "merge", {"method": "lower", "finalq": ["50"], "inputs": [{"q": ["0", "100"], "v": ["1", "2"], "N": 0}]}
    yield from gen_merge(ctx, ctx.n(900, 15000))
    yield from gen_exhaustive(ctx)
    yield from gen_pct(ctx, ctx.n(250, 4000))
    yield from gen_nanpct(ctx, ctx.n(60, 800))
    rng = ctx.rng
    for _ in range(ctx.n(50, 500)):
        ln = rng.randint(2, 12)
        items = [{"q": _s(sorted(_rand_q(rng))), "method": rng.choice(METHODS)} for _ in range(rng.randint(2, 5))]
        if rng.random() < 0.5:      # same q, different methods
            for it in items[1:]:
                it["q"] = items[0]["q"]
        yield "joint", {"data": [rng.randint(0, 9) for _ in range(ln)], "chunks": list(U.rand_chunks_1d(rng, ln)), "items": items}
    yield from gen_pctdata(ctx, ctx.n(160, 2500))     # extension round: generated last (older random streams unchanged)


def search(ctx):
    yield from gen_merge(ctx, ctx.n(500))
    yield from gen_exhaustive(ctx)
    yield from gen_pct(ctx, ctx.n(300))
    yield from gen_pctdata(ctx, ctx.n(200))
